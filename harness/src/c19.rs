//! C19: template interpolation and replace-all.
use crate::val::Val;
use grep_matcher::{Captures, Match, Matcher};
use grep_printer::StandardBuilder;
use grep_searcher::{Searcher, Sink, SinkContext, SinkFinish, SinkMatch};

/// kinds served by this module
pub fn dispatch(kind: u32, v: &Val) -> Option<Val> {
    match kind {
        1901 => Some(run_interpolate(v)),
        1902 => Some(run_oracle(v)),
        1903 => Some(run_glue(v)),
        _ => None,
    }
}

/// Captures backed by explicit texts: group i has text caps[i] (laid out in a synthetic haystack).
struct TableCaps { spans: Vec<Option<Match>> }
impl Captures for TableCaps {
    fn len(&self) -> usize { self.spans.len() }
    fn get(&self, i: usize) -> Option<Match> { self.spans.get(i).copied().flatten() }
}

/// case: (template caps names); result: ((interpolated)) and the same again (the Coq side
/// prints model and spec, which must agree; here both slots are the code's answer).
pub fn run_interpolate(v: &Val) -> Val {
    let template = v.fld(0).bytes();
    let mut hay = vec![];
    let mut spans = vec![];
    for c in v.fld(1).list() {
        match c.opt() {
            None => spans.push(None),
            Some(t) => {
                let t = t.bytes();
                let st = hay.len();
                hay.extend_from_slice(&t);
                spans.push(Some(Match::new(st, hay.len())));
            }
        }
    }
    let names: Vec<(Vec<u8>, usize)> =
        v.fld(2).list().iter().map(|p| (p.fld(0).bytes(), p.fld(1).us())).collect();
    let caps = TableCaps { spans };
    let mut dst = vec![];
    caps.interpolate(
        |name| names.iter().find(|(n, _)| n.as_slice() == name.as_bytes()).map(|(_, i)| *i),
        &hay,
        &template,
        &mut dst,
    );
    let r = Val::of_bytes(&dst);
    Val::L(vec![Val::of_opt(Some(r.clone())), r])
}

/// A sink that forwards everything to the real printer sink and records the matched events.
struct Tee<'a, S: Sink> {
    inner: S,
    events: &'a mut Vec<(Vec<u8>, usize, usize)>, // (buffer[..range.end], range.start, range.end)
}
impl<'a, S: Sink> Sink for Tee<'a, S> {
    type Error = S::Error;
    fn matched(&mut self, s: &Searcher, m: &SinkMatch<'_>) -> Result<bool, S::Error> {
        let r = m.bytes_range_in_buffer();
        self.events.push((m.buffer()[..r.end].to_vec(), r.start, r.end));
        self.inner.matched(s, m)
    }
    fn context(&mut self, s: &Searcher, c: &SinkContext<'_>) -> Result<bool, S::Error> { self.inner.context(s, c) }
    fn context_break(&mut self, s: &Searcher) -> Result<bool, S::Error> { self.inner.context_break(s) }
    fn binary_data(&mut self, s: &Searcher, o: u64) -> Result<bool, S::Error> { self.inner.binary_data(s, o) }
    fn begin(&mut self, s: &Searcher) -> Result<bool, S::Error> { self.inner.begin(s) }
    fn finish(&mut self, s: &Searcher, f: &SinkFinish) -> Result<(), S::Error> { self.inner.finish(s, f) }
}

fn caps_to_val(caps: &grep_regex::RegexCaptures) -> Val {
    Val::L((0..caps.len())
        .map(|i| match caps.get(i) {
            None => Val::L(vec![]),
            Some(m) => Val::L(vec![Val::L(vec![Val::of_us(m.start()), Val::of_us(m.end())])]),
        })
        .collect())
}

/// case: (pattern template input crlf only_matching)
/// result: (status code_output model_case oracle_verdict)
///   status 0 = ran, 1 = pattern rejected
///   model_case = (template names crlf only_matching events), event = (buf rs re table)
///   oracle_verdict = (agree d2_class expected_output)
pub fn run_oracle(v: &Val) -> Val {
    let pattern = String::from_utf8(v.fld(0).bytes()).unwrap_or_default();
    let template = v.fld(1).bytes();
    let input = v.fld(2).bytes();
    let crlf = v.fld(3).b();
    let only = v.fld(4).b();
    let opts = crate::rgcfg::RgOpts { crlf, text: true, ..Default::default() };
    let matcher = match crate::rgcfg::matcher(&[pattern.clone()], &opts) {
        Ok(m) => m,
        Err(_) => return Val::L(vec![Val::N(1)]),
    };
    let mut rb = regex::bytes::RegexBuilder::new(&pattern);
    rb.multi_line(true).unicode(true);
    if crlf { rb.crlf(true); }
    let re = match rb.build() {
        Ok(r) => r,
        Err(_) => return Val::L(vec![Val::N(1)]),
    };
    let mut sb = crate::rgcfg::searcher_builder(&opts);
    sb.line_number(false);
    let mut searcher = sb.build();
    let mut printer = StandardBuilder::new()
        .replacement(Some(template.clone()))
        .only_matching(only)
        .build_no_color(vec![]);
    let mut events = vec![];
    {
        let sink = printer.sink(&matcher);
        let tee = Tee { inner: sink, events: &mut events };
        if searcher.search_slice(&matcher, &input, tee).is_err() {
            return Val::L(vec![Val::N(2)]);
        }
    }
    let out = printer.into_inner().into_inner();

    // model case: per matched line the captures table of the truncated haystack
    let names: Vec<Val> = re
        .capture_names()
        .enumerate()
        .filter_map(|(i, n)| n.map(|n| Val::L(vec![Val::of_bytes(n.as_bytes()), Val::of_us(i)])))
        .collect();
    let mut evs = vec![];
    let mut expected = vec![];
    let mut d2 = false;
    for (buf, rs, rend) in &events {
        // haystack as the printer cuts it: line content without terminator
        let mut hend = *rend;
        if hend > 0 && buf[hend - 1] == b'\n' {
            hend -= 1;
            if crlf && hend > 0 && buf[hend - 1] == b'\r' { hend -= 1; }
        }
        let hay = &buf[..hend];
        let mut table = vec![];
        let mut caps = matcher.new_captures().unwrap();
        for p in 0..=hay.len() {
            if p < *rs { table.push(Val::L(vec![])); continue; }
            match matcher.captures_at(hay, p, &mut caps) {
                Ok(true) => table.push(Val::L(vec![caps_to_val(&caps)])),
                _ => table.push(Val::L(vec![])),
            }
        }
        evs.push(Val::L(vec![Val::of_bytes(buf), Val::of_us(*rs), Val::of_us(*rend), Val::L(table)]));
        // oracle: the regex crate on the line's content alone
        let content = &buf[*rs..hend];
        let term: &[u8] = if crlf { b"\r\n" } else { b"\n" };
        let terminated = hend < *rend;
        if re.find(content).is_none() {
            // the searcher delivered a line the pattern does not match (C01's business, e.g. D1);
            // C19 only demands that such a line is printed unaltered
            expected.extend_from_slice(&buf[*rs..*rend]);
            if !terminated { expected.extend_from_slice(term); }
        } else if only {
            for c in re.captures_iter(content) {
                let mut e = vec![];
                c.expand(&template, &mut e);
                expected.extend_from_slice(&e);
                expected.extend_from_slice(term);
            }
        } else {
            let rep = re.replace_all(content, &template[..]);
            expected.extend_from_slice(&rep);
            expected.extend_from_slice(term);
        }
        if !terminated {
            if let Some(m) = re.find_iter(content).last() {
                if m.start() == m.end() && m.end() == content.len() { d2 = true; }
            }
        }
    }
    let model_case = Val::L(vec![
        Val::of_bytes(&template),
        Val::L(names),
        Val::of_bool(crlf),
        Val::of_bool(only),
        Val::L(evs),
    ]);
    let verdict = Val::L(vec![Val::of_bool(out == expected), Val::of_bool(d2), Val::of_bytes(&expected)]);
    Val::L(vec![Val::N(0), Val::of_bytes(&out), model_case, verdict])
}

/// A sink that forwards everything to the real printer sink and records, for every matched event,
/// the searcher's WHOLE buffer and the range of the matched lines in it (what StandardSink::matched
/// is supposed to hand to the Replacer).
struct TeeFull<'a, S: Sink> {
    inner: S,
    events: &'a std::cell::RefCell<Vec<(Vec<u8>, usize, usize)>>,
}
impl<'a, S: Sink> Sink for TeeFull<'a, S> {
    type Error = S::Error;
    fn matched(&mut self, s: &Searcher, m: &SinkMatch<'_>) -> Result<bool, S::Error> {
        let r = m.bytes_range_in_buffer();
        self.events.borrow_mut().push((m.buffer().to_vec(), r.start, r.end));
        self.inner.matched(s, m)
    }
    fn context(&mut self, s: &Searcher, c: &SinkContext<'_>) -> Result<bool, S::Error> { self.inner.context(s, c) }
    fn context_break(&mut self, s: &Searcher) -> Result<bool, S::Error> { self.inner.context_break(s) }
    fn binary_data(&mut self, s: &Searcher, o: u64) -> Result<bool, S::Error> { self.inner.binary_data(s, o) }
    fn begin(&mut self, s: &Searcher) -> Result<bool, S::Error> { self.inner.begin(s) }
    fn finish(&mut self, s: &Searcher, f: &SinkFinish) -> Result<(), S::Error> { self.inner.finish(s, f) }
}

/// The documented window of the replacement pass (printer/src/util.rs, the comment in
/// find_iter_at_in_context): multi-line -> at most MAX_LOOK_AHEAD = 128 bytes after the range;
/// line search -> the buffer up to the end of the last line's content.
fn glue_window(buf: &[u8], rend: usize, is_ml: bool, crlf: bool) -> usize {
    if is_ml {
        if buf.len() - rend >= 128 { rend + 128 } else { buf.len() }
    } else {
        let mut hend = rend;
        if hend > 0 && buf[hend - 1] == b'\n' {
            hend -= 1;
            if crlf && hend > 0 && buf[hend - 1] == b'\r' { hend -= 1; }
        }
        hend
    }
}

fn write_piece(out: &mut Vec<u8>, piece: &[u8], term: &[u8], crlf: bool) {
    out.extend_from_slice(piece);
    let ended = if crlf { piece.ends_with(b"\n") } else { piece.ends_with(term) };
    if !ended { out.extend_from_slice(term); }
}

/// kind 1903 — the call site of the Replacer in the standard printer (StandardSink::matched).
/// case: (pattern template input crlf only_matching multiline)
/// result: (status code_output model_case oracle_verdict)
///   status 0 = ran, 1 = pattern rejected, 2 = search error, 3 = the printer panicked
///   model_case = (template names crlf only_matching is_multi_line events),
///                event = (buffer rs re window_len table)   table: captures_at(window, p) for p in 0..=window_len
///   oracle_verdict = (agree d2_class expected_output window_class)
///   oracle: the regex crate's successive matches of the WHOLE buffer that start inside the range are
///   replaced by their expansions, the rest of the range is copied.
pub fn run_glue(v: &Val) -> Val {
    let pattern = String::from_utf8(v.fld(0).bytes()).unwrap_or_default();
    let template = v.fld(1).bytes();
    let input = v.fld(2).bytes();
    let crlf = v.fld(3).b();
    let only = v.fld(4).b();
    let multiline = v.fld(5).b();
    let opts = crate::rgcfg::RgOpts { crlf, text: true, multiline, ..Default::default() };
    let matcher = match crate::rgcfg::matcher(&[pattern.clone()], &opts) {
        Ok(m) => m,
        Err(_) => return Val::L(vec![Val::N(1)]),
    };
    let mut rb = regex::bytes::RegexBuilder::new(&pattern);
    rb.multi_line(true).unicode(true);
    if crlf { rb.crlf(true); }
    let re = match rb.build() {
        Ok(r) => r,
        Err(_) => return Val::L(vec![Val::N(1)]),
    };
    let mut sb = crate::rgcfg::searcher_builder(&opts);
    sb.line_number(false);
    let mut searcher = sb.build();
    let is_ml = searcher.multi_line_with_matcher(&matcher);
    let events = std::cell::RefCell::new(vec![]);
    let run = std::panic::catch_unwind(std::panic::AssertUnwindSafe(|| {
        let mut printer = StandardBuilder::new()
            .replacement(Some(template.clone()))
            .only_matching(only)
            .build_no_color(vec![]);
        let r = {
            let sink = printer.sink(&matcher);
            let tee = TeeFull { inner: sink, events: &events };
            searcher.search_slice(&matcher, &input, tee)
        };
        r.map(|_| printer.into_inner().into_inner())
    }));
    let (status, out): (u128, Vec<u8>) = match run {
        Ok(Ok(o)) => (0, o),
        Ok(Err(_)) => return Val::L(vec![Val::N(2)]),
        Err(_) => (3, b"PANIC".to_vec()),
    };
    let events = events.into_inner();
    let names: Vec<Val> = re
        .capture_names()
        .enumerate()
        .filter_map(|(i, n)| n.map(|n| Val::L(vec![Val::of_bytes(n.as_bytes()), Val::of_us(i)])))
        .collect();
    let term: &[u8] = if crlf { b"\r\n" } else { b"\n" };
    let mut evs = vec![];
    let mut expected = vec![];
    let mut d2 = false;
    let mut window_class = false;
    for (buf, rs, rend) in &events {
        let wlen = glue_window(buf, *rend, is_ml, crlf);
        let hay = &buf[..wlen];
        let mut table = vec![];
        let mut caps = matcher.new_captures().unwrap();
        for p in 0..=hay.len() {
            if p < *rs { table.push(Val::L(vec![])); continue; }
            match matcher.captures_at(hay, p, &mut caps) {
                Ok(true) => table.push(Val::L(vec![caps_to_val(&caps)])),
                _ => table.push(Val::L(vec![])),
            }
        }
        evs.push(Val::L(vec![Val::of_bytes(buf), Val::of_us(*rs), Val::of_us(*rend), Val::of_us(wlen), Val::L(table)]));
        // ---- oracle
        // the text the pattern is matched against: the whole buffer for a multi-line searcher, the
        // line's content (no terminator) for a line searcher, as in kind 1902
        let (otext, obase): (&[u8], usize) = if multiline { (&buf[..], 0) } else { (&buf[*rs..wlen], *rs) };
        let mut dst = vec![];
        let mut pieces: Vec<Vec<u8>> = vec![];
        let mut last = *rs;
        let unterminated = *rend == buf.len() && !buf[..*rend].ends_with(b"\n");
        for c in re.captures_iter(otext) {
            let m = c.get(0).unwrap();
            let (s, e) = (m.start() + obase, m.end() + obase);
            if s < *rs || s > *rend { continue; }
            if s == *rend {
                // a match at the very end of an unterminated last line belongs to that line (class D2)
                if !(unterminated && s == e) { continue; }
                d2 = true;
            }
            if s < last { continue; }
            dst.extend_from_slice(&buf[last..s]);
            let mut x = vec![];
            c.expand(&template, &mut x);
            dst.extend_from_slice(&x);
            pieces.push(x);
            last = e;
        }
        // a line search replaces within the line's content; the terminator is written by the printer
        let tail_end = if is_ml { *rend } else { wlen };
        if last <= tail_end { dst.extend_from_slice(&buf[last..tail_end]); }
        // is the window shorter than the buffer, and does the window's own end produce a match
        // that the whole buffer does not have?  (class: MAX_LOOK_AHEAD window)
        if is_ml && wlen < buf.len() {
            let a: Vec<(usize, usize)> = re.find_iter(hay).map(|m| (m.start(), m.end())).filter(|m| m.0 >= *rs && m.0 < *rend).collect();
            let b: Vec<(usize, usize)> = re.find_iter(buf).map(|m| (m.start(), m.end())).filter(|m| m.0 >= *rs && m.0 < *rend).collect();
            if a != b { window_class = true; }
        }
        if !is_ml {
            // one line per event (as kind 1902)
            if pieces.is_empty() {
                write_piece(&mut expected, &buf[*rs..*rend], term, crlf);
            } else if only {
                for x in &pieces { write_piece(&mut expected, x, term, crlf); }
            } else {
                write_piece(&mut expected, &dst, term, crlf);
            }
        } else {
            // documented multi-line output: the text is printed line by line, every line ends with
            // the line terminator; with -o only the (non-empty) parts of the replacements on each line
            let texts: Vec<&[u8]> = if pieces.is_empty() { vec![&buf[*rs..*rend]] }
                                    else if only { pieces.iter().map(|x| &x[..]).collect() }
                                    else { vec![&dst[..]] };
            let skip_empty = only && !pieces.is_empty();
            for t in texts {
                let mut rest = t;
                while !rest.is_empty() {
                    let (mut line, terminated, next) = match rest.iter().position(|&b| b == b'\n') {
                        Some(i) => (&rest[..i], true, &rest[i + 1..]),
                        None => (rest, false, &rest[rest.len()..]),
                    };
                    if crlf && terminated && line.ends_with(b"\r") { line = &line[..line.len() - 1]; }
                    if !(skip_empty && line.is_empty()) {
                        expected.extend_from_slice(line);
                        expected.extend_from_slice(term);
                    }
                    rest = next;
                }
            }
        }
    }
    let model_case = Val::L(vec![
        Val::of_bytes(&template),
        Val::L(names),
        Val::of_bool(crlf),
        Val::of_bool(only),
        Val::of_bool(is_ml),
        Val::L(evs),
    ]);
    let verdict = Val::L(vec![Val::of_bool(status == 0 && out == expected), Val::of_bool(d2), Val::of_bytes(&expected),
                              Val::of_bool(window_class)]);
    Val::L(vec![Val::N(status), Val::of_bytes(&out), model_case, verdict])
}
