//! C19: template interpolation and replace-all.
use crate::val::Val;
use grep_matcher::{Captures, Match, Matcher};
use grep_printer::StandardBuilder;
use grep_searcher::{Searcher, Sink, SinkContext, SinkFinish, SinkMatch};

/// kinds served by this module
pub fn dispatch(kind: u32, v: &Val) -> Option<Val> {
    match kind {
        1901 => Some(run_interpolate(v)),
        1902 => Some(run_oracle(v)),
        _ => None,
    }
}

/// Captures backed by explicit texts: group i has text caps[i] (laid out in a synthetic haystack).
struct TableCaps { spans: Vec<Option<Match>> }
impl Captures for TableCaps {
    fn len(&self) -> usize { self.spans.len() }
    fn get(&self, i: usize) -> Option<Match> { self.spans.get(i).copied().flatten() }
}

/// case: (template caps names); result: ((interpolated)) and the same again (the Coq side
/// prints model and spec, which must agree; here both slots are the code's answer).
pub fn run_interpolate(v: &Val) -> Val {
    let template = v.fld(0).bytes();
    let mut hay = vec![];
    let mut spans = vec![];
    for c in v.fld(1).list() {
        match c.opt() {
            None => spans.push(None),
            Some(t) => {
                let t = t.bytes();
                let st = hay.len();
                hay.extend_from_slice(&t);
                spans.push(Some(Match::new(st, hay.len())));
            }
        }
    }
    let names: Vec<(Vec<u8>, usize)> =
        v.fld(2).list().iter().map(|p| (p.fld(0).bytes(), p.fld(1).us())).collect();
    let caps = TableCaps { spans };
    let mut dst = vec![];
    caps.interpolate(
        |name| names.iter().find(|(n, _)| n.as_slice() == name.as_bytes()).map(|(_, i)| *i),
        &hay,
        &template,
        &mut dst,
    );
    let r = Val::of_bytes(&dst);
    Val::L(vec![Val::of_opt(Some(r.clone())), r])
}

/// A sink that forwards everything to the real printer sink and records the matched events.
struct Tee<'a, S: Sink> {
    inner: S,
    events: &'a mut Vec<(Vec<u8>, usize, usize)>, // (buffer[..range.end], range.start, range.end)
}
impl<'a, S: Sink> Sink for Tee<'a, S> {
    type Error = S::Error;
    fn matched(&mut self, s: &Searcher, m: &SinkMatch<'_>) -> Result<bool, S::Error> {
        let r = m.bytes_range_in_buffer();
        self.events.push((m.buffer()[..r.end].to_vec(), r.start, r.end));
        self.inner.matched(s, m)
    }
    fn context(&mut self, s: &Searcher, c: &SinkContext<'_>) -> Result<bool, S::Error> { self.inner.context(s, c) }
    fn context_break(&mut self, s: &Searcher) -> Result<bool, S::Error> { self.inner.context_break(s) }
    fn binary_data(&mut self, s: &Searcher, o: u64) -> Result<bool, S::Error> { self.inner.binary_data(s, o) }
    fn begin(&mut self, s: &Searcher) -> Result<bool, S::Error> { self.inner.begin(s) }
    fn finish(&mut self, s: &Searcher, f: &SinkFinish) -> Result<(), S::Error> { self.inner.finish(s, f) }
}

fn caps_to_val(caps: &grep_regex::RegexCaptures) -> Val {
    Val::L((0..caps.len())
        .map(|i| match caps.get(i) {
            None => Val::L(vec![]),
            Some(m) => Val::L(vec![Val::L(vec![Val::of_us(m.start()), Val::of_us(m.end())])]),
        })
        .collect())
}

/// case: (pattern template input crlf only_matching)
/// result: (status code_output model_case oracle_verdict)
///   status 0 = ran, 1 = pattern rejected
///   model_case = (template names crlf only_matching events), event = (buf rs re table)
///   oracle_verdict = (agree d2_class expected_output)
pub fn run_oracle(v: &Val) -> Val {
    let pattern = String::from_utf8(v.fld(0).bytes()).unwrap_or_default();
    let template = v.fld(1).bytes();
    let input = v.fld(2).bytes();
    let crlf = v.fld(3).b();
    let only = v.fld(4).b();
    let opts = crate::rgcfg::RgOpts { crlf, text: true, ..Default::default() };
    let matcher = match crate::rgcfg::matcher(&[pattern.clone()], &opts) {
        Ok(m) => m,
        Err(_) => return Val::L(vec![Val::N(1)]),
    };
    let mut rb = regex::bytes::RegexBuilder::new(&pattern);
    rb.multi_line(true).unicode(true);
    if crlf { rb.crlf(true); }
    let re = match rb.build() {
        Ok(r) => r,
        Err(_) => return Val::L(vec![Val::N(1)]),
    };
    let mut sb = crate::rgcfg::searcher_builder(&opts);
    sb.line_number(false);
    let mut searcher = sb.build();
    let mut printer = StandardBuilder::new()
        .replacement(Some(template.clone()))
        .only_matching(only)
        .build_no_color(vec![]);
    let mut events = vec![];
    {
        let sink = printer.sink(&matcher);
        let tee = Tee { inner: sink, events: &mut events };
        if searcher.search_slice(&matcher, &input, tee).is_err() {
            return Val::L(vec![Val::N(2)]);
        }
    }
    let out = printer.into_inner().into_inner();

    // model case: per matched line the captures table of the truncated haystack
    let names: Vec<Val> = re
        .capture_names()
        .enumerate()
        .filter_map(|(i, n)| n.map(|n| Val::L(vec![Val::of_bytes(n.as_bytes()), Val::of_us(i)])))
        .collect();
    let mut evs = vec![];
    let mut expected = vec![];
    let mut d2 = false;
    for (buf, rs, rend) in &events {
        // haystack as the printer cuts it: line content without terminator
        let mut hend = *rend;
        if hend > 0 && buf[hend - 1] == b'\n' {
            hend -= 1;
            if crlf && hend > 0 && buf[hend - 1] == b'\r' { hend -= 1; }
        }
        let hay = &buf[..hend];
        let mut table = vec![];
        let mut caps = matcher.new_captures().unwrap();
        for p in 0..=hay.len() {
            if p < *rs { table.push(Val::L(vec![])); continue; }
            match matcher.captures_at(hay, p, &mut caps) {
                Ok(true) => table.push(Val::L(vec![caps_to_val(&caps)])),
                _ => table.push(Val::L(vec![])),
            }
        }
        evs.push(Val::L(vec![Val::of_bytes(buf), Val::of_us(*rs), Val::of_us(*rend), Val::L(table)]));
        // oracle: the regex crate on the line's content alone
        let content = &buf[*rs..hend];
        let term: &[u8] = if crlf { b"\r\n" } else { b"\n" };
        let terminated = hend < *rend;
        if re.find(content).is_none() {
            // the searcher delivered a line the pattern does not match (C01's business, e.g. D1);
            // C19 only demands that such a line is printed unaltered
            expected.extend_from_slice(&buf[*rs..*rend]);
            if !terminated { expected.extend_from_slice(term); }
        } else if only {
            for c in re.captures_iter(content) {
                let mut e = vec![];
                c.expand(&template, &mut e);
                expected.extend_from_slice(&e);
                expected.extend_from_slice(term);
            }
        } else {
            let rep = re.replace_all(content, &template[..]);
            expected.extend_from_slice(&rep);
            expected.extend_from_slice(term);
        }
        if !terminated {
            if let Some(m) = re.find_iter(content).last() {
                if m.start() == m.end() && m.end() == content.len() { d2 = true; }
            }
        }
    }
    let model_case = Val::L(vec![
        Val::of_bytes(&template),
        Val::L(names),
        Val::of_bool(crlf),
        Val::of_bool(only),
        Val::L(evs),
    ]);
    let verdict = Val::L(vec![Val::of_bool(out == expected), Val::of_bool(d2), Val::of_bytes(&expected)]);
    Val::L(vec![Val::N(0), Val::of_bytes(&out), model_case, verdict])
}
