//! C14: binary detection — the real searcher (roll buffer with a fragmenting reader and small
//! capacities, slice strategy) observed by a recording sink, the standard printer and the summary printer.
use crate::val::Val;
use grep_printer::{StandardBuilder, SummaryBuilder, SummaryKind};
use grep_searcher::{
    BinaryDetection, Searcher, SearcherBuilder, Sink, SinkContext, SinkContextKind, SinkFinish, SinkMatch,
};
use std::io;

/// kinds served by this module
pub fn dispatch(kind: u32, v: &Val) -> Option<Val> {
    match kind {
        1401 => Some(run_search(v, false)),
        1404 => Some(run_search(v, true)),
        _ => None,
    }
}

/// One scripted answer of the fragmenting reader.
#[derive(Clone, Debug)]
pub enum Op { Chunk(usize), Err }

/// `io::Read` over a byte string that answers each `read` call according to a history.
pub struct FragReader { pub data: Vec<u8>, pub pos: usize, pub hist: Vec<Op>, pub next: usize }
impl io::Read for FragReader {
    fn read(&mut self, buf: &mut [u8]) -> io::Result<usize> {
        let remaining = self.data.len() - self.pos;
        let n = if self.next < self.hist.len() {
            let op = self.hist[self.next].clone();
            self.next += 1;
            match op {
                Op::Err => return Err(io::Error::new(io::ErrorKind::Other, "scripted read error")),
                Op::Chunk(k) => k.min(buf.len()).min(remaining),
            }
        } else {
            buf.len().min(remaining)
        };
        buf[..n].copy_from_slice(&self.data[self.pos..self.pos + n]);
        self.pos += n;
        Ok(n)
    }
}

pub fn dec_hist(v: &Val) -> Vec<Op> {
    v.list().iter().map(|x| match x { Val::N(k) => Op::Chunk(*k as usize), Val::L(_) => Op::Err }).collect()
}

/// Sink recording every call in the model's event encoding.
pub struct RecSink { pub events: Vec<Val>, pub calls: usize, pub stop: Option<usize>, pub bin_reply: bool }
impl Sink for RecSink {
    type Error = io::Error;
    fn matched(&mut self, _s: &Searcher, m: &SinkMatch<'_>) -> Result<bool, io::Error> {
        self.events.push(Val::L(vec![Val::N(1), Val::N(m.absolute_byte_offset() as u128), Val::of_bytes(m.bytes())]));
        let go = self.stop != Some(self.calls);
        self.calls += 1;
        Ok(go)
    }
    fn context(&mut self, _s: &Searcher, c: &SinkContext<'_>) -> Result<bool, io::Error> {
        let k = match c.kind() { SinkContextKind::Before => 0, SinkContextKind::After => 1, SinkContextKind::Other => 2 };
        self.events.push(Val::L(vec![Val::N(2), Val::N(k), Val::N(c.absolute_byte_offset() as u128), Val::of_bytes(c.bytes())]));
        let go = self.stop != Some(self.calls);
        self.calls += 1;
        Ok(go)
    }
    fn context_break(&mut self, _s: &Searcher) -> Result<bool, io::Error> {
        self.events.push(Val::L(vec![Val::N(3)]));
        Ok(true)
    }
    fn binary_data(&mut self, _s: &Searcher, off: u64) -> Result<bool, io::Error> {
        self.events.push(Val::L(vec![Val::N(4), Val::N(off as u128)]));
        Ok(self.bin_reply)
    }
    fn begin(&mut self, _s: &Searcher) -> Result<bool, io::Error> {
        self.events.push(Val::L(vec![Val::N(0)]));
        Ok(true)
    }
    fn finish(&mut self, _s: &Searcher, f: &SinkFinish) -> Result<(), io::Error> {
        self.events.push(Val::L(vec![
            Val::N(5),
            Val::N(f.byte_count() as u128),
            Val::of_opt(f.binary_byte_offset().map(|o| Val::N(o as u128))),
        ]));
        Ok(())
    }
}

pub fn dec_mode(m: &Val, b: &Val) -> BinaryDetection {
    match m.us() { 0 => BinaryDetection::none(), 1 => BinaryDetection::quit(b.n() as u8), _ => BinaryDetection::convert(b.n() as u8) }
}

/// case: (mode byte strategy capacity alloc hist stream needles invert passthru stop bin_reply sniff_cap
///        max_matches path npre)
/// result: (events outcome standard_out count_out files_with_matches_out files_without_match_out)
/// kind 1404 (`ctx`): four more fields (before after stop_on_nonmatch sniff): context options and the bound on
/// the prefix a slice strategy examines up front (hook `verif_sniff_capacity`)
fn run_search(v: &Val, ctx: bool) -> Val {
    let mode = dec_mode(v.fld(0), v.fld(1));
    let strategy = v.fld(2).us();
    let capacity = v.fld(3).us();
    let alloc: Option<usize> = v.fld(4).opt().map(|x| x.us());
    let hist = dec_hist(v.fld(5));
    let stream = v.fld(6).bytes();
    let needles: Vec<String> =
        v.fld(7).list().iter().map(|n| String::from_utf8(n.bytes()).unwrap_or_default()).collect();
    let invert = v.fld(8).b();
    let passthru = v.fld(9).b();
    let stop = v.fld(10).opt().map(|x| x.us());
    let bin_reply = v.fld(11).b();
    let default_cap = v.fld(12).us();
    let max_matches = v.fld(13).opt().map(|x| x.n() as u64);
    let path: Option<Vec<u8>> = v.fld(14).opt().map(|x| x.bytes());
    let pterm: Option<u8> = if v.fld(16).b() { Some(0) } else { None };
    let (before, after, stop_on_nonmatch, sniff) =
        if ctx { (v.fld(17).us(), v.fld(18).us(), v.fld(19).b(), Some(v.fld(20).us())) } else { (0, 0, false, None) };

    // strategy 0 roll buffer, 1 slice; 2 / 3: multi-line search (pattern `\n`) of the slice / of a reader
    let ml = strategy >= 2;
    let use_reader = strategy == 0 || strategy == 3;
    let opts = crate::rgcfg::RgOpts { fixed: !ml, multiline: ml, text: v.fld(0).us() == 0, ..Default::default() };
    let pats = if ml { vec![String::from("\\n")] } else { needles.clone() };
    let matcher = match crate::rgcfg::matcher(&pats, &opts) {
        Ok(m) => m,
        Err(_) => return Val::L(vec![Val::N(99)]),
    };
    let build = || {
        let mut sb = SearcherBuilder::new();
        sb.line_number(false)
            .multi_line(ml)
            .invert_match(invert && !ml)
            .passthru(passthru && !ml)
            .binary_detection(mode.clone())
            .bom_sniffing(false)
            .heap_limit(alloc.map(|l| default_cap + l))
            .before_context(before)
            .after_context(after)
            .stop_on_nonmatch(stop_on_nonmatch)
            .verif_sniff_capacity(sniff)
            .verif_buffer_capacity(Some(capacity));
        sb.build()
    };
    let rdr = || FragReader { data: stream.clone(), pos: 0, hist: hist.clone(), next: 0 };

    // 1. recording sink
    let mut rec = RecSink { events: vec![], calls: 0, stop, bin_reply };
    let res = if use_reader {
        build().search_reader(&matcher, rdr(), &mut rec)
    } else {
        build().search_slice(&matcher, &stream, &mut rec)
    };
    let outcome = if res.is_ok() { 0u128 } else { 1 };

    // 2. standard printer
    let mut sp = StandardBuilder::new();
    sp.max_matches(max_matches).path_terminator(pterm);
    let mut printer = sp.build_no_color(vec![]);
    {
        let pstr = path.as_ref().map(|p| String::from_utf8_lossy(p).into_owned());
        let _ = match &pstr {
            Some(p) => {
                let sink = printer.sink_with_path(&matcher, p);
                if use_reader { build().search_reader(&matcher, rdr(), sink) } else { build().search_slice(&matcher, &stream, sink) }
            }
            None => {
                let sink = printer.sink(&matcher);
                if use_reader { build().search_reader(&matcher, rdr(), sink) } else { build().search_slice(&matcher, &stream, sink) }
            }
        };
    }
    let std_out = printer.into_inner().into_inner();

    // 3. summary printer kinds
    let mut sums = vec![];
    for (idx, kind) in [SummaryKind::Count, SummaryKind::PathWithMatch, SummaryKind::PathWithoutMatch, SummaryKind::Count]
        .into_iter()
        .enumerate()
    {
        let mut b = SummaryBuilder::new();
        // the fourth run is -c --include-zero
        b.kind(kind.clone()).max_matches(max_matches).exclude_zero(idx != 3).path_terminator(pterm);
        let mut printer = b.build_no_color(vec![]);
        {
            let pstr = path.as_ref().map(|p| String::from_utf8_lossy(p).into_owned());
            match &pstr {
                Some(p) => {
                    let sink = printer.sink_with_path(&matcher, p);
                    let _ = if use_reader { build().search_reader(&matcher, rdr(), sink) } else { build().search_slice(&matcher, &stream, sink) };
                }
                None => {
                    if matches!(kind, SummaryKind::Count) {
                        let sink = printer.sink(&matcher);
                        let _ = if use_reader { build().search_reader(&matcher, rdr(), sink) } else { build().search_slice(&matcher, &stream, sink) };
                    }
                }
            }
        }
        sums.push(Val::of_bytes(&printer.into_inner().into_inner()));
    }
    let mut out = vec![Val::L(rec.events), Val::N(outcome), Val::of_bytes(&std_out)];
    out.extend(sums);
    Val::L(out)
}
