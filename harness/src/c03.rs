//! C03 (and the slice-strategy part of C16/C13): Searcher::search_slice with the scripted matcher.
use crate::scripted::*;
use crate::val::Val;

pub fn dispatch(kind: u32, v: &Val) -> Option<Val> {
    match kind {
        301 => Some(run_slice(v)),
        _ => None,
    }
}

/// case: (cfg matcher input reply) -> (status events)
pub fn run_slice(v: &Val) -> Val {
    let cfg = decode_cfg(v.fld(0));
    let m = decode_matcher(&cfg, v.fld(1));
    let input = v.fld(2).bytes();
    let mut sink = LogSink::new(decode_reply(v.fld(3)));
    let mut searcher = searcher_builder(&cfg).build();
    let r = searcher.search_slice(&m, &input, &mut sink);
    result_val(r, sink)
}
