//! C03 (and the slice-strategy part of C16/C13): Searcher::search_slice with the scripted matcher.
use crate::scripted::*;
use crate::val::Val;

pub fn dispatch(kind: u32, v: &Val) -> Option<Val> {
    match kind {
        301 => Some(run_slice(v)),
        303 => Some(run_slice_boxed(v)),
        _ => None,
    }
}

/// case: (cfg matcher input reply) -> (status events)
pub fn run_slice(v: &Val) -> Val {
    let cfg = decode_cfg(v.fld(0));
    let m = decode_matcher(&cfg, v.fld(1));
    let input = v.fld(2).bytes();
    let mut sink = LogSink::new(decode_reply(v.fld(3)));
    let mut searcher = searcher_builder(&cfg).build();
    let r = searcher.search_slice(&m, &input, &mut sink);
    result_val(r, sink)
}

/// kind 303: the same search with the sink handed over as `&mut Box<dyn Sink>` — through the forwarding
/// impls of sink.rs (`impl Sink for &mut S`, `impl Sink for Box<S>`); every call must arrive unchanged.
pub fn run_slice_boxed(v: &Val) -> Val {
    use grep_searcher::Sink;
    let cfg = decode_cfg(v.fld(0));
    let m = decode_matcher(&cfg, v.fld(1));
    let input = v.fld(2).bytes();
    let shared = std::rc::Rc::new(std::cell::RefCell::new(LogSink::new(decode_reply(v.fld(3)))));
    struct Fwd(std::rc::Rc<std::cell::RefCell<LogSink>>);
    impl Sink for Fwd {
        type Error = std::io::Error;
        fn matched(&mut self, s: &grep_searcher::Searcher, m: &grep_searcher::SinkMatch<'_>) -> Result<bool, std::io::Error> { self.0.borrow_mut().matched(s, m) }
        fn context(&mut self, s: &grep_searcher::Searcher, c: &grep_searcher::SinkContext<'_>) -> Result<bool, std::io::Error> { self.0.borrow_mut().context(s, c) }
        fn context_break(&mut self, s: &grep_searcher::Searcher) -> Result<bool, std::io::Error> { self.0.borrow_mut().context_break(s) }
        fn binary_data(&mut self, s: &grep_searcher::Searcher, o: u64) -> Result<bool, std::io::Error> { self.0.borrow_mut().binary_data(s, o) }
        fn begin(&mut self, s: &grep_searcher::Searcher) -> Result<bool, std::io::Error> { self.0.borrow_mut().begin(s) }
        fn finish(&mut self, s: &grep_searcher::Searcher, f: &grep_searcher::SinkFinish) -> Result<(), std::io::Error> { self.0.borrow_mut().finish(s, f) }
    }
    let mut boxed: Box<dyn Sink<Error = std::io::Error>> = Box::new(Fwd(shared.clone()));
    let mut searcher = searcher_builder(&cfg).build();
    let r = searcher.search_slice(&m, &input, &mut boxed);
    drop(boxed);
    let sink = std::rc::Rc::try_unwrap(shared).ok().expect("sole owner").into_inner();
    result_val(r, sink)
}
