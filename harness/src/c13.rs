//! C13: multi-line search with the real RegexMatcher.  The matcher's `find_at` is tabulated over the
//! input (one entry per start position) so that the Coq model and the multi-line reference can be run
//! with exactly the matches the real regex engine reports (look-around, `\z`, empty matches).
use crate::rgcfg::{self, RgOpts};
use crate::scripted::*;
use crate::val::Val;
use grep_matcher::Matcher;

pub fn dispatch(kind: u32, v: &Val) -> Option<Val> {
    match kind {
        1302 => Some(run_regex(v)),
        _ => None,
    }
}

/// case: (cfg pattern input dotall reply whole_line) ->
///   (0)                                   the pattern does not build
///   (1 multi_line_selected table (status events) oracle_table)
/// table[p] = () | (a b): find_at(input, p) for p in 0..=len
fn run_regex(v: &Val) -> Val {
    let cfg = decode_cfg(v.fld(0));
    let pattern = String::from_utf8_lossy(&v.fld(1).bytes()).to_string();
    let pattern_c = pattern.clone();
    let input = v.fld(2).bytes();
    let o = RgOpts {
        crlf: cfg.crlf,
        null_data: !cfg.crlf && cfg.ltbyte == 0,
        multiline: true,
        dotall: v.fld(3).b(),
        text: true,
        whole_line: v.list().len() > 5 && v.fld(5).b(),
        ..RgOpts::default()
    };
    let m = match rgcfg::matcher(&[pattern_c], &o) {
        Ok(m) => m,
        Err(_) => return Val::L(vec![Val::N(0)]),
    };
    let mut table = vec![];
    for p in 0..=input.len() {
        table.push(match m.find_at(&input, p) {
            Ok(Some(mm)) => Val::L(vec![Val::N(mm.start() as u128), Val::N(mm.end() as u128)]),
            _ => Val::L(vec![]),
        });
    }
    // independent oracle for "look-around is evaluated against the whole input": the regex crate's own
    // find_at on the whole haystack, built with the options rg -U uses
    let whole = v.list().len() > 5 && v.fld(5).b();
    let opat = if whole { format!("(?m:^)(?:{})(?m:$)", pattern) } else { pattern.clone() };
    let mut rb = regex::bytes::RegexBuilder::new(&opat);
    rb.multi_line(true).unicode(true).dot_matches_new_line(o.dotall);
    if cfg.crlf { rb.crlf(true); }
    let oracle: Vec<Val> = match rb.build() {
        Ok(re) => (0..=input.len())
            .map(|p| match re.find_at(&input, p) {
                Some(mm) => Val::L(vec![Val::N(mm.start() as u128), Val::N(mm.end() as u128)]),
                None => Val::L(vec![]),
            })
            .collect(),
        Err(_) => vec![],
    };
    let mut sink = LogSink::new(decode_reply(v.fld(4)));
    let mut searcher = searcher_builder(&cfg).build();
    let selected = searcher.multi_line_with_matcher(&m);
    let r = searcher.search_slice(&m, &input, &mut sink);
    Val::L(vec![Val::N(1), Val::of_bool(selected), Val::L(table), result_val(r, sink), Val::L(oracle)])
}
