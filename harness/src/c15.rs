//! C15 (exit status and error reporting): the code side of this property is the `rg` binary itself
//! (crates/core is a binary crate: `run`, `search`, `search_parallel`, `files`, `files_parallel` cannot be
//! linked into the harness).  The correspondence is therefore done at the command-line level by
//! tools/props/C15.py (status, stdout, stderr of real runs with injected faults vs. the extracted model).
//! Kind 1503 is the only library-level kind: the status table as the *property* states it, written out
//! independently of both the model and the code (used as the oracle for the generated expression).
use crate::val::Val;

/// the exit status the property prescribes for (matched, quiet, errored)
fn property_status(matched: bool, quiet: bool, errored: bool) -> u128 {
    if (matched && !errored) || (quiet && matched) {
        0
    } else if errored {
        2
    } else {
        1
    }
}

pub fn dispatch(kind: u32, v: &Val) -> Option<Val> {
    match kind {
        1503 => Some(Val::N(property_status(v.fld(0).b(), v.fld(1).b(), v.fld(2).b()))),
        _ => None,
    }
}
