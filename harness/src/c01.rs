//! C01: a line is reported iff the pattern matches that line.
//! Library-level observation (search_slice, search_reader, and a passthru run that forces the slow line path)
//! plus the *reference HIR*: the documented meaning of the flags applied through regex-syntax directly,
//! independent of crates/regex/src/config.rs.
use crate::c11::hir_to_val;
use crate::rgcfg::{self, RgOpts};
use crate::val::Val;
use grep_searcher::{Searcher, Sink, SinkContext, SinkMatch};
use regex_syntax::ast::{self, Ast};

pub fn dispatch(kind: u32, v: &Val) -> Option<Val> {
    match kind {
        101 => Some(run_case(v)),
        102 => Some(run_smart(v)),
        _ => None,
    }
}

struct Lines {
    matched: Vec<u64>,
}
impl Sink for Lines {
    type Error = std::io::Error;
    fn matched(&mut self, _s: &Searcher, m: &SinkMatch<'_>) -> Result<bool, std::io::Error> {
        // one event per line in line mode
        self.matched.push(m.line_number().unwrap_or(0));
        Ok(true)
    }
    fn context(&mut self, _s: &Searcher, _c: &SinkContext<'_>) -> Result<bool, std::io::Error> {
        Ok(true)
    }
}

/// A reader that hands out the input in small pieces (exercises the roll buffer).
struct Chunked<'a> {
    data: &'a [u8],
    pos: usize,
    step: usize,
}
impl<'a> std::io::Read for Chunked<'a> {
    fn read(&mut self, buf: &mut [u8]) -> std::io::Result<usize> {
        let n = self.step.min(buf.len()).min(self.data.len() - self.pos);
        buf[..n].copy_from_slice(&self.data[self.pos..self.pos + n]);
        self.pos += n;
        Ok(n)
    }
}

/// smart case (documented rule of -S): insensitive iff the pattern has at least one literal and none of its
/// literals is uppercase.  Walks the regex-syntax AST on its own (does not use crates/regex/src/ast.rs).
fn smart_scan(a: &Ast, any_lit: &mut bool, any_upper: &mut bool) {
    let mut lit = |c: char| {
        *any_lit = true;
        if c.is_uppercase() {
            *any_upper = true;
        }
    };
    match a {
        Ast::Literal(l) => lit(l.c),
        Ast::ClassBracketed(c) => class_set(&c.kind, any_lit, any_upper),
        Ast::Repetition(r) => smart_scan(&r.ast, any_lit, any_upper),
        Ast::Group(g) => smart_scan(&g.ast, any_lit, any_upper),
        Ast::Alternation(x) => x.asts.iter().for_each(|y| smart_scan(y, any_lit, any_upper)),
        Ast::Concat(x) => x.asts.iter().for_each(|y| smart_scan(y, any_lit, any_upper)),
        _ => {}
    }
}
fn class_set(s: &ast::ClassSet, any_lit: &mut bool, any_upper: &mut bool) {
    match s {
        ast::ClassSet::Item(i) => class_item(i, any_lit, any_upper),
        ast::ClassSet::BinaryOp(op) => {
            class_set(&op.lhs, any_lit, any_upper);
            class_set(&op.rhs, any_lit, any_upper);
        }
    }
}
fn class_item(i: &ast::ClassSetItem, any_lit: &mut bool, any_upper: &mut bool) {
    let mut lit = |c: char| {
        *any_lit = true;
        if c.is_uppercase() {
            *any_upper = true;
        }
    };
    match i {
        ast::ClassSetItem::Literal(l) => lit(l.c),
        ast::ClassSetItem::Range(r) => {
            lit(r.start.c);
            lit(r.end.c);
        }
        ast::ClassSetItem::Bracketed(b) => class_set(&b.kind, any_lit, any_upper),
        ast::ClassSetItem::Union(u) => u.items.iter().for_each(|x| class_item(x, any_lit, any_upper)),
        _ => {}
    }
}

/// The reference HIR: what the flags are documented to mean, through regex-syntax only.
///   -F: every pattern is a literal string;  several -e: alternation;  -i / -S / -s: case;  -w: the pattern
///   between `\b{start-half}` and `\b{end-half}`;  -x: between `^` and `$` (overrides -w);  --crlf: `$`/`^`
///   treat `\r\n` as one terminator;  multi-line anchors always on (rg sets it), dot does not match `\n`.
/// The removal of terminator bytes from the matches (documented for line_terminator/crlf) is applied by the
/// caller when it evaluates the HIR on a stripped line.
fn reference_hir(pats: &[String], o: &RgOpts) -> Option<regex_syntax::hir::Hir> {
    let alts: Vec<String> = pats
        .iter()
        .map(|p| if o.fixed { format!("(?:{})", regex_syntax::escape(p)) } else { format!("(?:{})", p) })
        .collect();
    let mut pat = alts.join("|");
    if o.whole_line {
        pat = format!("^(?:{})$", pat);
    } else if o.word {
        pat = format!(r"\b{{start-half}}(?:{})\b{{end-half}}", pat);
    }
    let a = ast::parse::ParserBuilder::new().build().parse(&pat).ok()?;
    let ci = if o.ignore_case {
        true
    } else if o.smart_case {
        let (mut l, mut u) = (false, false);
        // the decision is about the user's patterns, not about the wrapper
        let ua = ast::parse::ParserBuilder::new().build().parse(&alts.join("|")).ok()?;
        smart_scan(&ua, &mut l, &mut u);
        l && !u
    } else {
        false
    };
    regex_syntax::hir::translate::TranslatorBuilder::new()
        .utf8(false)
        .case_insensitive(ci)
        .multi_line(true)
        .crlf(o.crlf)
        .unicode(true)
        .build()
        .translate(&pat, &a)
        .ok()
}

fn nums(v: &[u64]) -> Val {
    Val::L(v.iter().map(|&x| Val::N(x as u128)).collect())
}

/// 101: (patterns (icase smart word line fixed crlf null invert) input)
///   -> (2) when the real builder rejects the patterns
///    | (0 reference_hir? slice_lines reader_lines passthru_lines final_hir adv_lt?)
fn run_case(v: &Val) -> Val {
    let pats: Option<Vec<String>> = v.fld(0).list().iter().map(|p| String::from_utf8(p.bytes()).ok()).collect();
    let pats = match pats { Some(p) => p, None => return Val::L(vec![Val::N(2)]) };
    let f = v.fld(1);
    let o = RgOpts {
        ignore_case: f.fld(0).b(),
        smart_case: f.fld(1).b(),
        word: f.fld(2).b(),
        whole_line: f.fld(3).b(),
        fixed: f.fld(4).b(),
        crlf: f.fld(5).b(),
        null_data: f.fld(6).b(),
        text: true,
        ..RgOpts::default()
    };
    let invert = f.fld(7).b();
    let input = v.fld(2).bytes();
    // library level: when both options are requested, set both on the builder (rg's own flag parsing keeps only the
    // last of -w/-x; RegexMatcherBuilder documents that whole_line overrides word)
    let mut mb = rgcfg::matcher_builder(&o);
    if o.word && o.whole_line {
        mb.word(true).whole_line(true);
    }
    let m = match mb.build_many(&pats) { Ok(m) => m, Err(_) => return Val::L(vec![Val::N(2)]) };
    let run = |passthru: bool, reader: Option<usize>| -> Vec<u64> {
        let mut sb = rgcfg::searcher_builder(&o);
        sb.invert_match(invert).line_number(true).passthru(passthru);
        let mut s = sb.build();
        let mut sink = Lines { matched: vec![] };
        match reader {
            None => s.search_slice(&m, &input, &mut sink).unwrap(),
            Some(step) => s.search_reader(&m, Chunked { data: &input, pos: 0, step }, &mut sink).unwrap(),
        }
        sink.matched
    };
    let a = run(false, None);
    let b = run(false, Some(7));
    let c = run(true, None);
    let r = reference_hir(&pats, &o);
    use grep_matcher::Matcher;
    Val::L(vec![
        Val::N(0),
        Val::of_opt(r.as_ref().map(hir_to_val)),
        nums(&a),
        nums(&b),
        nums(&c),
        hir_to_val(m.verif_hir_final()),
        Val::of_bool(m.line_terminator().is_some()),
    ])
}

// ---- kind 102: the smart-case decision --------------------------------------------------------------------

fn tagged(t: u128, rest: Vec<Val>) -> Val {
    let mut v = vec![Val::N(t)];
    v.extend(rest);
    Val::L(v)
}
fn lit_val(c: char, ups: &mut Vec<u128>) -> u128 {
    // std's answer, not ripgrep's
    if c.is_uppercase() && !ups.contains(&(c as u128)) {
        ups.push(c as u128);
    }
    c as u128
}
/// regex-syntax class set / item -> the `cls` value syntax of Run/RunC01.v
fn cls_item_val(i: &ast::ClassSetItem, ups: &mut Vec<u128>) -> Val {
    match i {
        ast::ClassSetItem::Empty(_) => tagged(0, vec![Val::N(0)]),
        ast::ClassSetItem::Ascii(_) => tagged(0, vec![Val::N(1)]),
        ast::ClassSetItem::Unicode(_) => tagged(0, vec![Val::N(2)]),
        ast::ClassSetItem::Perl(_) => tagged(0, vec![Val::N(3)]),
        ast::ClassSetItem::Literal(l) => tagged(1, vec![Val::N(lit_val(l.c, ups))]),
        ast::ClassSetItem::Range(r) => {
            let s = lit_val(r.start.c, ups);
            let e = lit_val(r.end.c, ups);
            tagged(2, vec![Val::N(s), Val::N(e)])
        }
        ast::ClassSetItem::Bracketed(b) => tagged(3, vec![Val::of_bool(b.negated), cls_set_val(&b.kind, ups)]),
        ast::ClassSetItem::Union(u) => tagged(4, vec![Val::L(u.items.iter().map(|x| cls_item_val(x, ups)).collect())]),
    }
}
fn cls_set_val(s: &ast::ClassSet, ups: &mut Vec<u128>) -> Val {
    match s {
        ast::ClassSet::Item(i) => cls_item_val(i, ups),
        ast::ClassSet::BinaryOp(op) => tagged(5, vec![cls_set_val(&op.lhs, ups), cls_set_val(&op.rhs, ups)]),
    }
}
/// regex-syntax AST -> the `ast` value syntax of Run/RunC01.v
fn sast_val(a: &Ast, ups: &mut Vec<u128>) -> Val {
    match a {
        Ast::Empty(_) => tagged(0, vec![Val::N(0)]),
        Ast::Flags(_) => tagged(0, vec![Val::N(1)]),
        Ast::Dot(_) => tagged(0, vec![Val::N(2)]),
        Ast::Assertion(_) => tagged(0, vec![Val::N(3)]),
        Ast::ClassUnicode(_) => tagged(0, vec![Val::N(4)]),
        Ast::ClassPerl(_) => tagged(0, vec![Val::N(5)]),
        Ast::Literal(l) => tagged(1, vec![Val::N(lit_val(l.c, ups))]),
        Ast::ClassBracketed(c) => tagged(2, vec![Val::of_bool(c.negated), cls_set_val(&c.kind, ups)]),
        Ast::Repetition(r) => tagged(3, vec![sast_val(&r.ast, ups)]),
        Ast::Group(g) => tagged(4, vec![sast_val(&g.ast, ups)]),
        Ast::Alternation(x) => tagged(5, vec![Val::L(x.asts.iter().map(|y| sast_val(y, ups)).collect())]),
        Ast::Concat(x) => tagged(6, vec![Val::L(x.asts.iter().map(|y| sast_val(y, ups)).collect())]),
    }
}

/// 102: (patterns icase smart)
///   -> (2) the real builder rejects the patterns
///    | (3) the builder accepted but no translated HIR was recorded / the pattern does not parse on its own
///    | (0 ast uppers observed oracle_any_literal oracle_any_uppercase)
/// `observed`: the case mode RegexMatcherBuilder chose, read off the HIR it handed to the translator
/// (`verif_take_translated_hir`): 1 = equal to the regex-syntax translation with case_insensitive(true),
/// 0 = equal to the one with case_insensitive(false), 2 = both translations coincide (decision not
/// observable for this pattern), 3 = equal to neither.
/// `oracle_*`: the documented rule on the AST (`smart_scan` above, independent of crates/regex/src/ast.rs).
fn run_smart(v: &Val) -> Val {
    let pats: Option<Vec<String>> = v.fld(0).list().iter().map(|p| String::from_utf8(p.bytes()).ok()).collect();
    let pats = match pats { Some(p) => p, None => return Val::L(vec![Val::N(2)]) };
    let (icase, smart) = (v.fld(1).b(), v.fld(2).b());
    let _ = grep_regex::verif_take_translated_hir();
    let mut b = grep_regex::RegexMatcherBuilder::new();
    b.case_insensitive(icase).case_smart(smart);
    if b.build_many(&pats).is_err() {
        return Val::L(vec![Val::N(2)]);
    }
    let got = match grep_regex::verif_take_translated_hir() { Some(h) => h, None => return Val::L(vec![Val::N(3)]) };
    let pat = pats.iter().map(|p| format!("(?:{})", p)).collect::<Vec<_>>().join("|");
    let a = match ast::parse::ParserBuilder::new().nest_limit(250).build().parse(&pat) {
        Ok(a) => a,
        Err(_) => return Val::L(vec![Val::N(3)]),
    };
    let tr = |ci: bool| {
        regex_syntax::hir::translate::TranslatorBuilder::new().utf8(false).case_insensitive(ci).unicode(true).build().translate(&pat, &a)
    };
    let (hi, hs) = match (tr(true), tr(false)) { (Ok(x), Ok(y)) => (x, y), _ => return Val::L(vec![Val::N(3)]) };
    let observed = if hi == hs { 2 } else if got == hi { 1 } else if got == hs { 0 } else { 3 };
    let mut ups = vec![];
    let av = sast_val(&a, &mut ups);
    let (mut l, mut u) = (false, false);
    smart_scan(&a, &mut l, &mut u);
    Val::L(vec![
        Val::N(0),
        av,
        Val::L(ups.into_iter().map(Val::N).collect()),
        Val::N(observed),
        Val::of_bool(l),
        Val::of_bool(u),
    ])
}
