//! C07: the parallel walker under a deterministic scheduler.
//!
//! kind 701: run the real `WalkParallel` worker threads on a small real directory forest, serialised
//! through the `ignore::walk_verif` hooks: exactly one worker runs between two yield points and the
//! next one is chosen by the schedule of the case.  The recorded trace (one slot per scheduling
//! decision: worker, yield kind, what `recv` returned, visitor call, shared state afterwards) is
//! printed for replay through the extracted step relation of Model/WalkPar.v.
//! kind 703: the same walk with the real OS scheduler (no hooks), repeated; visited multisets.
use crate::val::Val;
use ignore::walk_verif as hook;
use ignore::{DirEntry, Error, ParallelVisitor, ParallelVisitorBuilder, WalkBuilder, WalkState};
use std::collections::BTreeMap;
use std::path::{Path, PathBuf};
use std::sync::{mpsc, Arc, Condvar, Mutex};
use std::time::Duration;

/// kinds served by this module
pub fn dispatch(kind: u32, v: &Val) -> Option<Val> {
    match kind {
        701 => Some(run_scheduled(v)),
        703 => Some(run_soak(v)),
        _ => None,
    }
}

// ------------------------------------------------------------------------------------------------
// forests on disk

#[derive(Clone, Debug)]
struct Tree { id: usize, dir: bool, bad: bool, kids: Vec<Tree> }

/// (id kind kids): kind 0 file, 1 directory, 2 (roots only) a path that does not exist
fn dec_tree(v: &Val) -> Tree {
    let kind = v.fld(1).us();
    Tree { id: v.fld(0).us(), dir: kind == 1, bad: kind == 2, kids: v.fld(2).list().iter().map(dec_tree).collect() }
}

fn node_name(id: usize) -> String { format!("n{}", id) }

fn node_id(p: &Path) -> Option<usize> {
    let name = p.file_name()?.to_str()?;
    name.strip_prefix('n')?.parse().ok()
}

fn create(parent: &Path, t: &Tree) -> std::io::Result<()> {
    let p = parent.join(node_name(t.id));
    if t.bad {
        return Ok(());
    }
    if t.dir {
        std::fs::create_dir_all(&p)?;
        for k in &t.kids { create(&p, k)?; }
    } else if !p.exists() {
        std::fs::File::create(&p)?;
    }
    Ok(())
}

/// the forest as the walker will see it: children in `read_dir` order; model syntax (id (kids))
fn as_seen(path: &Path, t: &Tree) -> Val {
    let mut kids = vec![];
    if t.dir {
        let by_id: BTreeMap<usize, &Tree> = t.kids.iter().map(|k| (k.id, k)).collect();
        if let Ok(rd) = std::fs::read_dir(path) {
            for e in rd.flatten() {
                if let Some(k) = node_id(&e.path()).and_then(|i| by_id.get(&i)) {
                    kids.push(as_seen(&e.path(), k));
                }
            }
        }
    }
    Val::L(vec![Val::of_us(t.id), Val::L(kids)])
}

fn fnv(s: &str) -> u64 {
    let mut h: u64 = 0xcbf29ce484222325;
    for b in s.bytes() { h ^= b as u64; h = h.wrapping_mul(0x100000001b3); }
    h
}

/// create the forest under base (idempotent; one directory per distinct forest) and return root paths
fn materialise(base: &Path, spec: &Val, forest: &[Tree]) -> Result<(PathBuf, Vec<PathBuf>), String> {
    let dir = base.join(format!("t{:016x}", fnv(&spec.to_string())));
    std::fs::create_dir_all(&dir).map_err(|e| e.to_string())?;
    for t in forest { create(&dir, t).map_err(|e| e.to_string())?; }
    Ok((dir.clone(), forest.iter().map(|t| dir.join(node_name(t.id))).collect()))
}

fn builder_for(roots: &[PathBuf], threads: usize, same_fs: bool) -> WalkBuilder {
    let mut b = WalkBuilder::new(&roots[0]);
    for r in &roots[1..] { b.add(r); }
    b.standard_filters(false).follow_links(false).threads(threads).same_file_system(same_fs);
    b
}

/// the root list in model syntax: (0 tree-as-seen) for a good root, (1 id) for a bad one
fn roots_val(dir: &Path, forest: &[Tree]) -> Val {
    Val::L(forest.iter().map(|t| {
        if t.bad { Val::L(vec![Val::N(1), Val::of_us(t.id)]) }
        else { Val::L(vec![Val::N(0), as_seen(&dir.join(node_name(t.id)), t)]) }
    }).collect())
}

fn error_path(e: &Error) -> Option<&Path> {
    match e {
        Error::WithPath { path, .. } => Some(path),
        Error::WithDepth { err, .. } => error_path(err),
        Error::WithLineNumber { err, .. } => error_path(err),
        _ => None,
    }
}

// ------------------------------------------------------------------------------------------------
// the visitor

struct Visits {
    /// (worker, id, answer) in call order; worker = usize::MAX for the visitor of `visit()` itself
    calls: Vec<(usize, usize, u8)>,
    /// error entries of bad root paths: (id, answer)
    root_errors: Vec<(usize, u8)>,
    errors: usize,
}

struct VBuilder { next: usize, resp: Arc<Vec<u8>>, quit_at: Option<usize>, shared: Arc<Mutex<Visits>>, sched: Option<Arc<Sched>> }
struct Visitor { worker: usize, resp: Arc<Vec<u8>>, quit_at: Option<usize>, shared: Arc<Mutex<Visits>>, sched: Option<Arc<Sched>> }

impl<'s> ParallelVisitorBuilder<'s> for VBuilder {
    fn build(&mut self) -> Box<dyn ParallelVisitor + 's> {
        let worker = if self.next == 0 { usize::MAX } else { self.next - 1 };
        self.next += 1;
        Box::new(Visitor { worker, resp: self.resp.clone(), quit_at: self.quit_at, shared: self.shared.clone(),
                           sched: self.sched.clone() })
    }
}

impl ParallelVisitor for Visitor {
    fn visit(&mut self, entry: Result<DirEntry, Error>) -> WalkState {
        let mut sh = self.shared.lock().unwrap_or_else(|e| e.into_inner());
        let id = match entry {
            Ok(d) => match node_id(d.path()) { Some(i) => i, None => { sh.errors += 1; return WalkState::Continue; } },
            Err(e) => {
                // the error entry of a root path that does not exist: answered like an entry, by its id
                match error_path(&e).and_then(node_id) {
                    Some(i) if self.worker == usize::MAX => {
                        let a = self.resp.get(i).copied().unwrap_or(0);
                        sh.root_errors.push((i, a));
                        return match a { 0 => WalkState::Continue, 1 => WalkState::Skip, _ => WalkState::Quit };
                    }
                    _ => { sh.errors += 1; return WalkState::Continue; }
                }
            }
        };
        let mut a = self.resp.get(id).copied().unwrap_or(0);
        if self.quit_at == Some(sh.calls.len()) { a = 2; }
        sh.calls.push((self.worker, id, a));
        drop(sh);
        if let Some(s) = &self.sched { s.visited(self.worker, id); }
        match a { 0 => WalkState::Continue, 1 => WalkState::Skip, _ => WalkState::Quit }
    }
}

// ------------------------------------------------------------------------------------------------
// the scheduler

#[derive(Clone, Debug)]
struct Slot { w: usize, kind: u32, recv: Option<hook::Received>, visit: Option<usize>, snap: Option<hook::Snapshot> }

struct Rng(u64);
impl Rng {
    fn next(&mut self) -> u64 {
        self.0 = self.0.wrapping_add(0x9e3779b97f4a7c15);
        let mut z = self.0;
        z = (z ^ (z >> 30)).wrapping_mul(0xbf58476d1ce4e5b9);
        z = (z ^ (z >> 27)).wrapping_mul(0x94d049bb133111eb);
        z ^ (z >> 31)
    }
    fn below(&mut self, n: usize) -> usize { (self.next() % n as u64) as usize }
}

enum Policy {
    /// run the current worker while it is enabled, then the next one in cyclic order; switch to
    /// worker x at decision i for every (i, x) in the list
    Preempt(Vec<(usize, usize)>),
    Uniform,
    /// keep running the current worker while it is enabled, switch with probability pct/100
    Sticky(u64),
    /// uniform, except that a worker parked at yield point `kind` is held back (with probability
    /// pct/100 per decision) while any other worker can run: opens the window right before that action
    Delay { kind: u32, pct: u64 },
    /// PCT: fixed random priorities, the running worker's priority is lowered at the change points
    Pct { prio: Vec<i64>, change: Vec<usize> },
}

struct Inner {
    n: usize,
    parked: Vec<Option<u32>>,
    finished: Vec<bool>,
    in_wait: Vec<bool>,
    iter_start: Vec<u64>,
    granted: Option<usize>,
    last: Option<usize>,
    open: Option<Slot>,
    slots: Vec<Slot>,
    decisions: Vec<(u64, usize)>,
    progress: u64,
    status: u32, // 0 running/ok, 1 deadlock, 2 overrun
    abort: bool,
    policy: Policy,
    rng: Rng,
    max_slots: usize,
    walk_thread: Option<std::thread::ThreadId>,
}

struct Sched { m: Mutex<Inner>, cv: Condvar }

fn is_idle(inner: &Inner, s: &Slot) -> bool {
    let msg = matches!(s.recv, Some(hook::Received::Quit) | Some(hook::Received::Work(_)));
    inner.in_wait[s.w] && !msg && s.visit.is_none()
        && matches!(s.kind, hook::POP | hook::STEAL | hook::STEAL_ONE | hook::SLEEP)
}

impl Sched {
    fn blocked(inner: &Inner, w: usize) -> bool {
        inner.parked[w] == Some(hook::SLEEP) && inner.iter_start[w] == inner.progress
    }

    /// all live workers are parked: choose who runs next
    fn pick_next(&self, inner: &mut Inner) {
        if inner.abort || inner.granted.is_some() || inner.open.is_some() { return; }
        let live: Vec<usize> = (0..inner.n).filter(|&w| !inner.finished[w]).collect();
        if live.is_empty() { return; }
        if live.iter().any(|&w| inner.parked[w].is_none()) { return; }
        let enabled: Vec<usize> = live.iter().copied().filter(|&w| !Self::blocked(inner, w)).collect();
        if enabled.is_empty() {
            inner.status = 1;
            inner.abort = true;
            self.cv.notify_all();
            return;
        }
        if inner.slots.len() >= inner.max_slots {
            inner.status = 2;
            inner.abort = true;
            self.cv.notify_all();
            return;
        }
        let i = inner.decisions.len();
        let nonpre = match inner.last {
            Some(l) if enabled.contains(&l) => l,
            Some(l) => *enabled.iter().find(|&&w| w > l).unwrap_or(&enabled[0]),
            None => enabled[0],
        };
        let x = match &mut inner.policy {
            Policy::Preempt(list) => {
                match list.iter().find(|(d, x)| *d == i && enabled.contains(x)) {
                    Some((_, x)) => *x,
                    None => nonpre,
                }
            }
            Policy::Uniform => { let k = inner.rng.below(enabled.len()); enabled[k] }
            Policy::Sticky(pct) => {
                let switch = inner.rng.next() % 100 < *pct;
                let stay = matches!(inner.last, Some(l) if enabled.contains(&l));
                if stay && !switch { nonpre } else { let k = inner.rng.below(enabled.len()); enabled[k] }
            }
            Policy::Delay { kind, pct } => {
                let hold = inner.rng.next() % 100 < *pct;
                let others: Vec<usize> =
                    enabled.iter().copied().filter(|&w| inner.parked[w] != Some(*kind)).collect();
                let pool = if hold && !others.is_empty() { &others } else { &enabled };
                let k = inner.rng.below(pool.len());
                pool[k]
            }
            Policy::Pct { prio, change } => {
                let top = *enabled.iter().max_by_key(|&&w| prio[w]).unwrap();
                if let Some(j) = change.iter().position(|&c| c == i) {
                    prio[top] = -(j as i64) - 1;
                }
                *enabled.iter().max_by_key(|&&w| prio[w]).unwrap()
            }
        };
        let mask = enabled.iter().fold(0u64, |m, &w| m | (1 << w));
        inner.decisions.push((mask, x));
        let kind = inner.parked[x].take().unwrap();
        if kind == hook::POP && inner.in_wait[x] { inner.iter_start[x] = inner.progress; }
        inner.open = Some(Slot { w: x, kind, recv: None, visit: None, snap: None });
        inner.granted = Some(x);
        inner.last = Some(x);
        self.cv.notify_all();
    }

    fn close_slot(inner: &mut Inner, w: usize, next_kind: u32) {
        if let Some(mut s) = inner.open.take() {
            debug_assert_eq!(s.w, w);
            s.snap = hook::snapshot();
            let idle = is_idle(inner, &s);
            if !idle { inner.progress += 1; }
            // bookkeeping of "inside the wait loop"
            if s.kind == hook::DEACTIVATE && next_kind == hook::POP { inner.in_wait[w] = true; }
            if next_kind == hook::ACTIVATE { inner.in_wait[w] = false; }
            inner.slots.push(s);
        }
    }

    /// after a detected deadlock / overrun the worker threads are taken down at their next yield
    /// point (unwinding through the walker; `WalkParallel::visit` then panics in the walk thread,
    /// where it is caught), so that no spinning thread is left behind
    fn bail() -> ! {
        std::panic::resume_unwind(Box::new("c07 scheduler abort"))
    }

    fn yield_point(&self, w: usize, kind: u32) {
        let mut inner = self.m.lock().unwrap_or_else(|e| e.into_inner());
        if Some(std::thread::current().id()) == inner.walk_thread || w >= inner.n { return; }
        if inner.abort { drop(inner); Self::bail(); }
        Self::close_slot(&mut inner, w, kind);
        if kind == hook::EXIT {
            let snap = hook::snapshot();
            inner.slots.push(Slot { w, kind, recv: None, visit: None, snap });
            inner.finished[w] = true;
            inner.progress += 1;
            self.pick_next(&mut inner);
            self.cv.notify_all();
            return;
        }
        inner.parked[w] = Some(kind);
        self.pick_next(&mut inner);
        while inner.granted != Some(w) && !inner.abort {
            inner = self.cv.wait(inner).unwrap_or_else(|e| e.into_inner());
        }
        if inner.abort { drop(inner); Self::bail(); }
        if inner.granted == Some(w) { inner.granted = None; }
    }

    fn received(&self, w: usize, r: &hook::Received) {
        let mut inner = self.m.lock().unwrap_or_else(|e| e.into_inner());
        if let Some(s) = inner.open.as_mut() { if s.w == w { s.recv = Some(r.clone()); } }
    }

    fn visited(&self, w: usize, id: usize) {
        let mut inner = self.m.lock().unwrap_or_else(|e| e.into_inner());
        if let Some(s) = inner.open.as_mut() { if s.w == w { s.visit = Some(id); } }
    }
}

fn snap_val(s: &Option<hook::Snapshot>) -> Val {
    match s {
        None => Val::L(vec![]),
        Some(s) => Val::L(vec![Val::of_us(s.active_workers), Val::of_bool(s.quit_now),
                               Val::L(s.deque_lens.iter().map(|&l| Val::of_us(l)).collect())]),
    }
}

fn slot_val(s: &Slot) -> Val {
    let recv = match &s.recv {
        None => Val::L(vec![]),
        Some(hook::Received::Nothing) => Val::L(vec![Val::N(0)]),
        Some(hook::Received::Quit) => Val::L(vec![Val::N(1)]),
        Some(hook::Received::Work(p)) => Val::L(vec![Val::N(2), Val::of_us(node_id(p).unwrap_or(999_999))]),
    };
    let visit = match s.visit { None => Val::L(vec![]), Some(i) => Val::L(vec![Val::of_us(i)]) };
    Val::L(vec![Val::of_us(s.w), Val::N(s.kind as u128), recv, visit, snap_val(&s.snap)])
}

/// case: (base n forest resp quit_at policy seed aux max_slots same_file_system)
///   forest = ((id isdir (kids..)) ..) ; resp = answers by id (0 Continue 1 Skip 2 Quit) ;
///   quit_at = () | (k) ; policy 0: aux = ((decision worker)..) preemptions ; 1: uniform(seed) ;
///   2: PCT(seed), aux = (depth steps_estimate) ; 3: sticky uniform(seed), aux = (switch percent) ;
///   4: delay(seed), aux = (yield kind, hold percent)
/// result: (status n roots_as_seen resp_effective slots visits decisions errors root_error_visits)
///   status 0 finished, 1 all workers blocked but not finished, 2 slot bound overrun, 3 harness
///   problem, 4 walk did not return
fn run_scheduled(v: &Val) -> Val {
    let base = PathBuf::from(String::from_utf8_lossy(&v.fld(0).bytes()).to_string());
    let n_cfg = v.fld(1).us();
    let forest: Vec<Tree> = v.fld(2).list().iter().map(dec_tree).collect();
    let mut resp: Vec<u8> = v.fld(3).list().iter().map(|x| x.n() as u8).collect();
    let quit_at = v.fld(4).opt().map(|x| x.us());
    let policy_no = v.fld(5).us();
    let seed = v.fld(6).n() as u64;
    let aux = v.fld(7);
    let max_slots = v.fld(8).us().max(10);
    let same_fs = v.fld(9).b();
    let n = if n_cfg == 0 { 2 } else { n_cfg };
    let fail = |what: &str| Val::L(vec![Val::N(3), Val::of_bytes(what.as_bytes())]);
    if forest.is_empty() { return fail("empty forest"); }
    let (dir, roots) = match materialise(&base, v.fld(2), &forest) { Ok(x) => x, Err(e) => return fail(&e) };
    let seen = roots_val(&dir, &forest);

    let mut rng = Rng(seed ^ 0x5851f42d4c957f2d);
    let policy = match policy_no {
        0 => Policy::Preempt(aux.list().iter().map(|p| (p.fld(0).us(), p.fld(1).us())).collect()),
        1 => Policy::Uniform,
        3 => Policy::Sticky(aux.fld(0).n() as u64),
        4 => Policy::Delay { kind: aux.fld(0).n() as u32, pct: aux.fld(1).n() as u64 },
        _ => {
            let depth = aux.fld(0).us().max(1);
            let est = aux.fld(1).us().max(1);
            let mut prio: Vec<i64> = (0..n as i64).map(|i| i + depth as i64).collect();
            for i in (1..n).rev() { let j = rng.below(i + 1); prio.swap(i, j); }
            let change = (0..depth - 1).map(|_| rng.below(est)).collect();
            Policy::Pct { prio, change }
        }
    };
    let sched = Arc::new(Sched {
        m: Mutex::new(Inner {
            n, parked: vec![None; n], finished: vec![false; n], in_wait: vec![false; n], iter_start: vec![u64::MAX; n],
            granted: None, last: None, open: None, slots: vec![], decisions: vec![], progress: 0, status: 0,
            abort: false, policy, rng, max_slots, walk_thread: None,
        }),
        cv: Condvar::new(),
    });
    let visits = Arc::new(Mutex::new(Visits { calls: vec![], root_errors: vec![], errors: 0 }));
    hook::clear_shared();
    { let s = sched.clone(); hook::set_yield(Some(Arc::new(move |w, k| s.yield_point(w, k)))); }
    { let s = sched.clone(); hook::set_received(Some(Arc::new(move |w, r| s.received(w, r)))); }
    let (tx, rx) = mpsc::channel();
    {
        let sched = sched.clone();
        let visits = visits.clone();
        let resp = Arc::new(resp.clone());
        std::thread::spawn(move || {
            sched.m.lock().unwrap_or_else(|e| e.into_inner()).walk_thread = Some(std::thread::current().id());
            let walker = builder_for(&roots, n_cfg, same_fs).build_parallel();
            let mut b = VBuilder { next: 0, resp, quit_at, shared: visits, sched: Some(sched.clone()) };
            let r = std::panic::catch_unwind(std::panic::AssertUnwindSafe(|| walker.visit(&mut b)));
            let _ = tx.send(r.is_ok());
        });
    }
    let mut status;
    match rx.recv_timeout(Duration::from_secs(20)) {
        Ok(true) => { status = 0; }
        Ok(false) => { status = 5; }
        Err(_) => {
            // not returned (a worker thread died or hangs outside the yield points): take the others down
            { let mut i = sched.m.lock().unwrap_or_else(|e| e.into_inner()); i.abort = true; }
            sched.cv.notify_all();
            status = 4;
            let _ = rx.recv_timeout(Duration::from_secs(2));
        }
    }
    {
        let i = sched.m.lock().unwrap_or_else(|e| e.into_inner());
        if i.status != 0 { status = i.status; }
    }
    hook::set_yield(None);
    hook::set_received(None);
    hook::clear_shared();
    let inner = sched.m.lock().unwrap_or_else(|e| e.into_inner());
    let vis = visits.lock().unwrap_or_else(|e| e.into_inner());
    for &(_, id, a) in &vis.calls {
        if id >= resp.len() { resp.resize(id + 1, 0); }
        resp[id] = a;
    }
    let root_errors = Val::L(vis.root_errors.iter().map(|&(i, a)| Val::L(vec![Val::of_us(i), Val::N(a as u128)])).collect());
    let slots = Val::L(inner.slots.iter().map(slot_val).collect());
    let calls = Val::L(vis.calls.iter().map(|&(w, id, a)| {
        Val::L(vec![Val::of_us(if w == usize::MAX { 999 } else { w }), Val::of_us(id), Val::N(a as u128)])
    }).collect());
    let decisions = if policy_no == 0 {
        Val::L(inner.decisions.iter().map(|&(m, x)| Val::L(vec![Val::N(m as u128), Val::of_us(x)])).collect())
    } else { Val::L(vec![Val::of_us(inner.decisions.len())]) };
    Val::L(vec![Val::N(status as u128), Val::of_us(n_cfg), seen,
                Val::L(resp.iter().map(|&a| Val::N(a as u128)).collect()), slots, calls, decisions,
                Val::of_us(vis.errors), root_errors])
}

/// case: (base n forest resp quit_at reps) -> ((sorted visited ids, how often) ..) errors
fn run_soak(v: &Val) -> Val {
    let base = PathBuf::from(String::from_utf8_lossy(&v.fld(0).bytes()).to_string());
    let n_cfg = v.fld(1).us();
    let forest: Vec<Tree> = v.fld(2).list().iter().map(dec_tree).collect();
    let resp: Arc<Vec<u8>> = Arc::new(v.fld(3).list().iter().map(|x| x.n() as u8).collect());
    let quit_at = v.fld(4).opt().map(|x| x.us());
    let reps = v.fld(5).us();
    let same_fs = v.fld(6).b();
    if forest.is_empty() { return Val::L(vec![]); }
    let (_dir, roots) = match materialise(&base, v.fld(2), &forest) { Ok(x) => x, Err(_) => return Val::L(vec![]) };
    hook::set_yield(None);
    hook::set_received(None);
    let mut seen: BTreeMap<Vec<usize>, usize> = BTreeMap::new();
    let mut errors = 0;
    let mut hung = 0;
    for _ in 0..reps {
        let visits = Arc::new(Mutex::new(Visits { calls: vec![], root_errors: vec![], errors: 0 }));
        let (tx, rx) = mpsc::channel();
        {
            let visits = visits.clone();
            let resp = resp.clone();
            let roots = roots.clone();
            std::thread::spawn(move || {
                let walker = builder_for(&roots, n_cfg, same_fs).build_parallel();
                let mut b = VBuilder { next: 0, resp, quit_at, shared: visits, sched: None };
                walker.visit(&mut b);
                let _ = tx.send(());
            });
        }
        if rx.recv_timeout(Duration::from_secs(60)).is_err() { hung += 1; break; }
        let vis = visits.lock().unwrap();
        errors += vis.errors;
        let mut ids: Vec<usize> = vis.calls.iter().map(|c| c.1).collect();
        ids.sort();
        *seen.entry(ids).or_insert(0) += 1;
    }
    Val::L(vec![
        Val::L(seen.iter().map(|(ids, c)| Val::L(vec![Val::L(ids.iter().map(|&i| Val::of_us(i)).collect()), Val::of_us(*c)])).collect()),
        Val::of_us(errors), Val::of_us(hung)])
}
