//! The scripted matcher and the logging sink shared by the searcher-family checks.
//! Mirror of coq/theories/Model/ScriptedMatcher.v — keep the two in step.
use crate::val::Val;
use grep_matcher::{ByteSet, LineMatchKind, LineTerminator, Match, Matcher, NoCaptures, NoError};
use grep_searcher::{Searcher, SearcherBuilder, Sink, SinkContext, SinkContextKind, SinkFinish, SinkMatch};
use std::io;

#[derive(Clone, Debug)]
pub struct Needle { pub anch: bool, pub bytes: Vec<u8>, pub real: bool }

#[derive(Clone, Debug)]
pub struct Scripted {
    pub ltb: u8,
    pub needles: Vec<Needle>,
    pub confirm: bool,
    pub line_term: Option<LineTerminator>,
    pub nonmatching: Option<ByteSet>,
}

impl Scripted {
    fn occurs_here(&self, hay: &[u8], i: usize, n: &Needle) -> bool {
        hay[i..].starts_with(&n.bytes) && (!n.anch || i == 0 || hay[i - 1] == self.ltb)
    }
    /// leftmost position at which an accepted needle occurs (ties: list order)
    fn scan(&self, hay: &[u8], only_real: bool) -> Option<(usize, &Needle)> {
        for i in 0..=hay.len() {
            for n in &self.needles {
                if (!only_real || n.real) && self.occurs_here(hay, i, n) {
                    return Some((i, n));
                }
            }
        }
        None
    }
}

impl Matcher for Scripted {
    type Captures = NoCaptures;
    type Error = NoError;
    fn find_at(&self, haystack: &[u8], at: usize) -> Result<Option<Match>, NoError> {
        // the searcher only ever calls this with at == 0 on a sub-slice; honour `at` anyway by
        // scanning the suffix with the preceding byte as left context
        if at == 0 {
            return Ok(self.scan(haystack, true).map(|(i, n)| Match::new(i, i + n.bytes.len())));
        }
        for i in at..=haystack.len() {
            for n in &self.needles {
                if n.real && self.occurs_here(haystack, i, n) {
                    return Ok(Some(Match::new(i, i + n.bytes.len())));
                }
            }
        }
        Ok(None)
    }
    fn new_captures(&self) -> Result<NoCaptures, NoError> { Ok(NoCaptures::new()) }
    fn find_candidate_line(&self, haystack: &[u8]) -> Result<Option<LineMatchKind>, NoError> {
        Ok(self.scan(haystack, false).map(|(i, n)| {
            if self.confirm && n.real { LineMatchKind::Confirmed(i) } else { LineMatchKind::Candidate(i) }
        }))
    }
    fn line_terminator(&self) -> Option<LineTerminator> { self.line_term }
    fn non_matching_bytes(&self) -> Option<&ByteSet> { self.nonmatching.as_ref() }
}

#[derive(Clone, Debug)]
pub struct Cfg {
    pub crlf: bool, pub ltbyte: u8, pub invert: bool, pub after: usize, pub before: usize,
    pub passthru: bool, pub line_number: bool, pub stop_on_nonmatch: bool, pub multi_line: bool,
}

pub fn decode_cfg(v: &Val) -> Cfg {
    Cfg {
        crlf: v.fld(0).b(), ltbyte: v.fld(1).n() as u8, invert: v.fld(2).b(), after: v.fld(3).us(),
        before: v.fld(4).us(), passthru: v.fld(5).b(), line_number: v.fld(6).b(),
        stop_on_nonmatch: v.fld(7).b(), multi_line: v.fld(8).b(),
    }
}

pub fn line_term(c: &Cfg) -> LineTerminator {
    if c.crlf { LineTerminator::crlf() } else { LineTerminator::byte(c.ltbyte) }
}

pub fn searcher_builder(c: &Cfg) -> SearcherBuilder {
    let mut sb = SearcherBuilder::new();
    sb.line_terminator(line_term(c))
        .invert_match(c.invert)
        .after_context(c.after)
        .before_context(c.before)
        .passthru(c.passthru)
        .line_number(c.line_number)
        .stop_on_nonmatch(c.stop_on_nonmatch)
        .multi_line(c.multi_line)
        .bom_sniffing(false);
    sb
}

pub fn decode_matcher(c: &Cfg, v: &Val) -> Scripted {
    let lt = line_term(c);
    let needles = v.fld(0).list().iter()
        .map(|n| Needle { anch: n.fld(0).b(), bytes: n.fld(1).bytes(), real: n.fld(2).b() })
        .collect();
    let mode = v.fld(2).n();
    let mut bs = ByteSet::empty();
    bs.add(lt.as_byte());
    Scripted {
        ltb: lt.as_byte(),
        needles,
        confirm: v.fld(1).b(),
        line_term: if mode == 1 { Some(lt) } else { None },
        nonmatching: if mode == 2 { Some(bs) } else { None },
    }
}

/// reply: () | (k what): at sink call index k answer Stop (1) or Fail (2)
#[derive(Clone, Copy, Debug)]
pub struct Reply { pub at: Option<(usize, u8)> }
pub fn decode_reply(v: &Val) -> Reply {
    let l = v.list();
    if l.len() >= 2 { Reply { at: Some((l[0].us(), l[1].n() as u8)) } } else { Reply { at: None } }
}

/// A sink that logs every call in the value encoding of Run/RunC03.v and answers by the reply function.
pub struct LogSink { pub events: Vec<Val>, pub calls: usize, pub reply: Reply }
impl LogSink {
    pub fn new(reply: Reply) -> LogSink { LogSink { events: vec![], calls: 0, reply } }
    fn answer(&mut self, ev: Val) -> Result<bool, io::Error> {
        self.events.push(ev);
        let i = self.calls;
        self.calls += 1;
        match self.reply.at {
            Some((k, 1)) if k == i => Ok(false),
            Some((k, _)) if k == i => Err(io::Error::new(io::ErrorKind::Other, "sink failure")),
            _ => Ok(true),
        }
    }
}
fn lnum(o: Option<u64>) -> Val { Val::of_opt(o.map(|n| Val::N(n as u128))) }
impl Sink for LogSink {
    type Error = io::Error;
    fn matched(&mut self, _: &Searcher, m: &SinkMatch<'_>) -> Result<bool, io::Error> {
        let ev = Val::L(vec![Val::N(1), Val::N(m.absolute_byte_offset() as u128), lnum(m.line_number()), Val::of_bytes(m.bytes())]);
        self.answer(ev)
    }
    fn context(&mut self, _: &Searcher, c: &SinkContext<'_>) -> Result<bool, io::Error> {
        let k = match c.kind() { SinkContextKind::Before => 0, SinkContextKind::After => 1, SinkContextKind::Other => 2 };
        let ev = Val::L(vec![Val::N(2), Val::N(k), Val::N(c.absolute_byte_offset() as u128), lnum(c.line_number()), Val::of_bytes(c.bytes())]);
        self.answer(ev)
    }
    fn context_break(&mut self, _: &Searcher) -> Result<bool, io::Error> { self.answer(Val::L(vec![Val::N(3)])) }
    fn binary_data(&mut self, _: &Searcher, off: u64) -> Result<bool, io::Error> {
        self.answer(Val::L(vec![Val::N(4), Val::N(off as u128)]))
    }
    fn begin(&mut self, _: &Searcher) -> Result<bool, io::Error> { self.answer(Val::L(vec![Val::N(0)])) }
    fn finish(&mut self, _: &Searcher, f: &SinkFinish) -> Result<(), io::Error> {
        let ev = Val::L(vec![Val::N(5), Val::N(f.byte_count() as u128),
                             Val::of_opt(f.binary_byte_offset().map(|n| Val::N(n as u128)))]);
        self.answer(ev).map(|_| ())
    }
}

pub fn result_val(r: Result<(), io::Error>, sink: LogSink) -> Val {
    Val::L(vec![Val::N(if r.is_ok() { 0 } else { 1 }), Val::L(sink.events)])
}
