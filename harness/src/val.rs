//! Universal value syntax shared with the OCaml driver:
//! v ::= NUMBER | xHEX | '(' v* ')'
#[derive(Clone, Debug, PartialEq, Eq)]
pub enum Val {
    N(u128),
    L(Vec<Val>),
}

impl Val {
    pub fn n(&self) -> u128 {
        match self { Val::N(n) => *n, Val::L(_) => 0 }
    }
    pub fn us(&self) -> usize { self.n() as usize }
    pub fn b(&self) -> bool { self.n() != 0 }
    pub fn list(&self) -> &[Val] {
        match self { Val::L(l) => l, Val::N(_) => &[] }
    }
    pub fn fld(&self, i: usize) -> &Val {
        static ZERO: Val = Val::N(0);
        self.list().get(i).unwrap_or(&ZERO)
    }
    pub fn bytes(&self) -> Vec<u8> {
        self.list().iter().map(|v| v.n() as u8).collect()
    }
    pub fn opt(&self) -> Option<&Val> { self.list().first() }
    pub fn of_bytes(b: &[u8]) -> Val { Val::L(b.iter().map(|&x| Val::N(x as u128)).collect()) }
    pub fn of_bool(b: bool) -> Val { Val::N(b as u128) }
    pub fn of_us(n: usize) -> Val { Val::N(n as u128) }
    pub fn of_opt(o: Option<Val>) -> Val {
        match o { None => Val::L(vec![]), Some(v) => Val::L(vec![v]) }
    }
    pub fn parse(s: &str) -> Result<Val, String> {
        let b = s.as_bytes();
        let mut pos = 0usize;
        let v = parse_at(b, &mut pos)?;
        Ok(v)
    }
    pub fn print(&self, out: &mut String) {
        match self {
            Val::N(n) => out.push_str(&n.to_string()),
            Val::L(l) if l.is_empty() => out.push_str("()"),
            Val::L(l) => {
                let small = l.iter().all(|e| matches!(e, Val::N(x) if *x < 256));
                if small {
                    out.push('x');
                    for e in l { out.push_str(&format!("{:02x}", e.n())); }
                } else {
                    out.push('(');
                    for (i, e) in l.iter().enumerate() {
                        if i > 0 { out.push(' '); }
                        e.print(out);
                    }
                    out.push(')');
                }
            }
        }
    }
    pub fn to_string(&self) -> String { let mut s = String::new(); self.print(&mut s); s }
}

fn hexval(c: u8) -> Result<u128, String> {
    match c {
        b'0'..=b'9' => Ok((c - 48) as u128),
        b'a'..=b'f' => Ok((c - 87) as u128),
        b'A'..=b'F' => Ok((c - 55) as u128),
        _ => Err("bad hex".into()),
    }
}

fn parse_at(b: &[u8], pos: &mut usize) -> Result<Val, String> {
    while *pos < b.len() && (b[*pos] == b' ' || b[*pos] == b'\t') { *pos += 1; }
    if *pos >= b.len() { return Err("eof".into()); }
    match b[*pos] {
        b'(' => {
            *pos += 1;
            let mut items = vec![];
            loop {
                while *pos < b.len() && (b[*pos] == b' ' || b[*pos] == b'\t') { *pos += 1; }
                if *pos >= b.len() { return Err("unclosed".into()); }
                if b[*pos] == b')' { *pos += 1; return Ok(Val::L(items)); }
                items.push(parse_at(b, pos)?);
            }
        }
        b'x' => {
            *pos += 1;
            let mut items = vec![];
            while *pos + 1 < b.len() && b[*pos] != b' ' && b[*pos] != b')' && b[*pos] != b'(' {
                items.push(Val::N(hexval(b[*pos])? * 16 + hexval(b[*pos + 1])?));
                *pos += 2;
            }
            Ok(Val::L(items))
        }
        b'0'..=b'9' => {
            let st = *pos;
            while *pos < b.len() && b[*pos].is_ascii_digit() { *pos += 1; }
            Ok(Val::N(std::str::from_utf8(&b[st..*pos]).unwrap().parse().map_err(|_| "num")?))
        }
        c => Err(format!("bad char {}", c as char)),
    }
}
