//! Build matchers/searchers the way the rg binary does (crates/core/flags/hiargs.rs matcher_rust, searcher),
//! so that library-level cases mean what the same flags mean on the command line.  The CLI sample runs of
//! each check compare this mirror against the real binary.
use grep_matcher::LineTerminator;
use grep_regex::{RegexMatcher, RegexMatcherBuilder};
use grep_searcher::SearcherBuilder;

#[derive(Clone, Debug, Default)]
pub struct RgOpts {
    pub crlf: bool,
    pub null_data: bool,
    pub multiline: bool,
    pub dotall: bool,
    pub ignore_case: bool,
    pub smart_case: bool,
    pub word: bool,
    pub whole_line: bool,
    pub fixed: bool,
    pub no_unicode: bool,
    pub text: bool, // -a: binary detection off => no NUL ban
}

pub fn matcher_builder(o: &RgOpts) -> RegexMatcherBuilder {
    let mut b = RegexMatcherBuilder::new();
    b.multi_line(true).unicode(!o.no_unicode).octal(false).fixed_strings(o.fixed);
    if o.ignore_case { b.case_insensitive(true); } else if o.smart_case { b.case_smart(true); } else { b.case_insensitive(false); }
    if o.whole_line { b.whole_line(true); } else if o.word { b.word(true); }
    if o.multiline {
        b.dot_matches_new_line(o.dotall);
        if o.crlf { b.crlf(true).line_terminator(None); }
    } else {
        b.line_terminator(Some(b'\n')).dot_matches_new_line(false);
        if o.crlf { b.crlf(true); }
        if o.null_data { b.line_terminator(Some(b'\x00')); }
    }
    if !o.text { b.ban_byte(Some(b'\x00')); }
    b
}

pub fn matcher(patterns: &[String], o: &RgOpts) -> Result<RegexMatcher, String> {
    matcher_builder(o).build_many(patterns).map_err(|e| e.to_string())
}

pub fn line_terminator(o: &RgOpts) -> LineTerminator {
    if o.crlf { LineTerminator::crlf() } else if o.null_data { LineTerminator::byte(b'\x00') } else { LineTerminator::byte(b'\n') }
}

pub fn searcher_builder(o: &RgOpts) -> SearcherBuilder {
    let mut sb = SearcherBuilder::new();
    sb.line_terminator(line_terminator(o)).multi_line(o.multiline);
    sb
}
