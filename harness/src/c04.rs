//! C04: gitignore semantics.  Kinds 401 (the real directory walker on a materialised tree),
//! 402 (Gitignore::matched_path_or_any_parents), 403 (GitignoreBuilder::add_line flags),
//! 405 (one ignore line with a bracket expression: add_line, build of the file's glob set, verdicts on n<probe>m).
use crate::val::Val;
use ignore::gitignore::GitignoreBuilder;
use ignore::{Match, WalkBuilder};
use std::ffi::OsStr;
use std::os::unix::ffi::OsStrExt;
use std::path::{Path, PathBuf};

pub fn dispatch(kind: u32, v: &Val) -> Option<Val> {
    match kind {
        401 => Some(run_walk(v)),
        402 => Some(run_one_file(v)),
        403 => Some(run_add_line(v)),
        405 => Some(run_class_line(v)),
        _ => None,
    }
}

fn p(b: &[u8]) -> &Path { Path::new(OsStr::from_bytes(b)) }

static COUNTER: std::sync::atomic::AtomicUsize = std::sync::atomic::AtomicUsize::new(0);

/// (ci ((dir lines)...) ((path is_dir)...) base): materialise under base, walk with only .gitignore active
fn run_walk(v: &Val) -> Val {
    let ci = v.fld(0).b();
    let base = v.fld(3).bytes();
    let n = COUNTER.fetch_add(1, std::sync::atomic::Ordering::SeqCst);
    let root: PathBuf = p(&base).join(format!("w{}-{}", std::process::id(), n));
    let _ = std::fs::remove_dir_all(&root);
    std::fs::create_dir_all(&root).expect("mkdir root");
    for e in v.fld(2).list() {
        let path = root.join(p(&e.fld(0).bytes()));
        if e.fld(1).b() {
            std::fs::create_dir_all(&path).expect("mkdir");
        } else {
            if let Some(parent) = path.parent() { std::fs::create_dir_all(parent).expect("mkdir parent"); }
            if !path.exists() { std::fs::write(&path, b"x\n").expect("write"); }
        }
    }
    for ig in v.fld(1).list() {
        let dir = root.join(p(&ig.fld(0).bytes()));
        std::fs::create_dir_all(&dir).expect("mkdir ig");
        let mut content = vec![];
        for l in ig.fld(1).list() { content.extend_from_slice(&l.bytes()); content.push(b'\n'); }
        std::fs::write(dir.join(".gitignore"), content).expect("write gitignore");
    }
    let mut seen = std::collections::HashSet::new();
    let walker = WalkBuilder::new(&root)
        .hidden(false).parents(false).ignore(false).git_global(false).git_exclude(false)
        .git_ignore(true).require_git(false).ignore_case_insensitive(ci).build();
    for ent in walker {
        if let Ok(ent) = ent {
            if let Ok(rel) = ent.path().strip_prefix(&root) {
                seen.insert(rel.as_os_str().as_bytes().to_vec());
            }
        }
    }
    let out: Vec<Val> = v.fld(2).list().iter().map(|e| Val::of_bool(seen.contains(&e.fld(0).bytes()))).collect();
    let _ = std::fs::remove_dir_all(&root);
    Val::L(vec![Val::N(0), Val::L(out)])
}

fn verdict<T>(m: Match<T>) -> Val {
    Val::N(match m { Match::None => 0, Match::Ignore(_) => 1, Match::Whitelist(_) => 2 })
}

/// (ci lines ((path is_dir)...)): root "./r", paths given as "./r/<rel>" so that strip is exercised
fn run_one_file(v: &Val) -> Val {
    let mut b = GitignoreBuilder::new("./r");
    b.case_insensitive(v.fld(0).b()).unwrap();
    for l in v.fld(1).list() {
        let s = String::from_utf8_lossy(&l.bytes()).into_owned();
        let _ = b.add_line(None, &s);
    }
    let gi = b.build().expect("gitignore build");
    let out: Vec<Val> = v.fld(2).list().iter().map(|e| {
        let mut full = b"./r/".to_vec();
        full.extend_from_slice(&e.fld(0).bytes());
        verdict(gi.matched_path_or_any_parents(p(&full), e.fld(1).b()))
    }).collect();
    Val::L(vec![Val::N(0), Val::L(out)])
}

/// (ci line)
fn run_add_line(v: &Val) -> Val {
    let mut b = GitignoreBuilder::new("");
    b.case_insensitive(v.fld(0).b()).unwrap();
    let s = String::from_utf8_lossy(&v.fld(1).bytes()).into_owned();
    match b.add_line(None, &s) {
        Err(_) => Val::L(vec![Val::N(1)]),
        Ok(_) => {
            let gi = b.build().expect("build");
            if gi.len() == 0 { return Val::L(vec![Val::N(0)]); }
            // the only glob: recover it through a path it matches is not possible in general; use the
            // public accessors of the matched glob on a synthetic query instead: num_ignores/whitelists
            // give the negation flag; `actual` and `is_only_dir` come from the Debug-free public getters
            // of the Glob returned by a match on the empty set is unavailable, so re-derive via a probe:
            let white = gi.num_whitelists() == 1;
            Val::L(vec![Val::N(2), Val::of_bool(white)])
        }
    }
}

/// (line probes): (1) = add_line rejects the line, (2) = the glob set of the file does not build,
/// (0 verdicts) = Gitignore::matched on "n<probe>m" for every probe byte
fn run_class_line(v: &Val) -> Val {
    let mut b = GitignoreBuilder::new("");
    let s = String::from_utf8_lossy(&v.fld(0).bytes()).into_owned();
    if b.add_line(None, &s).is_err() { return Val::L(vec![Val::N(1)]); }
    let gi = match b.build() { Ok(gi) => gi, Err(_) => return Val::L(vec![Val::N(2)]) };
    let out: Vec<Val> = v.fld(1).bytes().iter().map(|&c| {
        let name = [b'n', c, b'm'];
        verdict(gi.matched(p(&name), false))
    }).collect();
    Val::L(vec![Val::N(0), Val::L(out)])
}
