//! C11 (and the regex half of C01): the grep-regex builder passes and the regex semantics.
//!
//! HIR value syntax (shared with Run/RunC11.v):
//!   (0) Empty | (1 bytes) Literal | (2 ((lo hi)..)) byte class | (3 ((lo hi)..)) Unicode class
//!   | (4 k) Look k=0..17 in declaration order | (5 min (max)? greedy sub) Repetition
//!   | (6 sub) Capture | (7 (subs..)) Concat | (8 (subs..)) Alternation
use crate::val::Val;
use grep_matcher::{LineMatchKind, Matcher};
use grep_regex::{ErrorKind, RegexMatcher, RegexMatcherBuilder};
use regex_syntax::hir::{self, Hir, HirKind, Look};

pub fn dispatch(kind: u32, v: &Val) -> Option<Val> {
    match kind {
        1101 => Some(run_build(v)),
        1106 => Some(run_compare(v)),
        1103 => Some(run_lines(v)),
        1105 => Some(run_look(v)),
        1107 => Some(run_passes_on_hir(v)),
        1190 => Some(run_tables(v)),
        _ => None,
    }
}

const LOOKS: [Look; 18] = [
    Look::Start, Look::End, Look::StartLF, Look::EndLF, Look::StartCRLF, Look::EndCRLF,
    Look::WordAscii, Look::WordAsciiNegate, Look::WordUnicode, Look::WordUnicodeNegate,
    Look::WordStartAscii, Look::WordEndAscii, Look::WordStartUnicode, Look::WordEndUnicode,
    Look::WordStartHalfAscii, Look::WordEndHalfAscii, Look::WordStartHalfUnicode, Look::WordEndHalfUnicode,
];

fn n(x: usize) -> Val { Val::N(x as u128) }

pub fn hir_to_val(h: &Hir) -> Val {
    match h.kind() {
        HirKind::Empty => Val::L(vec![n(0)]),
        HirKind::Literal(hir::Literal(b)) => Val::L(vec![n(1), Val::of_bytes(b)]),
        HirKind::Class(hir::Class::Bytes(c)) => Val::L(vec![
            n(2),
            Val::L(c.ranges().iter().map(|r| Val::L(vec![n(r.start() as usize), n(r.end() as usize)])).collect()),
        ]),
        HirKind::Class(hir::Class::Unicode(c)) => Val::L(vec![
            n(3),
            Val::L(c.ranges().iter().map(|r| Val::L(vec![n(r.start() as usize), n(r.end() as usize)])).collect()),
        ]),
        HirKind::Look(l) => Val::L(vec![n(4), n(LOOKS.iter().position(|x| x == l).unwrap())]),
        HirKind::Repetition(r) => Val::L(vec![
            n(5),
            n(r.min as usize),
            Val::of_opt(r.max.map(|m| n(m as usize))),
            Val::of_bool(r.greedy),
            hir_to_val(&r.sub),
        ]),
        HirKind::Capture(c) => Val::L(vec![n(6), hir_to_val(&c.sub)]),
        HirKind::Concat(xs) => Val::L(vec![n(7), Val::L(xs.iter().map(hir_to_val).collect())]),
        HirKind::Alternation(xs) => Val::L(vec![n(8), Val::L(xs.iter().map(hir_to_val).collect())]),
    }
}

/// Rebuild a value through regex-syntax's own (simplifying) constructors, bottom-up.
pub fn val_to_hir(v: &Val, cap_index: &mut u32) -> Hir {
    match v.fld(0).us() {
        0 => Hir::empty(),
        1 => Hir::literal(v.fld(1).bytes()),
        2 => Hir::class(hir::Class::Bytes(hir::ClassBytes::new(
            v.fld(1).list().iter().map(|r| hir::ClassBytesRange::new(r.fld(0).n() as u8, r.fld(1).n() as u8)),
        ))),
        3 => Hir::class(hir::Class::Unicode(hir::ClassUnicode::new(v.fld(1).list().iter().filter_map(|r| {
            let lo = char::from_u32(r.fld(0).n() as u32)?;
            let hi = char::from_u32(r.fld(1).n() as u32)?;
            Some(hir::ClassUnicodeRange::new(lo, hi))
        })))),
        4 => Hir::look(LOOKS[v.fld(1).us() % 18]),
        5 => {
            let sub = val_to_hir(v.fld(4), cap_index);
            Hir::repetition(hir::Repetition {
                min: v.fld(1).n() as u32,
                max: v.fld(2).opt().map(|m| m.n() as u32),
                greedy: v.fld(3).b(),
                sub: Box::new(sub),
            })
        }
        6 => {
            *cap_index += 1;
            let index = *cap_index;
            let sub = val_to_hir(v.fld(1), cap_index);
            Hir::capture(hir::Capture { index, name: None, sub: Box::new(sub) })
        }
        7 => Hir::concat(v.fld(1).list().iter().map(|x| val_to_hir(x, cap_index)).collect()),
        _ => Hir::alternation(v.fld(1).list().iter().map(|x| val_to_hir(x, cap_index)).collect()),
    }
}

/// options: (lt ban crlf unicode word whole_line icase smart fixed multi_line dotall)
///   lt = () none | (b) byte      (crlf(true) sets the CRLF terminator itself, like the builder)
///   ban = () | (b)
/// The setters are applied in the order rg applies them (see rgcfg.rs): line_terminator first, then crlf.
fn builder(o: &Val) -> RegexMatcherBuilder {
    let mut b = RegexMatcherBuilder::new();
    b.multi_line(o.fld(9).b()).dot_matches_new_line(o.fld(10).b());
    b.unicode(o.fld(3).b());
    b.case_insensitive(o.fld(6).b()).case_smart(o.fld(7).b()).fixed_strings(o.fld(8).b());
    b.word(o.fld(4).b()).whole_line(o.fld(5).b());
    b.line_terminator(o.fld(0).opt().map(|x| x.n() as u8));
    if o.fld(2).b() {
        b.crlf(true);
    }
    b.ban_byte(o.fld(1).opt().map(|x| x.n() as u8));
    b
}

fn patterns(v: &Val) -> Option<Vec<String>> {
    v.list().iter().map(|p| String::from_utf8(p.bytes()).ok()).collect()
}

fn err_val(e: &grep_regex::Error) -> Val {
    match e.kind() {
        ErrorKind::NotAllowed(s) => Val::L(vec![n(1), n(1), n(s.bytes().next().unwrap_or(0) as usize)]),
        ErrorKind::InvalidLineTerminator(b) => Val::L(vec![n(1), n(2), n(*b as usize)]),
        ErrorKind::Banned(b) => Val::L(vec![n(1), n(3), n(*b as usize)]),
        _ => Val::L(vec![n(2)]),
    }
}

fn lits_val(l: Option<&[(Vec<u8>, bool)]>) -> Val {
    Val::of_opt(l.map(|ls| Val::L(ls.iter().map(|(b, e)| Val::L(vec![Val::of_bytes(b), Val::of_bool(*e)])).collect())))
}

fn lt_val(lt: Option<grep_matcher::LineTerminator>) -> Val {
    match lt {
        None => Val::L(vec![]),
        Some(t) if t.is_crlf() => Val::L(vec![n(1)]),
        Some(t) => Val::L(vec![n(0), n(t.as_byte() as usize)]),
    }
}

fn passes_val(h: &Hir) -> Vec<Val> {
    let ((traw, prefix), untagged) = grep_regex::verif_extract_inner_literals(h);
    let nmb = grep_regex::verif_non_matching_bytes(h);
    vec![
        Val::L(nmb.iter().map(|&b| Val::of_bool(b)).collect()),
        Val::L(vec![lits_val(traw.as_deref()), Val::of_bool(prefix)]),
        lits_val(untagged.as_deref()),
    ]
}

/// 1101: (patterns options) -> (translated? verdict)
///   verdict = (0 final adv_lt nmb (rawseq prefix) untagged inner_literals has_fast accelerated)
///           | (1 kind byte) | (2)
fn run_build(v: &Val) -> Val {
    let pats = match patterns(v.fld(0)) { Some(p) => p, None => return Val::L(vec![Val::L(vec![]), Val::L(vec![n(2)])]) };
    let _ = grep_regex::verif_take_translated_hir();
    let res = builder(v.fld(1)).build_many(&pats);
    let translated = grep_regex::verif_take_translated_hir();
    let tv = Val::of_opt(translated.as_ref().map(hir_to_val));
    match res {
        Err(e) => Val::L(vec![tv, err_val(&e)]),
        Ok(m) => {
            let h = m.verif_hir_final();
            let mut out = vec![n(0), hir_to_val(h), lt_val(m.line_terminator())];
            out.extend(passes_val(h));
            out.push(lits_val(m.verif_fast_line_literals()));
            out.push(Val::of_bool(m.verif_has_fast_line_regex()));
            out.push(Val::of_bool(m.verif_is_accelerated()));
            Val::L(vec![tv, Val::L(out)])
        }
    }
}

/// 1106: (a b) -> (rebuild(a) == b, rebuild(b) == b): `a` (a model result built with plain constructors)
/// rebuilt through regex-syntax's simplifying constructors must equal `b` (a dump of the code's HIR), and
/// `b` itself must survive the rebuild (otherwise the comparison means nothing).  Capture indices and
/// names are not part of the value syntax.
fn run_compare(v: &Val) -> Val {
    let mut ci = 0;
    let a = val_to_hir(v.fld(0), &mut ci);
    let mut ci2 = 0;
    let b = val_to_hir(v.fld(1), &mut ci2);
    Val::L(vec![Val::of_bool(&hir_to_val(&a) == v.fld(1)), Val::of_bool(&hir_to_val(&b) == v.fld(1))])
}

fn build_buffer(lines: &[Vec<u8>], o: &Val) -> (Vec<u8>, Vec<usize>) {
    let term: Vec<u8> = if o.fld(2).b() { b"\r\n".to_vec() } else { vec![o.fld(0).opt().map(|x| x.n() as u8).unwrap_or(b'\n')] };
    let mut buf = vec![];
    let mut starts = vec![];
    for l in lines {
        starts.push(buf.len());
        buf.extend_from_slice(l);
        buf.extend_from_slice(&term);
    }
    (buf, starts)
}

/// 1103: (patterns options lines) -> ( per line: (is_match find? shortest? all_matches candidate?) , buffer_candidate )
///   buffer_candidate = find_candidate_line on lines joined with the terminator: () | (kind offset), kind 0 = Confirmed
fn run_lines(v: &Val) -> Val {
    let pats = match patterns(v.fld(0)) { Some(p) => p, None => return Val::L(vec![]) };
    let m: RegexMatcher = match builder(v.fld(1)).build_many(&pats) { Ok(m) => m, Err(_) => return Val::L(vec![]) };
    let lines: Vec<Vec<u8>> = v.fld(2).list().iter().map(|l| l.bytes()).collect();
    let cand = |r: Option<LineMatchKind>| match r {
        None => Val::L(vec![]),
        Some(LineMatchKind::Confirmed(p)) => Val::L(vec![n(0), n(p)]),
        Some(LineMatchKind::Candidate(p)) => Val::L(vec![n(1), n(p)]),
    };
    let mut per = vec![];
    for l in &lines {
        let is = m.is_match(l).unwrap();
        let f = m.find(l).unwrap();
        let sh = m.shortest_match(l).unwrap();
        let mut all = vec![];
        m.find_iter(l, |mm| { all.push(Val::L(vec![n(mm.start()), n(mm.end())])); true }).unwrap();
        per.push(Val::L(vec![
            Val::of_bool(is),
            Val::of_opt(f.map(|mm| Val::L(vec![n(mm.start()), n(mm.end())]))),
            Val::of_opt(sh.map(n)),
            Val::L(all),
            cand(m.find_candidate_line(l).unwrap()),
        ]));
    }
    let (buf, _) = build_buffer(&lines, v.fld(1));
    let mut bm = vec![];
    m.find_iter(&buf, |mm| { bm.push(Val::L(vec![n(mm.start()), n(mm.end())])); true }).unwrap();
    Val::L(vec![Val::L(per), cand(m.find_candidate_line(&buf).unwrap()), Val::of_bytes(&buf), Val::L(bm)])
}

/// 1105: (k haystack at) -> regex-automata's LookMatcher verdict
fn run_look(v: &Val) -> Val {
    use regex_automata::util::look::{Look as ALook, LookMatcher};
    const AL: [ALook; 18] = [
        ALook::Start, ALook::End, ALook::StartLF, ALook::EndLF, ALook::StartCRLF, ALook::EndCRLF,
        ALook::WordAscii, ALook::WordAsciiNegate, ALook::WordUnicode, ALook::WordUnicodeNegate,
        ALook::WordStartAscii, ALook::WordEndAscii, ALook::WordStartUnicode, ALook::WordEndUnicode,
        ALook::WordStartHalfAscii, ALook::WordEndHalfAscii, ALook::WordStartHalfUnicode, ALook::WordEndHalfUnicode,
    ];
    let hay = v.fld(1).bytes();
    let lm = LookMatcher::new();
    let mut out = vec![];
    for at in 0..=hay.len() {
        out.push(Val::of_bool(lm.matches(AL[v.fld(0).us() % 18], &hay, at)));
    }
    Val::L(out)
}

fn find_all(re: &regex_automata::meta::Regex, l: &[u8]) -> Val {
    let mut all = vec![];
    for mm in re.find_iter(l) {
        all.push(Val::L(vec![n(mm.start()), n(mm.end())]));
    }
    Val::L(all)
}

/// 1107: (hir crlf byte banbyte lines) -> (normalised_hir strip_result ban_result nmb (rawseq prefix) untagged matches)
/// for an arbitrary HIR value (rebuilt through regex-syntax's constructors, then dumped again so that the
/// model sees exactly the tree the code sees).  matches = per line all successive matches of a meta regex
/// built from the HIR the way ConfiguredHIR::to_regex builds it, or () when it cannot be built.
fn run_passes_on_hir(v: &Val) -> Val {
    let mut ci = 0;
    let h = val_to_hir(v.fld(0), &mut ci);
    let strip = match grep_regex::verif_strip_from_match(h.clone(), v.fld(1).b(), v.fld(2).n() as u8) {
        Ok(s) => Val::L(vec![n(0), hir_to_val(&s)]),
        Err(e) => err_val(&e),
    };
    let ban = match grep_regex::verif_ban_check(&h, v.fld(3).n() as u8) {
        Ok(()) => Val::L(vec![n(0)]),
        Err(e) => err_val(&e),
    };
    let mut out = vec![hir_to_val(&h), strip, ban];
    out.extend(passes_val(&h));
    let re = regex_automata::meta::Regex::builder()
        .configure(regex_automata::meta::Regex::config().utf8_empty(false))
        .build_from_hir(&h);
    out.push(match re {
        Err(_) => Val::L(vec![]),
        Ok(re) => Val::L(vec![Val::L(v.fld(4).list().iter().map(|l| find_all(&re, &l.bytes())).collect())]),
    });
    Val::L(out)
}

/// 1190: (cps bytes) -> (is_word_character per cp, rank per byte)
fn run_tables(v: &Val) -> Val {
    let w: Vec<Val> = v.fld(0).list().iter().map(|c| {
        match char::from_u32(c.n() as u32) {
            Some(ch) => Val::of_bool(regex_syntax::try_is_word_character(ch).unwrap()),
            None => n(2),
        }
    }).collect();
    let r: Vec<Val> = v.fld(1).list().iter().map(|b| n(regex_syntax::hir::literal::rank(b.n() as u8) as usize)).collect();
    Val::L(vec![Val::L(w), Val::L(r)])
}
