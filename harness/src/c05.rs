//! C05: which files the walker hands to the searcher, at library level (`ignore::WalkBuilder` configured
//! directly, including option combinations the command line cannot produce).  The command-line level
//! (`rg --files`) is driven from tools/props/C05.py.
use crate::val::Val;
use ignore::overrides::OverrideBuilder;
use ignore::types::TypesBuilder;
use ignore::WalkBuilder;
use std::ffi::OsStr;
use std::os::unix::ffi::OsStrExt;
use std::path::PathBuf;

/// kinds served by this module
pub fn dispatch(kind: u32, v: &Val) -> Option<Val> {
    match kind {
        502 => Some(run_lib_files(v)),
        _ => None,
    }
}

fn pb(v: &Val) -> PathBuf {
    PathBuf::from(OsStr::from_bytes(&v.bytes()))
}

/// case: (cwd xdg_config_home opts custom_names ignore_files globs types max_depth_opt roots follow_links home)
///   xdg_config_home empty = unset
///   opts = (hidden ignore parents git_global git_ignore git_exclude require_git)
///   types = list of (ext negated)
/// result: (status files) with files = sorted list of paths the haystack filter lets through
pub fn run_lib_files(v: &Val) -> Val {
    let cwd = pb(v.fld(0));
    if std::env::set_current_dir(&cwd).is_err() {
        return Val::L(vec![Val::N(9)]);
    }
    if v.fld(1).list().is_empty() {
        std::env::remove_var("XDG_CONFIG_HOME");
    } else {
        std::env::set_var("XDG_CONFIG_HOME", pb(v.fld(1)));
    }
    std::env::set_var("HOME", pb(v.fld(10)));
    let o = v.fld(2);
    let roots: Vec<PathBuf> = v.fld(8).list().iter().map(pb).collect();
    if roots.is_empty() {
        return Val::L(vec![Val::N(8)]);
    }
    let mut wb = WalkBuilder::new(&roots[0]);
    for r in &roots[1..] {
        wb.add(r);
    }
    for f in v.fld(4).list() {
        if wb.add_ignore(pb(f)).is_some() {
            return Val::L(vec![Val::N(7)]);
        }
    }
    let mut ob = OverrideBuilder::new(&cwd);
    for g in v.fld(5).list() {
        if ob.add(&String::from_utf8_lossy(&g.bytes())).is_err() {
            return Val::L(vec![Val::N(6)]);
        }
    }
    let mut tb = TypesBuilder::new();
    for t in v.fld(6).list() {
        let ext = String::from_utf8_lossy(&t.fld(0).bytes()).to_string();
        let name = format!("t{}", ext);
        if tb.add(&name, &format!("*.{}", ext)).is_err() {
            return Val::L(vec![Val::N(5)]);
        }
        if t.fld(1).b() {
            tb.negate(&name);
        } else {
            tb.select(&name);
        }
    }
    wb.hidden(o.fld(0).b())
        .ignore(o.fld(1).b())
        .parents(o.fld(2).b())
        .git_global(o.fld(3).b())
        .git_ignore(o.fld(4).b())
        .git_exclude(o.fld(5).b())
        .require_git(o.fld(6).b())
        .follow_links(v.fld(9).b())
        .max_depth(v.fld(7).opt().map(|d| d.us()))
        .overrides(ob.build().unwrap())
        .types(tb.build().unwrap());
    for n in v.fld(3).list() {
        wb.add_custom_ignore_filename(OsStr::from_bytes(&n.bytes()));
    }
    let mut files: Vec<Vec<u8>> = vec![];
    let mut errs = 0usize;
    for r in wb.build() {
        match r {
            Err(_) => errs += 1,
            Ok(d) => {
                // HaystackBuilder::build
                let is_dir = d.file_type().map_or(false, |t| t.is_dir())
                    || (d.path_is_symlink() && d.path().is_dir());
                let explicit = d.depth() == 0 && !is_dir;
                let is_file = d.file_type().map_or(false, |t| t.is_file());
                if explicit || is_file {
                    files.push(d.path().as_os_str().as_bytes().to_vec());
                }
            }
        }
    }
    files.sort();
    Val::L(vec![Val::N(0), Val::L(files.iter().map(|f| Val::of_bytes(f)).collect()), Val::of_us(errs)])
}
