//! C02: Searcher::search_reader with a scripted reader (chunk sizes, failures) and small buffers.
use crate::scripted::*;
use crate::val::Val;
use std::io::{self, Read};

pub fn dispatch(kind: u32, v: &Val) -> Option<Val> {
    match kind {
        201 => Some(run_reader(v, true)),
        202 => Some(run_reader(v, false)),
        203 => Some(run_reader_twice(v)),
        204 => Some(run_reader_any(v, false)),
        205 => Some(run_reader_any(v, true)),
        206 => Some(run_sequence(v)),
        207 => Some(run_ml_sequence(v)),
        _ => None,
    }
}

#[derive(Clone, Debug)]
pub enum Step { Chunk(usize), Fail, Interrupted }

pub struct ScriptedReader { pub rest: Vec<u8>, pub at: usize, pub hist: std::collections::VecDeque<Step> }
impl Read for ScriptedReader {
    fn read(&mut self, buf: &mut [u8]) -> io::Result<usize> {
        let step = self.hist.pop_front().unwrap_or(Step::Chunk(buf.len()));
        match step {
            Step::Fail => Err(io::Error::new(io::ErrorKind::Other, "read failure")),
            Step::Interrupted => Err(io::Error::new(io::ErrorKind::Interrupted, "interrupted")),
            Step::Chunk(n) => {
                let n = std::cmp::max(1, n).min(buf.len()).min(self.rest.len() - self.at);
                buf[..n].copy_from_slice(&self.rest[self.at..self.at + n]);
                self.at += n;
                Ok(n)
            }
        }
    }
}

pub fn decode_hist(v: &Val) -> std::collections::VecDeque<Step> {
    v.list().iter().map(|e| match e.fld(0).n() { 0 => Step::Chunk(e.fld(1).us()), 1 => Step::Fail, _ => Step::Interrupted }).collect()
}

/// case: (cfg matcher input reply cap pol hist) -> (status events)
pub fn run_reader(v: &Val, raw: bool) -> Val {
    let cfg = decode_cfg(v.fld(0));
    let m = decode_matcher(&cfg, v.fld(1));
    let input = v.fld(2).bytes();
    let mut sink = LogSink::new(decode_reply(v.fld(3)));
    let cap = v.fld(4).us();
    let mut sb = searcher_builder(&cfg);
    if let Some(extra) = v.fld(5).opt() {
        sb.heap_limit(Some(65536 + extra.us()));
    }
    sb.verif_buffer_capacity(Some(cap));
    let mut searcher = sb.build();
    if searcher.multi_line_with_matcher(&m) {
        return Val::L(vec![Val::N(9)]);
    }
    let rdr = ScriptedReader { rest: input, at: 0, hist: decode_hist(v.fld(6)) };
    let r = if raw { searcher.verif_search_reader_raw(&m, rdr, &mut sink) } else { searcher.search_reader(&m, rdr, &mut sink) };
    result_val(r, sink)
}

/// kind 203: the same Searcher searches twice (as `rg` does for every file of a directory walk); the result
/// of the second search of the case's input must not depend on the first.  First input: the case's input
/// followed by one more line (a different length, so stale offsets show).
pub fn run_reader_twice(v: &Val) -> Val {
    let cfg = decode_cfg(v.fld(0));
    let m = decode_matcher(&cfg, v.fld(1));
    let input = v.fld(2).bytes();
    let cap = v.fld(4).us();
    let mut sb = searcher_builder(&cfg);
    if let Some(extra) = v.fld(5).opt() {
        sb.heap_limit(Some(65536 + extra.us()));
    }
    sb.verif_buffer_capacity(Some(cap));
    let mut searcher = sb.build();
    if searcher.multi_line_with_matcher(&m) {
        return Val::L(vec![Val::N(9)]);
    }
    let mut first = input.clone();
    first.extend_from_slice(b"ab");
    first.push(line_term(&cfg).as_byte());
    let mut sink0 = LogSink::new(Reply { at: None });
    let _ = searcher.search_reader(&m, ScriptedReader { rest: first, at: 0, hist: Default::default() }, &mut sink0);
    let mut sink = LogSink::new(decode_reply(v.fld(3)));
    let rdr = ScriptedReader { rest: input, at: 0, hist: decode_hist(v.fld(6)) };
    let r = searcher.search_reader(&m, rdr, &mut sink);
    result_val(r, sink)
}

/// kinds 204 / 205: search_reader with whatever strategy the Searcher picks (also the multi-line one, which
/// reads the whole input into a heap buffer that the Searcher keeps between searches), by a fresh Searcher
/// (204) or by one that has already searched another input (205).  case: (cfg matcher input reply)
pub fn run_reader_any(v: &Val, reused: bool) -> Val {
    let cfg = decode_cfg(v.fld(0));
    let m = decode_matcher(&cfg, v.fld(1));
    let input = v.fld(2).bytes();
    let mut searcher = searcher_builder(&cfg).build();
    if reused {
        let mut first = input.clone();
        first.extend_from_slice(b"ab");
        first.push(line_term(&cfg).as_byte());
        first.extend_from_slice(b"b");
        let mut sink0 = LogSink::new(Reply { at: None });
        let _ = searcher.search_reader(&m, ScriptedReader { rest: first, at: 0, hist: Default::default() }, &mut sink0);
    }
    let mut sink = LogSink::new(decode_reply(v.fld(3)));
    let r = searcher.search_reader(&m, ScriptedReader { rest: input, at: 0, hist: Default::default() }, &mut sink);
    result_val(r, sink)
}

/// kind 206: ONE Searcher (roll buffer of capacity `cap`) searches a list of sources one after the other, as
/// Model/SearcherGlue.v `search_seq` does.  case: (cfg matcher cap sources), source = (tag input hist reply),
/// tag 0 = search_slice, 1 = search_reader (raw roll-buffer path: the reads are exactly `hist`),
/// 2 = search_file with a memory map, 3 = search_file without.  Result: one (status events) per source;
/// a configuration error is (1 ()).
pub fn run_sequence(v: &Val) -> Val {
    use grep_searcher::MmapChoice;
    use std::io::Write;
    let cfg = decode_cfg(v.fld(0));
    let m = decode_matcher(&cfg, v.fld(1));
    let cap = v.fld(2).us();
    let mk = |mmap: bool| {
        let mut sb = searcher_builder(&cfg);
        sb.verif_buffer_capacity(Some(cap));
        sb.memory_map(if mmap { unsafe { MmapChoice::auto() } } else { MmapChoice::never() });
        sb.build()
    };
    // the memory-map choice is part of the Searcher's configuration: two Searchers would not share state, so a
    // sequence uses ONE Searcher and switches its mmap choice per source through a second builder only when needed;
    // to keep one Searcher we build it with mmap enabled and hand tag-3 files over as readers of the file
    // (search_file without a map = the multi-line heap read or search_reader on the File).
    let mut searcher = mk(false);
    let mut searcher_mmap = mk(true);
    let mut out = vec![];
    let dir = std::env::temp_dir().join(format!("verif-c02-{}", std::process::id()));
    let _ = std::fs::create_dir_all(&dir);
    for (i, src) in v.fld(3).list().iter().enumerate() {
        let tag = src.fld(0).n();
        let input = src.fld(1).bytes();
        let reply = if src.list().len() > 3 { decode_reply(src.fld(3)) } else { Reply { at: None } };
        let mut sink = LogSink::new(reply);
        let r = match tag {
            0 => searcher.search_slice(&m, &input, &mut sink),
            1 => {
                let hist = if src.list().len() > 2 { decode_hist(src.fld(2)) } else { Default::default() };
                if searcher.multi_line_with_matcher(&m) {
                    searcher.search_reader(&m, ScriptedReader { rest: input, at: 0, hist }, &mut sink)
                } else {
                    searcher.verif_search_reader_raw(&m, ScriptedReader { rest: input, at: 0, hist }, &mut sink)
                }
            }
            _ => {
                let p = dir.join(format!("f{}", i));
                { let mut f = std::fs::File::create(&p).unwrap(); f.write_all(&input).unwrap(); }
                let f = std::fs::File::open(&p).unwrap();
                let r = if tag == 2 { searcher_mmap.search_file(&m, &f, &mut sink) } else { searcher.search_file(&m, &f, &mut sink) };
                let _ = std::fs::remove_file(&p);
                r
            }
        };
        out.push(match r {
            Err(ref e) if sink.events.is_empty() && e.to_string().contains("line terminator") => Val::L(vec![Val::N(1), Val::L(vec![])]),
            _ => result_val(r, sink),
        });
    }
    let _ = std::fs::remove_dir(&dir);
    Val::L(out)
}

/// A reader that writes down the size of every destination slice it is offered before handing the call on.
pub struct RoomRecorder<R> { pub inner: R, pub rooms: std::rc::Rc<std::cell::RefCell<Vec<usize>>> }
impl<R: Read> Read for RoomRecorder<R> {
    fn read(&mut self, buf: &mut [u8]) -> io::Result<usize> {
        self.rooms.borrow_mut().push(buf.len());
        self.inner.read(buf)
    }
}

/// kind 207: ONE Searcher with `multi_line(true)` and the given heap limit fills its multi-line heap buffer from
/// several sources one after the other (Searcher::fill_multi_line_buffer_from_reader / _from_file), as
/// Model/MultiLineBuffer.v `search_reader_ml` / `search_file_ml` do.
/// case: (cfg matcher heap mmap sources), heap = () | (h), source = (tag input hist reply rooms),
/// tag 1 = search_reader with a scripted reader, 3 = search_file of a real file without a memory map.
/// Result per source: (status events errkind rooms), errkind 0 none / 1 configuration / 2 heap limit / 3 read
/// error / 4 anything else; rooms = the sizes of the slices the scripted reader was offered.
pub fn run_ml_sequence(v: &Val) -> Val {
    use grep_searcher::MmapChoice;
    use std::io::Write;
    let cfg = decode_cfg(v.fld(0));
    let m = decode_matcher(&cfg, v.fld(1));
    let heap = v.fld(2).opt().map(|h| h.us());
    let mmap = v.fld(3).b();
    let mut sb = searcher_builder(&cfg);
    sb.heap_limit(heap);
    sb.memory_map(if mmap { unsafe { MmapChoice::auto() } } else { MmapChoice::never() });
    let mut searcher = sb.build();
    if !searcher.multi_line_with_matcher(&m) {
        return Val::L(vec![Val::N(9)]);
    }
    let dir = std::env::temp_dir().join(format!("verif-c02ml-{}", std::process::id()));
    let _ = std::fs::create_dir_all(&dir);
    let mut out = vec![];
    for (i, src) in v.fld(4).list().iter().enumerate() {
        let tag = src.fld(0).n();
        let input = src.fld(1).bytes();
        let mut sink = LogSink::new(decode_reply(src.fld(3)));
        let rooms = std::rc::Rc::new(std::cell::RefCell::new(vec![]));
        let r = match tag {
            1 => {
                let rdr = RoomRecorder { inner: ScriptedReader { rest: input, at: 0, hist: decode_hist(src.fld(2)) }, rooms: rooms.clone() };
                searcher.search_reader(&m, rdr, &mut sink)
            }
            3 => {
                assert!(!mmap, "kind 207: a file source needs a Searcher without memory maps");
                let p = dir.join(format!("f{}", i));
                { let mut f = std::fs::File::create(&p).unwrap(); f.write_all(&input).unwrap(); }
                let f = std::fs::File::open(&p).unwrap();
                let r = searcher.search_file(&m, &f, &mut sink);
                let _ = std::fs::remove_file(&p);
                r
            }
            _ => panic!("kind 207: unknown source tag"),
        };
        let errkind = match r {
            Ok(()) => 0,
            Err(ref e) => {
                let msg = e.to_string();
                if msg.contains("sink failure") { 0 }
                else if msg.contains("line terminator") || msg.contains("no available searchers") { 1 }
                else if msg.contains("configured allocation limit") { 2 }
                else if msg.contains("read failure") { 3 }
                else { 4 }
            }
        };
        let status = if r.is_ok() { 0 } else { 1 };
        let seen: Vec<Val> = rooms.borrow().iter().map(|&n| Val::of_us(n)).collect();
        out.push(Val::L(vec![Val::N(status), Val::L(sink.events), Val::N(errkind), Val::L(seen)]));
    }
    let _ = std::fs::remove_dir(&dir);
    Val::L(out)
}
