//! C17: transcoding — the real searcher on encoded input (slice, reader with a fragmenting reader and small
//! roll-buffer capacities, file with/without mmap) against the search of the reference UTF-8 transcoding
//! computed with encoding_rs directly; and the encoding_rs UTF-16 decoders fed chunk by chunk.
use crate::c14::{dec_hist, FragReader, RecSink};
use crate::val::Val;
use grep_searcher::{BinaryDetection, Encoding, MmapChoice, SearcherBuilder};
use std::io::Write;

/// kinds served by this module
pub fn dispatch(kind: u32, v: &Val) -> Option<Val> {
    match kind {
        1701 => Some(run_decoder(v)),
        1702 => Some(run_search(v)),
        1704 => Some(run_decoder_label(v)),
        _ => None,
    }
}

/// case: (big_endian chunks); result: (streamed whole) — encoding_rs's UTF-16 decoder with BOM removal
/// fed the chunks one by one, and fed everything at once
fn run_decoder(v: &Val) -> Val {
    let enc = if v.fld(0).b() { encoding_rs::UTF_16BE } else { encoding_rs::UTF_16LE };
    let chunks: Vec<Vec<u8>> = v.fld(1).list().iter().map(|c| c.bytes()).collect();
    let feed = |parts: &[Vec<u8>]| -> Vec<u8> {
        let mut dec = enc.new_decoder_with_bom_removal();
        let mut out = vec![];
        for (i, p) in parts.iter().enumerate() {
            let last = i + 1 == parts.len();
            let mut pos = 0;
            loop {
                let mut dst = [0u8; 16];
                let (res, nin, nout, _) = dec.decode_to_utf8(&p[pos..], &mut dst, last);
                pos += nin;
                out.extend_from_slice(&dst[..nout]);
                if res == encoding_rs::CoderResult::InputEmpty { break; }
            }
        }
        if parts.is_empty() {
            let mut dst = [0u8; 16];
            let (_, _, nout, _) = dec.decode_to_utf8(&[], &mut dst, true);
            out.extend_from_slice(&dst[..nout]);
        }
        out
    };
    let whole: Vec<u8> = chunks.concat();
    Val::L(vec![Val::of_bytes(&feed(&chunks)), Val::of_bytes(&feed(&[whole]))])
}

/// case: (label chunks); result: (streamed whole) — any encoding_rs decoder fed the chunks (last = false), then
/// flushed with an empty last chunk the way encoding_rs_io does; and `decode_without_bom_handling` of the whole
fn run_decoder_label(v: &Val) -> Val {
    let enc = encoding_rs::Encoding::for_label(label_name(v.fld(0).us()).as_bytes()).unwrap();
    let chunks: Vec<Vec<u8>> = v.fld(1).list().iter().map(|c| c.bytes()).collect();
    let mut dec = if v.fld(2).b() { enc.new_decoder_with_bom_removal() } else { enc.new_decoder_without_bom_handling() };
    let mut out = vec![];
    for p in chunks.iter() {
        let mut pos = 0;
        loop {
            let mut dst = [0u8; 16];
            let (res, nin, nout, _) = dec.decode_to_utf8(&p[pos..], &mut dst, false);
            pos += nin;
            out.extend_from_slice(&dst[..nout]);
            if res == encoding_rs::CoderResult::InputEmpty { break; }
        }
    }
    let mut dst = [0u8; 16];
    let (_, _, nout, _) = dec.decode_to_utf8(&[], &mut dst, true);
    out.extend_from_slice(&dst[..nout]);
    let whole: Vec<u8> = chunks.concat();
    let w = enc.decode_without_bom_handling(&whole).0.into_owned().into_bytes();
    Val::L(vec![Val::of_bytes(&out), Val::of_bytes(&w)])
}

fn label_name(id: usize) -> &'static str {
    match id { 0 => "utf-8", 1 => "utf-16le", 2 => "utf-16be", 3 => "latin1", _ => "shift_jis" }
}

/// the property's reference: the mark (if any) decides, else the label, else untouched; malformed -> U+FFFD
fn reference(mode: usize, label: usize, input: &[u8]) -> Vec<u8> {
    if mode == 2 { return input.to_vec(); }
    let (enc, rest) = match encoding_rs::Encoding::for_bom(input) {
        Some((e, n)) => (Some(e), &input[n..]),
        None => (if mode == 1 { encoding_rs::Encoding::for_label(label_name(label).as_bytes()) } else { None }, input),
    };
    match enc {
        None => rest.to_vec(),
        Some(e) => e.decode_without_bom_handling(rest).0.into_owned().into_bytes(),
    }
}

/// case: (mode label input hist strategy capacity needle tmpdir)
///   mode 0 auto, 1 explicit label, 2 none; strategy 0 slice, 1 reader, 2 file+mmap, 3 file without mmap
/// result: (searched reference events_encoded events_reference status)
fn run_search(v: &Val) -> Val {
    let mode = v.fld(0).us();
    let label = v.fld(1).us();
    let input = v.fld(2).bytes();
    let hist = dec_hist(v.fld(3));
    let strategy = v.fld(4).us();
    let capacity = v.fld(5).us();
    let needle = String::from_utf8(v.fld(6).bytes()).unwrap_or_default();
    let tmp = String::from_utf8(v.fld(7).bytes()).unwrap_or_default();

    // strategies 4..7: the same four entry points with multi-line search and patterns that can match the
    // terminator (MultiLine over the whole transcoded input; files go through fill_multi_line_buffer_from_file)
    let ml = strategy >= 4;
    let strategy = strategy % 4;
    let opts = crate::rgcfg::RgOpts { fixed: !ml, text: true, multiline: ml, dotall: false, ..Default::default() };
    let all = crate::rgcfg::matcher(&[if ml { String::from("(?s-u:.+)") } else { String::new() }], &opts).unwrap();
    let pat = if ml {
        crate::rgcfg::matcher(&[String::from("(?s)a.b|\\n")], &opts).unwrap()
    } else {
        crate::rgcfg::matcher(&[needle], &opts).unwrap()
    };
    let build = |encoded: bool| {
        let mut sb = SearcherBuilder::new();
        sb.line_number(false).multi_line(ml).binary_detection(BinaryDetection::none()).verif_buffer_capacity(Some(capacity));
        if encoded {
            match mode {
                1 => { sb.encoding(Some(Encoding::new(label_name(label)).unwrap())); }
                2 => { sb.bom_sniffing(false); }
                _ => {}
            }
            if strategy == 2 { sb.memory_map(unsafe { MmapChoice::auto() }); }
        } else {
            sb.bom_sniffing(false);
        }
        sb.build()
    };
    let mut status = 0u128;
    let mut run_enc = |m: &grep_regex::RegexMatcher| -> Vec<Val> {
        let mut rec = RecSink { events: vec![], calls: 0, stop: None, bin_reply: true };
        let res = match strategy {
            0 => build(true).search_slice(m, &input, &mut rec),
            1 => build(true).search_reader(m, FragReader { data: input.clone(), pos: 0, hist: hist.clone(), next: 0 }, &mut rec),
            _ => {
                let path = format!("{}/c17-{}.bin", tmp, std::process::id());
                std::fs::File::create(&path).and_then(|mut f| f.write_all(&input)).unwrap();
                let r = build(true).search_path(m, &path, &mut rec);
                let _ = std::fs::remove_file(&path);
                r
            }
        };
        if res.is_err() { status = 1; }
        rec.events
    };
    let ev_all = run_enc(&all);
    let ev_pat = run_enc(&pat);
    let mut searched = vec![];
    for e in &ev_all {
        if e.fld(0).n() == 1 { searched.extend_from_slice(&e.fld(2).bytes()); }
    }
    let reference = reference(mode, label, &input);
    let mut rec = RecSink { events: vec![], calls: 0, stop: None, bin_reply: true };
    let _ = build(false).search_slice(&pat, &reference, &mut rec);
    Val::L(vec![Val::of_bytes(&searched), Val::of_bytes(&reference), Val::L(ev_pat), Val::L(rec.events), Val::N(status)])
}
