#!/usr/bin/env python3
"""anchors.py — anchor drift detection (DESIGN §4.3).  Directs the search; asserts nothing.

For every property the Rust files named in properties.jsonl `anchors.files` are cut into items (every `fn`, keyed
`file::Owner::name` where Owner is the enclosing `impl`/`trait`/`mod`, `#k` appended for repeated keys; plus one
item `file::<rest>` for everything that is not inside a function body: constants, struct/enum definitions,
attributes).  Comments and white space are dropped, `#[cfg(test)] mod … { … }` blocks are dropped, the remaining
tokens are hashed.  `anchors.json` (committed) holds the hashes of the tree the models were validated against.

  python3 tools/anchors.py --update     rewrite anchors.json from /repo's working tree (after a fix:/hook commit)
  python3 tools/anchors.py [Cxx]        print the items of Cxx (or of all properties) that differ from anchors.json

`drift(pid)` is what ./check calls: the list of changed / new / vanished items of the property's files.  A
non-empty list is NOT a violation.  It is written to the evidence file (`coverage.anchor_drift`) and multiplies
the quick tier's case budget (`Ctx.count`) by DRIFT_FACTOR, so that an edited function is met by a larger
correspondence run than the unchanged tree gets.
"""
import hashlib
import json
import os
import re
import sys

ROOT = os.path.dirname(os.path.dirname(os.path.abspath(__file__)))
REPO = os.environ.get("VERIF_REPO", "/repo")
BASE = os.path.join(ROOT, "anchors.json")
DRIFT_FACTOR = 3

TOK = re.compile(r"""
    (?P<ws>\s+)
  | (?P<lcomment>//[^\n]*)
  | (?P<bcomment>/\*.*?\*/)
  | (?P<rawstr>b?r(?P<h>\#*)".*?"(?P=h))
  | (?P<byte>b'(?:\\x[0-9a-fA-F]{2}|\\.|[^'\\])')
  | (?P<str>b?"(?:\\.|[^"\\])*")
  | (?P<life>'[A-Za-z_][A-Za-z0-9_]*(?!'))
  | (?P<chr>'(?:\\u\{[0-9a-fA-F]+\}|\\.|[^'\\])')
  | (?P<word>[A-Za-z_0-9][A-Za-z0-9_]*)
  | (?P<op>.)
""", re.X | re.S)


def tokens(src):
    out = []
    for m in TOK.finditer(src):
        if m.lastgroup not in ("ws", "lcomment", "bcomment"):
            out.append(m.group(0))
    return out


def close(toks, i):
    depth = 0
    for j in range(i, len(toks)):
        if toks[j] == "{":
            depth += 1
        elif toks[j] == "}":
            depth -= 1
            if depth == 0:
                return j
    return len(toks) - 1


def drop_test_mods(toks):
    """remove `# [ cfg ( test ) ] mod name { ... }`"""
    out = []
    i = 0
    pat = ["#", "[", "cfg", "(", "test", ")", "]", "mod"]
    while i < len(toks):
        if toks[i:i + 8] == pat and i + 9 < len(toks) and toks[i + 9] == "{":
            i = close(toks, i + 9) + 1
            continue
        out.append(toks[i])
        i += 1
    return out


def items(src):
    """{key: hash} for one file"""
    toks = drop_test_mods(tokens(src))
    res = {}
    rest = []

    def add(key, body):
        k = key
        n = 1
        while k in res:
            n += 1
            k = "%s#%d" % (key, n)
        res[k] = hashlib.sha1("\x00".join(body).encode("utf-8", "replace")).hexdigest()[:12]

    def walk(lo, hi, owner):
        i = lo
        while i < hi:
            t = toks[i]
            if t in ("impl", "trait", "mod") and (i == lo or toks[i - 1] not in (".", "::")):
                j = i + 1
                while j < hi and toks[j] not in ("{", ";"):
                    j += 1
                if j < hi and toks[j] == "{":
                    head = toks[i + 1:j]
                    # name: for `impl<..> Trait for Type<..>` use Type; else first identifier after generics
                    name = None
                    if "for" in head and t == "impl":
                        k = len(head) - 1 - head[::-1].index("for")
                        cand = [x for x in head[k + 1:] if re.match(r"[A-Za-z_]\w*$", x) and x not in ("dyn", "mut")]
                        tr = [x for x in head[:k] if re.match(r"[A-Z]\w*$", x)]
                        name = (cand[0] if cand else "?") + "@" + (tr[-1] if tr else "?")
                    else:
                        depth = 0
                        for x in head:
                            if x == "<":
                                depth += 1
                            elif x == ">":
                                depth -= 1
                            elif depth == 0 and re.match(r"[A-Za-z_]\w*$", x) and x not in ("where",):
                                name = x
                                break
                    e = close(toks, j)
                    rest.extend(toks[i:j + 1])
                    walk(j + 1, e, (owner + "::" if owner else "") + (name or "?"))
                    rest.append("}")
                    i = e + 1
                    continue
            if t == "fn" and i + 1 < hi and re.match(r"[A-Za-z_]\w*$", toks[i + 1]):
                j = i + 2
                depth = 0
                while j < hi:
                    if toks[j] in ("(", "[", "<") and not (toks[j] == "<" and toks[j - 1] == "-"):
                        depth += 1 if toks[j] != "<" else 0
                    elif toks[j] in (")", "]"):
                        depth -= 1
                    elif depth == 0 and toks[j] in ("{", ";"):
                        break
                    j += 1
                if j < hi and toks[j] == "{":
                    e = close(toks, j)
                    add((owner + "::" if owner else "") + toks[i + 1], toks[i:e + 1])
                    i = e + 1
                    continue
                add((owner + "::" if owner else "") + toks[i + 1], toks[i:j + 1])
                i = j + 1
                continue
            rest.append(t)
            i += 1

    walk(0, len(toks), "")
    res["<rest>"] = hashlib.sha1("\x00".join(rest).encode("utf-8", "replace")).hexdigest()[:12]
    return res


def prop_files():
    out = {}
    for line in open(os.path.join(ROOT, "properties.jsonl")):
        d = json.loads(line)
        out[d["id"]] = list(d.get("anchors", {}).get("files", []))
    return out


def snapshot(files):
    snap = {}
    for f in sorted(set(files)):
        p = os.path.join(REPO, f)
        try:
            src = open(p, encoding="utf-8", errors="replace").read()
        except OSError:
            snap[f] = None
            continue
        snap[f] = items(src)
    return snap


def drift(pid):
    """list of 'file::item (changed|new|gone)' for the files anchoring property pid; [] when anchors.json is absent"""
    try:
        base = json.load(open(BASE))
    except (OSError, ValueError):
        return ["anchors.json unreadable"]
    files = prop_files().get(pid, [])
    cur = snapshot(files)
    out = []
    for f in files:
        b = base.get(f)
        c = cur.get(f)
        if b is None and c is None:
            continue
        if b is None or c is None:
            out.append("%s (%s)" % (f, "new file" if b is None else "file gone"))
            continue
        for k in sorted(set(b) | set(c)):
            if k not in c:
                out.append("%s::%s (gone)" % (f, k))
            elif k not in b:
                out.append("%s::%s (new)" % (f, k))
            elif b[k] != c[k]:
                out.append("%s::%s (changed)" % (f, k))
    return out


def main():
    args = sys.argv[1:]
    pf = prop_files()
    if args and args[0] == "--update":
        allf = sorted({f for fs in pf.values() for f in fs})
        snap = snapshot(allf)
        open(BASE, "w").write(json.dumps(snap, indent=0, sort_keys=True) + "\n")
        print("anchors.json: %d files, %d items" % (len(snap), sum(len(v or {}) for v in snap.values())))
        return 0
    for pid in (args or sorted(pf)):
        for d in drift(pid):
            print(pid, d)
    return 0


if __name__ == "__main__":
    sys.exit(main())
