#!/bin/bash
ROOT=${VERIF_ROOT:-$(cd "$(dirname "$0")/.." && pwd)}
# usage: coqgoal.sh theories/X/F.v LINE  -- show the proof state just before LINE (1-based)
f=$1; n=$2
tmp=$ROOT/.cache/goal_$$.v
head -n $((n-1)) $ROOT/coq/$f > $tmp
echo "Show. Abort All." >> $tmp
cd $ROOT/coq && timeout 120 coqc -Q theories RG $tmp 2>&1 | grep -v '^File\|^Error: .*Abort\|nothing to abort' | head -${3:-80}
rm -f $tmp $ROOT/.cache/goal_$$.{vo,vok,vos,glob} $ROOT/.cache/.goal_$$.aux
