#!/bin/bash
# usage: coqgoal.sh theories/X/F.v LINE  -- show the proof state just before LINE (1-based)
f=$1; n=$2
tmp=/verif/.cache/goal_$$.v
head -n $((n-1)) /verif/coq/$f > $tmp
echo "Show. Abort All." >> $tmp
cd /verif/coq && timeout 120 coqc -Q theories RG $tmp 2>&1 | grep -v '^File\|^Error: .*Abort\|nothing to abort' | head -${3:-80}
rm -f $tmp /verif/.cache/goal_$$.{vo,vok,vos,glob} /verif/.cache/.goal_$$.aux
