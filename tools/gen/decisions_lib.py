"""decisions_lib.py — regenerates coq/theories/Gen/DecisionsLib.v: the pure decision functions of the LIBRARY crates
(crates/searcher, crates/printer, crates/ignore), translated from the CURRENT source text by tools/gen/rsexpr.py
(DESIGN §4.2).  Same structure as decisions_cli.py:

    Definition <name> <params> : <type> := <translated body>.         (* translated = true  *)
    Definition <name> <params> : <type> := <name>_expected <params>.   (* translated = false: fallback to the
                                                                          hand-written copy of Model/LibExpected.v *)
and the status file .cache/gen/decisions_lib.json.  Proofs/GenLibProofs.v proves `<name>_generated_eq_model`
(generated = the model definition the theorems of C01/C02/C03/C10/C14/C16/C06 are about); the owning checks call
vlib.report_gen_drift: a fallback is a broken tie (VIOLATION ... no-failing-input-found).

Every argument of a generated definition is one struct field or one method result the Rust function reads (`atoms`
below); a read of anything else makes the translation fail.
"""
import hashlib
import json
import os

from gen import rsexpr as R
from gen.rsexpr import Spec, TranslateError, Translator
from gen.decisions_cli import comment_safe, param_names, wrap

ENUMS = {
    "SummaryKind": ("crates/printer/src/summary.rs",
                    [("Count", None), ("CountMatches", None), ("PathWithMatch", None), ("PathWithoutMatch", None),
                     ("Quiet", None)]),
}

# summary.rs matches on the bare variant names (`use self::SummaryKind::*;`)
CTORS = {}
for _v, _g in (("Count", "KCount"), ("CountMatches", "KCountMatches"), ("PathWithMatch", "KPathWithMatch"),
               ("PathWithoutMatch", "KPathWithoutMatch"), ("Quiet", "KQuiet")):
    CTORS[_v] = (_g, None, "skind")
    CTORS["SummaryKind::" + _v] = (_g, None, "skind")


def m_as_byte(recv, args):
    if recv[1] != "lineterm" or args:
        raise TranslateError(".as_byte() on a value of type %s" % recv[1])
    return "(lt_byte %s)" % recv[0], "N"


def m_contains(recv, args):
    if recv[1] != "byteset" or len(args) != 1 or args[0][1] != "N":
        raise TranslateError(".contains on a value of type %s" % recv[1])
    return "(%s %s)" % (recv[0], args[0][0]), "bool"


def c_max(args):
    if len(args) != 2 or args[0][1] != "nat" or args[1][1] != "nat":
        raise TranslateError("cmp::max at a type other than nat")
    return "(Nat.max %s %s)" % (args[0][0], args[1][0]), "nat"


def spec(**kw):
    kw.setdefault("ctors", CTORS)
    kw.setdefault("ignorable", R.IGNORABLE_DEFAULT)
    kw.setdefault("eqs", {"lineterm": "lt_eqb"})
    kw.setdefault("methods", {"as_byte": m_as_byte, "contains": m_contains})
    return Spec(**kw)


def fn_body(src, fn, impl, sp, want, free=False):
    toks = R.tokenize(src)
    if free:
        b_lo, b_hi = R.find_fn(toks, fn, 0, len(toks), free=True)
        fake, blk = R.parse_block(toks, b_lo, b_hi)
    else:
        lo, hi = find_impl_with_fn(toks, impl, fn)
        b_lo, b_hi = R.find_fn(toks, fn, lo, hi)
        fake, blk = R.parse_block(toks, b_lo, b_hi)
    term, ty = Translator(fake, sp).block_(blk, {}, tail=True)
    if ty != want:
        raise TranslateError("%s has type %s, expected %s" % (fn, ty, want))
    return term, R.norm(fake[blk.lo + 1:blk.hi - 1])


def t_is_line_by_line_fast(src):
    sp = spec(atoms={"self.config.passthru": ("passthru", "bool"),
                     "self.config.stop_on_nonmatch": ("stop_on_nonmatch", "bool"),
                     "self.has_matched": ("has_matched", "bool"),
                     "self.matcher.line_terminator()": ("matcher_line_term", "option lineterm"),
                     "self.config.line_term": ("line_term", "lineterm"),
                     "self.matcher.non_matching_bytes()": ("non_matching", "option byteset")})
    return fn_body(src, "is_line_by_line_fast", "Core", sp, "bool")


def t_max_context(src):
    sp = spec(atoms={"self.before_context": ("before_context", "nat"), "self.after_context": ("after_context", "nat")},
              calls={"cmp::max": c_max, "std::cmp::max": c_max})
    return fn_body(src, "max_context", "Config", sp, "nat")


def t_multi_line_with_matcher(src):
    toks = R.tokenize(src)
    # the two accessors used must still be plain field reads
    for fn, want in (("multi_line", "self.config.multi_line"), ("line_terminator", "self.config.line_term")):
        lo, hi = find_impl_with_fn(toks, "Searcher", fn)
        b_lo, b_hi = R.find_fn(toks, fn, lo, hi)
        if R.norm(toks[b_lo:b_hi]) != want:
            raise TranslateError("Searcher::%s is no longer `%s`" % (fn, want))
    lo, hi = find_impl_with_fn(toks, "Searcher", "multi_line_with_matcher")
    b_lo, b_hi = R.find_fn(toks, "multi_line_with_matcher", lo, hi)
    fake, blk = R.parse_block(toks, b_lo, b_hi)
    sp = spec(atoms={"self.multi_line()": ("multi_line", "bool"),
                     "matcher.line_terminator()": ("matcher_line_term", "option lineterm"),
                     "self.line_terminator()": ("line_term", "lineterm"),
                     "matcher.non_matching_bytes()": ("non_matching", "option byteset")})
    term, ty = Translator(fake, sp).block_(blk, {}, tail=True)
    if ty != "bool":
        raise TranslateError("multi_line_with_matcher has type %s" % ty)
    return term, R.norm(fake[blk.lo + 1:blk.hi - 1])


def find_impl_with_fn(toks, name, fn):
    """token range of the body of the inherent `impl name` block that defines `fn` (a type may have several)"""
    i = 0
    last = None
    while True:
        try:
            lo, hi = R.find_impl(toks[i:], name)
        except TranslateError:
            break
        lo, hi = lo + i, hi + i
        try:
            R.find_fn(toks, fn, lo, hi)
            return lo, hi
        except TranslateError as e:
            last = e
        i = hi + 1
    raise TranslateError("fn %s::%s not found (%s)" % (name, fn, last))


def t_slice_needs_transcoding(src):
    toks = R.tokenize(src)
    lo, hi = find_impl_with_fn(toks, "Searcher", "slice_needs_transcoding")
    b_lo, b_hi = R.find_fn(toks, "slice_needs_transcoding", lo, hi)
    fake, blk = R.parse_block(toks, b_lo, b_hi)
    sp = spec(atoms={"self.config.encoding.is_some()": ("encoding_is_some", "bool"),
                     "self.config.bom_sniffing": ("bom_sniffing", "bool"),
                     "slice_has_bom(slice)": ("slice_has_bom", "bool")})
    term, ty = Translator(fake, sp).block_(blk, {}, tail=True)
    if ty != "bool":
        raise TranslateError("slice_needs_transcoding has type %s" % ty)
    return term, R.norm(fake[blk.lo + 1:blk.hi - 1])


def kind_fn(fn):
    def t(src):
        sp = spec(atoms={"*self": ("k", "skind"), "self": ("k", "skind")})
        return fn_body(src, fn, "SummaryKind", sp, "bool")
    return t


def t_summary_should_quit(src):
    sp = spec(atoms={"self.summary.config.max_matches": ("max_matches", "option nat"),
                     "self.match_count": ("match_count", "nat")})
    toks = R.tokenize(src)
    lo, hi = find_impl_with_fn(toks, "SummarySink", "should_quit")
    return body_in(toks, lo, hi, "should_quit", sp, "bool")


def body_in(toks, lo, hi, fn, sp, want):
    b_lo, b_hi = R.find_fn(toks, fn, lo, hi)
    fake, blk = R.parse_block(toks, b_lo, b_hi)
    term, ty = Translator(fake, sp).block_(blk, {}, tail=True)
    if ty != want:
        raise TranslateError("%s has type %s, expected %s" % (fn, ty, want))
    return term, R.norm(fake[blk.lo + 1:blk.hi - 1])


def std_fn(fn):
    def t(src):
        sp = spec(atoms={"self.standard.config.max_matches": ("max_matches", "option nat"),
                         "self.match_count": ("match_count", "nat"),
                         "self.after_context_remaining": ("after_context_remaining", "nat")})
        toks = R.tokenize(src)
        lo, hi = find_impl_with_fn(toks, "StandardSink", fn)
        return body_in(toks, lo, hi, fn, sp, "bool")
    return t


def t_should_binary_quit(src):
    sp = spec(atoms={"self.rdr.binary_byte_offset().is_some()": ("binary_offset_is_some", "bool"),
                     "self.config.binary.quit_byte().is_some()": ("quit_byte_is_some", "bool")})
    toks = R.tokenize(src)
    lo, hi = find_impl_with_fn(toks, "ReadByLine", "should_binary_quit")
    return body_in(toks, lo, hi, "should_binary_quit", sp, "bool")


def t_should_skip_entry(src):
    sp = spec(atoms={"ig.matched_dir_entry(dent)": ("m", "match3"),
                     "m.is_ignore()": ("is_ignore", "bool"), "m.is_whitelist()": ("is_whitelist", "bool")})
    toks = R.tokenize(src)
    b_lo, b_hi = R.find_fn(toks, "should_skip_entry", 0, len(toks), free=True)
    fake, blk = R.parse_block(toks, b_lo, b_hi)
    stmts, tl = blk.a
    # `let m = ig.matched_dir_entry(dent);` then the three-way `if`
    if len(stmts) != 1 or stmts[0].kind != "let" or R.norm(fake[stmts[0].lo:stmts[0].hi]) != \
            "let m=ig.matched_dir_entry(dent);" or tl is None:
        raise TranslateError("should_skip_entry: expected `let m = ig.matched_dir_entry(dent); if ..`")
    term, ty = Translator(fake, sp).tail(tl, {})
    if ty != "bool":
        raise TranslateError("should_skip_entry has type %s" % ty)
    return term, R.norm(fake[blk.lo + 1:blk.hi - 1])


def m_len(recv, args):
    if recv[1] != "N" or args:
        raise TranslateError(".len() on a value of type %s" % recv[1])
    return recv          # the metadata is represented by its len()


def t_skip_filesize(src):
    sp = spec(atoms={"*ent": ("md_len", "option N"), "max_filesize": ("max_filesize", "N")},
              methods={"len": m_len})
    toks = R.tokenize(src)
    b_lo, b_hi = R.find_fn(toks, "skip_filesize", 0, len(toks), free=True)
    fake, blk = R.parse_block(toks, b_lo, b_hi)
    term, ty = Translator(fake, sp).block_(blk, {}, tail=True)
    if ty != "bool":
        raise TranslateError("skip_filesize has type %s" % ty)
    return term, R.norm(fake[blk.lo + 1:blk.hi - 1])


def json_fn(fn):
    def t(src):
        sp = spec(atoms={"self.json.config.max_matches": ("max_matches", "option nat"),
                         "self.match_count": ("match_count", "nat"),
                         "self.after_context_remaining": ("after_context_remaining", "nat")})
        toks = R.tokenize(src)
        lo, hi = find_impl_with_fn(toks, "JSONSink", fn)
        return body_in(toks, lo, hi, fn, sp, "bool")
    return t


WALK_CTORS = dict(CTORS)
WALK_CTORS["Filter"] = ("FilterBox", "bool", "filter_box")
SKIP_FILESIZE_CALL = "skip_filesize(self.max_filesize.unwrap(), %s.path(), &%s.metadata().ok(),)"
SKIP_FILESIZE_CALL1 = "skip_filesize(self.max_filesize.unwrap(), %s.path(), &%s.metadata().ok())"


def ident1(args):
    if len(args) != 1:
        raise TranslateError("wrapper call with %d arguments" % len(args))
    return args[0]


def t_skip_entry(src):
    sp = spec(ctors=WALK_CTORS, calls={"Ok": ident1},
              atoms={"ent.depth()": ("depth", "nat"), "should_skip_entry(&self.ig, ent)": ("should_skip", "bool"),
                     "self.skip": ("skip", "option unit"), "path_equals(ent, stdout)?": ("path_equals", "bool"),
                     "self.max_filesize.is_some()": ("max_filesize_is_some", "bool"), "ent.is_dir()": ("is_dir", "bool"),
                     SKIP_FILESIZE_CALL % ("ent", "ent"): ("skip_filesize_verdict", "bool"),
                     SKIP_FILESIZE_CALL1 % ("ent", "ent"): ("skip_filesize_verdict", "bool"),
                     "&self.filter": ("filter", "option filter_box"), "filter(ent)": ("v_filter", "bool")})
    toks = R.tokenize(src)
    lo, hi = find_impl_with_fn(toks, "Walk", "skip_entry")
    return body_in(toks, lo, hi, "skip_entry", sp, "bool")


def gw_let(name, want_params):
    """the right-hand side of `let <name> = ..;` directly inside Worker::generate_work"""
    def t(src):
        sp = spec(ctors=WALK_CTORS,
                  atoms={"self.max_filesize.is_some()": ("max_filesize_is_some", "bool"),
                         "dent.is_dir()": ("is_dir", "bool"),
                         SKIP_FILESIZE_CALL % ("dent", "dent"): ("skip_filesize_verdict", "bool"),
                         SKIP_FILESIZE_CALL1 % ("dent", "dent"): ("skip_filesize_verdict", "bool"),
                         "&self.filter": ("filter", "option filter_box"), "predicate(&dent)": ("v_predicate", "bool")})
        toks = R.tokenize(src)
        lo, hi = find_impl_with_fn(toks, "Worker", "generate_work")
        b_lo, b_hi = R.find_fn(toks, "generate_work", lo, hi)
        fake, rhs = R.find_let_rhs(toks, b_lo, b_hi, name)
        term, ty = Translator(fake, sp).expr(rhs, {})
        if ty != "bool":
            raise TranslateError("%s has type %s" % (name, ty))
        return term, R.norm(fake[rhs.lo:rhs.hi])
    return t


def t_par_send(src):
    """is `self.send(Work {..})` executed: the only statement-`if` of generate_work that mentions self.send"""
    import re
    toks = R.tokenize(src)
    lo, hi = find_impl_with_fn(toks, "Worker", "generate_work")
    b_lo, b_hi = R.find_fn(toks, "generate_work", lo, hi)
    fake, blk = R.parse_block(toks, b_lo, b_hi)
    sp = spec(atoms={"should_skip_filesize": ("should_skip_filesize", "bool"),
                     "should_skip_filtered": ("should_skip_filtered", "bool")})
    tr = Translator(fake, sp)
    found = [s for s in blk.a[0] if "self.send(" in R.norm(fake[s.lo:s.hi])]
    if blk.a[1] is not None and "self.send(" in R.norm(fake[blk.a[1].lo:blk.a[1].hi]):
        raise TranslateError("self.send in the tail expression")
    if len(found) != 1 or not (found[0].kind == "expr" and found[0].a.kind == "if"):
        raise TranslateError("self.send(..) is not in exactly one `if` statement of generate_work")
    return tr.reach_if(found[0].a, re.compile(r"^self\.send\("), {}), R.norm(fake[found[0].lo:found[0].hi])


BIN_CTORS = {"BinaryDetection::Quit": ("BQuit", "N", "bin_mode"), "BinaryDetection::Convert": ("BConvert", "N", "bin_mode"),
             "BinaryDetection::None": ("BNone", None, "bin_mode")}


def t_detect_binary(src):
    """the RETURN VALUE of Core::detect_binary as a function of what it reads; the update of binary_byte_offset is
    skipped (no effect on the value), `self.binary_data(..)?` stands for its Ok value"""
    def m_find_byte(recv, args):
        if recv[1] != "haystack" or len(args) != 1 or args[0][1] != "N":
            raise TranslateError(".find_byte on %s" % recv[1])
        return "(%s %s)" % (recv[0], args[0][0]), "option nat"

    def m_binary_data(recv, args):
        if recv[1] != "core" or len(args) != 1 or args[0][1] != "nat":
            raise TranslateError(".binary_data on %s" % recv[1])
        return "(binary_data %s)" % args[0][0], "bool"

    sp = spec(ctors=BIN_CTORS, calls={"Ok": ident1}, try_transparent=True,
              ignorable=R.IGNORABLE_DEFAULT + [r"^self\.binary_byte_offset=Some\(offset\)$"],
              methods={"find_byte": m_find_byte, "binary_data": m_binary_data},
              atoms={"self.binary_byte_offset.is_some()": ("offset_is_some", "bool"),
                     "self.config.binary.quit_byte().is_some()": ("quit_byte_is_some", "bool"),
                     "self.config.binary.0": ("mode", "bin_mode"), "buf[*range]": ("find_byte", "haystack"),
                     "range.start()": ("range_start", "nat"), "self": ("tt", "core")})
    toks = R.tokenize(src)
    lo, hi = find_impl_with_fn(toks, "Core", "detect_binary")
    return body_in(toks, lo, hi, "detect_binary", sp, "bool")


TARGETS = [
    # name, params, type, file, translator, enums
    ("is_line_by_line_fast", "(passthru stop_on_nonmatch has_matched : bool) (matcher_line_term : option lineterm) "
     "(line_term : lineterm) (non_matching : option (byte -> bool))", "bool",
     "crates/searcher/src/searcher/core.rs", t_is_line_by_line_fast, []),
    ("max_context", "(before_context after_context : nat)", "nat", "crates/searcher/src/searcher/mod.rs",
     t_max_context, []),
    ("multi_line_with_matcher", "(multi_line : bool) (matcher_line_term : option lineterm) (line_term : lineterm) "
     "(non_matching : option (byte -> bool))", "bool", "crates/searcher/src/searcher/mod.rs",
     t_multi_line_with_matcher, []),
    ("slice_needs_transcoding", "(encoding_is_some bom_sniffing slice_has_bom : bool)", "bool",
     "crates/searcher/src/searcher/mod.rs", t_slice_needs_transcoding, []),
    ("should_binary_quit", "(binary_offset_is_some quit_byte_is_some : bool)", "bool",
     "crates/searcher/src/searcher/glue.rs", t_should_binary_quit, []),
    ("detect_binary_result", "(offset_is_some quit_byte_is_some : bool) (mode : bin_mode) (range_start : nat) "
     "(find_byte : byte -> option nat) (binary_data : nat -> bool)", "bool", "crates/searcher/src/searcher/core.rs",
     t_detect_binary, []),
    ("requires_path", "(k : skind)", "bool", "crates/printer/src/summary.rs", kind_fn("requires_path"), ["SummaryKind"]),
    ("requires_stats", "(k : skind)", "bool", "crates/printer/src/summary.rs", kind_fn("requires_stats"),
     ["SummaryKind"]),
    ("quit_early", "(k : skind)", "bool", "crates/printer/src/summary.rs", kind_fn("quit_early"), ["SummaryKind"]),
    ("summary_should_quit", "(max_matches : option nat) (match_count : nat)", "bool", "crates/printer/src/summary.rs",
     t_summary_should_quit, []),
    ("standard_should_quit", "(max_matches : option nat) (match_count after_context_remaining : nat)", "bool",
     "crates/printer/src/standard.rs", std_fn("should_quit"), []),
    ("match_more_than_limit", "(max_matches : option nat) (match_count : nat)", "bool",
     "crates/printer/src/standard.rs", std_fn("match_more_than_limit"), []),
    ("should_skip_entry", "(is_ignore is_whitelist : bool)", "bool", "crates/ignore/src/walk.rs",
     t_should_skip_entry, []),
    ("json_should_quit", "(max_matches : option nat) (match_count after_context_remaining : nat)", "bool",
     "crates/printer/src/json.rs", json_fn("should_quit"), []),
    ("json_match_more_than_limit", "(max_matches : option nat) (match_count : nat)", "bool",
     "crates/printer/src/json.rs", json_fn("match_more_than_limit"), []),
    ("skip_filesize", "(max_filesize : N) (md_len : option N)", "bool", "crates/ignore/src/walk.rs",
     t_skip_filesize, []),
    ("skip_entry", "(depth : nat) (should_skip : bool) (skip : option unit) (path_equals : bool) "
     "(max_filesize_is_some is_dir skip_filesize_verdict : bool) (filter : option filter_box)", "bool",
     "crates/ignore/src/walk.rs", t_skip_entry, []),
    ("par_should_skip_filesize", "(max_filesize_is_some is_dir skip_filesize_verdict : bool)", "bool",
     "crates/ignore/src/walk.rs", gw_let("should_skip_filesize", None), []),
    ("par_should_skip_filtered", "(filter : option filter_box)", "bool", "crates/ignore/src/walk.rs",
     gw_let("should_skip_filtered", None), []),
    ("par_send", "(should_skip_filesize should_skip_filtered : bool)", "bool", "crates/ignore/src/walk.rs",
     t_par_send, []),
]


def generate(repo, root):
    status = {}
    srcs = {}

    def src(rel):
        if rel not in srcs:
            srcs[rel] = open(os.path.join(repo, rel)).read()
        return srcs[rel]

    enum_problem = {}
    for en, (rel, want) in ENUMS.items():
        try:
            got = R.find_enum(R.tokenize(src(rel)), en)
            if got != want:
                enum_problem[en] = "enum %s changed: %s" % (en, got)
        except (TranslateError, OSError) as e:
            enum_problem[en] = "enum %s: %s" % (en, e)

    out = ["(* GENERATED by tools/gen/decisions_lib.py from the ripgrep working tree — do not edit, not committed.",
           "   One definition per pure decision function of the library crates; `translated` says whether the body",
           "   below is the translation of the current source text (true) or the hand-written fallback of",
           "   Model/LibExpected.v (false). *)",
           "From RG Require Import Base.Bytes Base.LineTerm Model.Summary Model.LineBufferBin Model.LibExpected.",
           "Local Open Scope bool_scope.", ""]
    for name, params, ty, rel, fn, enums in TARGETS:
        ok, msg, text = True, "", ""
        try:
            for en in enums:
                if en in enum_problem:
                    raise TranslateError(enum_problem[en])
            term, text = fn(src(rel))
        except (TranslateError, OSError, IndexError, KeyError, TypeError) as e:
            ok, msg = False, "%s: %s" % (type(e).__name__, e)
        out.append("(* %s  —  %s" % (name, rel))
        if ok:
            out.append("   source: " + wrap(comment_safe(text), 100, "           ") + " *)")
            out.append("Definition %s %s : %s :=\n  %s." % (name, params, ty, wrap(term, 110, "    ")))
        else:
            out.append("   NOT TRANSLATED (%s): falls back to the hand-written copy *)" % comment_safe(msg))
            out.append("Definition %s %s : %s :=\n  %s_expected %s." % (name, params, ty, name,
                                                                      " ".join(param_names(params))))
        out.append("Definition %s_translated : bool := %s.\n" % (name, "true" if ok else "false"))
        status[name] = dict(translated=ok, message=msg, file=rel,
                            source_sha=hashlib.sha1(text.encode()).hexdigest()[:12] if ok else None, source=text)
    body = "\n".join(out) + "\n"
    path = os.path.join(root, "coq", "theories", "Gen", "DecisionsLib.v")
    if not (os.path.exists(path) and open(path).read() == body):
        open(path, "w").write(body)
    sp = os.path.join(root, ".cache", "gen", "decisions_lib.json")
    os.makedirs(os.path.dirname(sp), exist_ok=True)
    open(sp, "w").write(json.dumps(status, indent=1, sort_keys=True))
    bad = [n for n, s in status.items() if not s["translated"]]
    if bad:
        print("decisions_lib: NOT translated (fallback to hand-written copy): " +
              "; ".join("%s [%s]" % (n, status[n]["message"]) for n in bad))
