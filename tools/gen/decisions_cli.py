"""decisions_cli.py — regenerates coq/theories/Gen/DecisionsCli.v: the pure decision expressions of
crates/core/main.rs, crates/core/flags/hiargs.rs, crates/core/search.rs and crates/cli/src/process.rs,
translated from the CURRENT source text by tools/gen/rsexpr.py (DESIGN §4.2).

For every target the generated file contains
    Definition <name> <params> : <type> := <translated body>.        (* translated = true  *)
or, when the translator cannot handle the present text,
    Definition <name> <params> : <type> := <name>_expected <params>.  (* translated = false: fallback *)
and the status file .cache/gen/decisions_cli.json says which, with the translator's message.  The property checks
(C15, C18, C08) read the status file: a fallback is reported as a broken tie (VIOLATION ... no-failing-input-found)
after their search for a failing input came back empty.
"""
import hashlib
import json
import os
import re

from gen import rsexpr as R
from gen.rsexpr import Spec, TranslateError, Translator

# the Gallina enumerations of Model/CliTypes.v and the Rust enums they mirror
ENUMS = {
    "SearchMode": ("crates/core/flags/lowargs.rs",
                   [("Standard", None), ("FilesWithMatches", None), ("FilesWithoutMatch", None), ("Count", None),
                    ("CountMatches", None), ("JSON", None)]),
    "Mode": ("crates/core/flags/lowargs.rs",
             [("Search", "SearchMode"), ("Files", None), ("Types", None), ("Generate", "GenerateMode")]),
    "SortModeKind": ("crates/core/flags/lowargs.rs",
                     [("Path", None), ("LastModified", None), ("LastAccessed", None), ("Created", None)]),
    "BinaryMode": ("crates/core/flags/lowargs.rs", [("Auto", None), ("SearchAndSuppress", None), ("AsText", None)]),
    "ContextMode": ("crates/core/flags/lowargs.rs", [("Passthru", None), ("Limited", "ContextModeLimited")]),
}

CTORS = {
    "Mode::Search": ("MSearch", "search_mode", "mode"),
    "Mode::Files": ("MFiles", None, "mode"),
    "Mode::Types": ("MTypes", None, "mode"),
    "Mode::Generate": ("MGenerate", None, "mode"),
    "SearchMode::Standard": ("SMStandard", None, "search_mode"),
    "SearchMode::FilesWithMatches": ("SMFilesWithMatches", None, "search_mode"),
    "SearchMode::FilesWithoutMatch": ("SMFilesWithoutMatch", None, "search_mode"),
    "SearchMode::Count": ("SMCount", None, "search_mode"),
    "SearchMode::CountMatches": ("SMCountMatches", None, "search_mode"),
    "SearchMode::JSON": ("SMJSON", None, "search_mode"),
    "SortModeKind::Path": ("SKPath", None, "sort_kind"),
    "SortModeKind::LastModified": ("SKLastModified", None, "sort_kind"),
    "SortModeKind::LastAccessed": ("SKLastAccessed", None, "sort_kind"),
    "SortModeKind::Created": ("SKCreated", None, "sort_kind"),
    "BinaryMode::Auto": ("BMAuto", None, "binary_mode"),
    "BinaryMode::SearchAndSuppress": ("BMSearchAndSuppress", None, "binary_mode"),
    "BinaryMode::AsText": ("BMAsText", None, "binary_mode"),
    "ContextMode::Passthru": ("CMPassthru", None, "context_mode"),
    "ContextMode::Limited": ("CMLimited", "pair N N", "context_mode"),
}
FIELDS = {("sort_mode", "reverse"): ("sm_reverse", "bool"), ("sort_mode", "kind"): ("sm_kind", "sort_kind")}


def ident(args):
    if len(args) != 1:
        raise TranslateError("wrapper call with %d arguments" % len(args))
    return args[0]


def m_min(recv, args):
    if recv[1] != "N" or len(args) != 1 or args[0][1] != "N":
        raise TranslateError(".min at a type other than N")
    return "(N.min %s %s)" % (recv[0], args[0][0]), "N"


def m_clone(recv, args):
    return recv


def bd(ctor, nargs):
    def f(args):
        if len(args) != nargs:
            raise TranslateError("BinaryDetection::%s arity" % ctor)
        if nargs == 0:
            return ctor, "bin_det"
        return "(%s %s)" % (ctor, args[0][0]), "bin_det"
    return f


def spec(**kw):
    kw.setdefault("ctors", CTORS)
    kw.setdefault("fields", FIELDS)
    kw.setdefault("ignorable", R.IGNORABLE_DEFAULT)
    return Spec(**kw)


# ----------------------------------------------------------------------------------------------- targets
# each: name, params (gallina text), type, source file, function that returns the gallina body (raises TranslateError)

def t_exit_code(src):
    toks = R.tokenize(src)
    fake, blk = R.fn_block(toks, "run")
    tail = blk.a[1]
    if tail is None:
        raise TranslateError("run has no tail expression")
    sp = spec(atoms={"matched": ("matched", "bool"), "args.quiet()": ("quiet", "bool"),
                     "messages::errored()": ("errored", "bool")},
              calls={"Ok": ident, "ExitCode::from": ident})
    term, ty = Translator(fake, sp).tail(tail, {})
    if ty != "N":
        raise TranslateError("exit status expression has type %s" % ty)
    return term, R.norm(fake[tail.lo:tail.hi])


def t_choose_driver(src):
    toks = R.tokenize(src)
    b_lo, b_hi = R.find_fn(toks, "run")
    fake, rhs = R.find_let_rhs(toks, b_lo, b_hi, "matched")
    sp = spec(atoms={"args.mode()": ("mode", "mode"), "args.matches_possible()": ("matches_possible", "bool"),
                     "args.threads()": ("threads", "N")},
              tail_atoms={"false": "DNone", "search(&args,mode)?": "DSearch",
                          "search_parallel(&args,mode)?": "DSearchParallel", "files(&args)?": "DFiles",
                          "files_parallel(&args)?": "DFilesParallel", "return types(&args)": "DTypes",
                          "return generate(mode)": "DGenerate"},
              ret="driver")
    term, ty = Translator(fake, sp).tail(rhs, {})
    if ty != "driver":
        raise TranslateError("driver selection: an arm is not one of the known calls (type %s)" % ty)
    return term, R.norm(fake[rhs.lo:rhs.hi])


def hi_from_low_args(src, name, sp, want):
    toks = R.tokenize(src)
    lo, hi = R.find_impl(toks, "HiArgs")
    b_lo, b_hi = R.find_fn(toks, "from_low_args", lo, hi)
    fake, rhs = R.find_let_rhs(toks, b_lo, b_hi, name)
    term, ty = Translator(fake, sp).tail(rhs, {})
    if ty != want:
        raise TranslateError("%s has type %s, expected %s" % (name, ty, want))
    return term, R.norm(fake[rhs.lo:rhs.hi])


def t_threads(src):
    sp = spec(atoms={"low.sort.is_some()": ("sort_is_some", "bool"), "paths.is_one_file": ("is_one_file", "bool"),
                     "low.threads": ("low_threads", "option N"),
                     "std::thread::available_parallelism().map_or(1,|n|n.get())": ("avail", "N")},
              methods={"min": m_min})
    return hi_from_low_args(src, "threads", sp, "N")


def t_quit_after_match(src):
    sp = spec(atoms={"stats.is_none()": ("stats_is_none", "bool"), "low.quiet": ("low_quiet", "bool")})
    return hi_from_low_args(src, "quit_after_match", sp, "bool")


def t_file_separator(src):
    sp = spec(atoms={"low.mode": ("mode", "mode"), "heading": ("heading", "bool"),
                     "low.context": ("context", "context_mode"), "limited.get()": ("v_limited", "pair N N")},
              tail_atoms={'Some(b"".to_vec())': "SepEmpty", "low.context_separator.clone().into_bytes()": "SepContext",
                          "None": "SepNone"},
              ret="sep_choice")
    return hi_from_low_args(src, "file_separator", sp, "sep_choice")


def fn_body(src, fn, impl, sp, want):
    toks = R.tokenize(src)
    fake, blk = R.fn_block(toks, fn, impl)
    term, ty = Translator(fake, sp).block_(blk, {}, tail=True)
    if ty != want:
        raise TranslateError("%s has type %s, expected %s" % (fn, ty, want))
    return term, R.norm(fake[blk.lo + 1:blk.hi - 1])


def t_stats(src):
    sp = spec(atoms={"low.mode": ("mode", "mode"), "low.stats": ("low_stats", "bool")},
              tail_atoms={"None": "false", "Some(grep::printer::Stats::new())": "true"}, ret="bool")
    return fn_body(src, "stats", None, sp, "bool")


def t_matches_possible(src):
    sp = spec(atoms={"self.patterns.patterns.is_empty()": ("patterns_empty", "bool"),
                     "self.max_count==Some(0)": ("max_count_is_zero", "bool")})
    return fn_body(src, "matches_possible", "HiArgs", sp, "bool")


def t_walk_sorted(src):
    """is `builder.sort_by_file_name(..)` executed by HiArgs::walk_builder — the `if let Some(ref sort) = self.sort`
    statement is the only place it may occur"""
    toks = R.tokenize(src)
    fake, blk = R.fn_block(toks, "walk_builder", "HiArgs")
    eff = re.compile(r"^builder\.sort_by_file_name\(")
    sp = spec(atoms={"self.sort": ("sort", "option sort_mode")})
    tr = Translator(fake, sp)
    found = []
    for s in blk.a[0]:
        text = R.norm(fake[s.lo:s.hi])
        if "sort_by_file_name" in text:
            if not (s.kind == "expr" and s.a.kind == "if"):
                raise TranslateError("sort_by_file_name outside an if statement")
            found.append(s)
    if blk.a[1] is not None and "sort_by_file_name" in R.norm(fake[blk.a[1].lo:blk.a[1].hi]):
        raise TranslateError("sort_by_file_name in the tail expression")
    if len(found) != 1:
        raise TranslateError("%d statements mention sort_by_file_name" % len(found))
    term = tr.reach_if(found[0].a, eff, {})
    return term, R.norm(fake[found[0].lo:found[0].hi])


def t_sort_identity(src):
    """does HiArgs::sort return its argument unchanged (`Box::new(haystacks)`): the let-else and the arms of the
    match that follows; every arm body other than `return Box::new(haystacks)` re-orders (-> false)"""
    toks = R.tokenize(src)
    fake, blk = R.fn_block(toks, "sort", "HiArgs")
    stmts = blk.a[0]
    lets = [s for s in stmts if s.kind == "let"]
    if len(lets) < 2 or lets[0].a[2] is None or lets[1].a[1].kind != "match":
        raise TranslateError("HiArgs::sort: expected `let Some(..) = self.sort else {..}; let .. = match sort.kind {..};`")
    # every statement before the match must be an item (fn/use) or one of the two lets
    for s in stmts:
        if s is lets[1]:
            break
        if s is not lets[0] and not (s.kind == "opaque_stmt" and fake[s.lo][1] == "fn"):
            raise TranslateError("HiArgs::sort: unexpected statement before the match")
    sp = spec(atoms={"self.sort": ("sort", "option sort_mode")},
              tail_atoms={"return Box::new(haystacks)": "true", "Box::new(haystacks)": "true"},
              ret="bool", tail_default="false")
    tr = Translator(fake, sp)
    pat, rhs, els = lets[0].a
    a, ta = tr.expr(rhs, {})
    gp, b = tr.pat(pat, ta)
    x, _ = tr.block_(els, {}, tail=True)
    m, _ = tr.match_(lets[1].a[1], dict(b), tail=True)
    term = "(match %s with %s => %s | _ => %s end)" % (a, gp, m, x)
    return term, R.norm(fake[lets[0].lo:lets[1].hi])


def t_binary_detection(src):
    sp = spec(atoms={"low.binary": ("binary", "binary_mode"), "low.null_data": ("null_data", "bool")},
              calls={"grep::searcher::BinaryDetection::none": bd("BDNone", 0),
                     "grep::searcher::BinaryDetection::convert": bd("BDConvert", 1),
                     "grep::searcher::BinaryDetection::quit": bd("BDQuit", 1)},
              struct={"BinaryDetection": lambda v: ("(%s, %s)" % (v["explicit"][0], v["implicit"][0]), "bd_pair")})
    return fn_body(src, "from_low_args", "BinaryDetection", sp, "bd_pair")


def t_printer_owns_separator(src):
    toks = R.tokenize(src)
    fake, blk = R.fn_block(toks, "printer_standard", "HiArgs")
    eff = re.compile(r"^builder\.separator_search\(")
    sp = spec(atoms={"self.threads": ("threads", "N")})
    tr = Translator(fake, sp)
    found = [s for s in blk.a[0] if s.kind == "expr" and s.a.kind == "if"
             and "separator_search" in R.norm(fake[s.lo:s.hi])]
    others = [s for s in blk.a[0] if s not in found and "separator_search" in R.norm(fake[s.lo:s.hi])]
    if len(found) != 1 or others:
        raise TranslateError("separator_search is not set in exactly one `if` statement")
    return tr.reach_if(found[0].a, eff, {}), R.norm(fake[found[0].lo:found[0].hi])


def t_should_preprocess(src):
    sp = spec(atoms={"self.config.preprocessor.is_some()": ("pre_is_some", "bool"),
                     "self.config.preprocessor_globs.is_empty()": ("globs_empty", "bool"),
                     "self.config.preprocessor_globs.matched(path,false).is_ignore()": ("glob_is_ignore", "bool")})
    return fn_body(src, "should_preprocess", "SearchWorker", sp, "bool")


def t_should_decompress(src):
    sp = spec(atoms={"self.config.search_zip": ("search_zip", "bool"),
                     "self.decomp_builder.get_matcher().has_command(path)": ("has_command", "bool")})
    return fn_body(src, "should_decompress", "SearchWorker", sp, "bool")


def t_select_strategy(src):
    toks = R.tokenize(src)
    fake, blk = R.fn_block(toks, "search", "SearchWorker")
    tail = blk.a[1]
    if tail is None:
        raise TranslateError("SearchWorker::search has no tail expression")
    sp = spec(atoms={"haystack.is_stdin()": ("is_stdin", "bool"), "self.should_preprocess(path)": ("should_pre", "bool"),
                     "self.should_decompress(path)": ("should_dec", "bool")},
              tail_atoms={"self.search_reader(path,&mut io::stdin().lock())": "StStdin",
                          "self.search_preprocessor(path)": "StPreprocess",
                          "self.search_decompress(path)": "StDecompress", "self.search_path(path)": "StPath"},
              ret="strategy")
    term, ty = Translator(fake, sp).tail(tail, {})
    if ty != "strategy":
        raise TranslateError("strategy selection: a branch is not one of the four search routines")
    return term, R.norm(fake[tail.lo:tail.hi])


def t_select_binary(src):
    toks = R.tokenize(src)
    lo, hi = R.find_impl(toks, "SearchWorker")
    b_lo, b_hi = R.find_fn(toks, "search", lo, hi)
    fake, rhs = R.find_let_rhs(toks, b_lo, b_hi, "bin")
    sp = spec(atoms={"haystack.is_explicit()": ("is_explicit", "bool"),
                     "self.config.binary_explicit": ("explicit", "bin_det"),
                     "self.config.binary_implicit": ("implicit", "bin_det")},
              methods={"clone": m_clone})
    term, ty = Translator(fake, sp).tail(rhs, {})
    if ty != "bin_det":
        raise TranslateError("binary detection choice has type %s" % ty)
    # the chosen detection must be the one installed on the searcher
    body = R.norm(fake[b_lo:b_hi])
    if "self.searcher.set_binary_detection(bin);" not in body:
        raise TranslateError("`self.searcher.set_binary_detection(bin)` not found")
    return term, R.norm(fake[rhs.lo:rhs.hi])


def t_close_is_error(src):
    sp = spec(atoms={"self.child.stdout.take()": ("(if stdout_open then Some tt else None)", "option unit"),
                     "self.child.wait()?.success()": ("wait_success", "bool"),
                     "self.stderr.read_to_end()": ("tt", "unit"),
                     "self.eof": ("eof", "bool"), "err.is_empty()": ("stderr_is_empty", "bool")},
              tail_atoms={"Ok(())": "false", "Err(io::Error::from(err))": "true"}, ret="bool")
    return fn_body(src, "close", "CommandReader", sp, "bool")


# ---- flag update rules (crates/core/flags/defs.rs): a small symbolic execution of `fn update(&self, v, args)` over the
# two LowArgs fields `pre` and `search_zip`.  The state is a pair of Gallina terms; statements are executed in order,
# an `if` duplicates the continuation, `return Ok(())` / the tail `Ok(())` yields the state record.  Anything outside
# this subset (another field assigned, another statement form) is a TranslateError -> fallback + broken-tie report.

def find_trait_impl_fn(src, trait, ty, fn):
    """defs.rs as a whole is outside the tokenizer's subset (raw doc strings): cut the text of `fn <fn>` out of
    `impl <trait> for <ty> {` first (rustfmt layout: the method ends at the first line that is exactly `    }`)"""
    head = "\nimpl %s for %s {\n" % (trait, ty)
    if src.count(head) != 1:
        raise TranslateError("`impl %s for %s` found %d times" % (trait, ty, src.count(head)))
    i = src.index(head)
    end_impl = src.index("\n}\n", i)
    j = src.find("\n    fn %s(" % fn, i, end_impl)
    if j < 0:
        raise TranslateError("fn %s not found in impl %s for %s" % (fn, trait, ty))
    k = src.index("\n    }\n", j)
    if k > end_impl:
        raise TranslateError("fn %s: end not found" % fn)
    toks = R.tokenize(src[j:k + 7])
    b_lo, b_hi = R.find_fn(toks, fn)
    return R.parse_block(toks, b_lo, b_hi)


class FlagExec:
    FIELDS = {"args.pre": "pre", "args.search_zip": "zip"}

    def __init__(self, fake, atoms, arm):
        self.t, self.atoms, self.arm = fake, atoms, arm     # arm: which `match v` arm is taken, pattern text -> bindings

    def txt(self, n):
        return R.norm(self.t[n.lo:n.hi])

    def record(self, st):
        return "{| pz_pre := %s; pz_zip := %s |}" % (st["pre"], st["zip"])

    def pure(self, n, st, env):
        """a side-effect free expression -> Gallina term"""
        while n.kind == "paren":
            n = n.a
        x = self.txt(n)
        if x in env:
            return env[x]
        if x in self.atoms:
            return self.atoms[x]
        if x == "None":
            return "(@None bytes)"
        if x in ("true", "false"):
            return x
        if x == "args.pre.is_some()":
            return "(match %s with Some _ => true | None => false end)" % st["pre"]
        if x == "args.pre.is_none()":
            return "(match %s with Some _ => false | None => true end)" % st["pre"]
        if x == "args.search_zip":
            return st["zip"]
        if n.kind == "not":
            return "(negb %s)" % self.pure(n.a, st, env)
        if n.kind == "bin" and n.a[0] in ("&&", "||"):
            return "(%s %s %s)" % (self.pure(n.a[1], st, env), n.a[0], self.pure(n.a[2], st, env))
        if n.kind == "call" and self.txt(n.a[0]) == "Some" and len(n.a[1]) == 1:
            return "(Some %s)" % self.pure(n.a[1][0], st, env)
        if n.kind == "call" and self.txt(n.a[0]) == "PathBuf::from" and len(n.a[1]) == 1:
            return self.pure(n.a[1][0], st, env)
        raise TranslateError("flag update: unsupported expression `%s`" % x)

    def value(self, n, st, env, k):
        """evaluate an expression that may contain effects; k(term, st) builds the rest"""
        while n.kind == "paren":
            n = n.a
        if n.kind == "if":
            cond, then, els = n.a
            if cond.kind == "letcond" or els is None:
                raise TranslateError("flag update: `if` used as a value needs a plain condition and an else")
            c = self.pure(cond, st, env)
            return "(if %s then %s else %s)" % (c, self.value(then, dict(st), env, k), self.value(els, dict(st), env, k))
        if n.kind == "block":
            stmts, tail = n.a
            if tail is None:
                # a block without a value: fine if every path through it returns
                def no_value(st2):
                    raise TranslateError("flag update: block used as a value has no tail and does not return")
                return self.stmts(list(stmts), st, env, no_value)
            return self.stmts(list(stmts), st, env, lambda st2: self.value(tail, st2, env, k))
        if n.kind == "match":
            body, env2 = self.take_arm(n, env)
            return self.value(body, st, env2, k)
        return k(self.pure(n, st, env), st)

    def take_arm(self, n, env):
        scrut, arms = n.a
        if self.txt(scrut) != "v":
            raise TranslateError("flag update: match on something other than the flag value")
        pats = sorted(self.txt(p) for p, g, b in arms)
        if pats != sorted(self.arm["all"]) or any(g is not None for p, g, b in arms):
            raise TranslateError("flag update: arms of `match v` are %s" % pats)
        for p, g, b in arms:
            if self.txt(p) == self.arm["take"]:
                e2 = dict(env)
                e2.update(self.arm["bind"])
                return b, e2
        raise TranslateError("flag update: arm not found")

    def stmts(self, items, st, env, k):
        """execute statements; k(st) builds what follows the list; a `return` ends the function"""
        if not items:
            return k(st)
        s, rest = items[0], items[1:]
        if s.kind == "assign":
            lhs = self.txt(s.a[0])
            if lhs not in self.FIELDS:
                raise TranslateError("flag update: assignment to `%s`" % lhs)
            f = self.FIELDS[lhs]

            def after(term, st2):
                st3 = dict(st2)
                st3[f] = term
                return self.stmts(rest, st3, env, k)
            return self.value(s.a[1], st, env, after)
        if s.kind == "let":
            pat, rhs, els = s.a
            if pat.kind != "pbind" or els is not None:
                raise TranslateError("flag update: unsupported let")

            def after(term, st2):
                e2 = dict(env)
                e2[pat.a] = term
                return FlagExec.stmts(self, rest, st2, e2, k)
            return self.value(rhs, st, env, after)
        if s.kind == "expr":
            e = s.a
            if e.kind == "return":
                if e.a is None or self.txt(e.a) != "Ok(())":
                    raise TranslateError("flag update: return of something other than Ok(())")
                return self.record(st)
            if e.kind == "macro":
                x = self.txt(e)
                if not any(x.startswith(a) for a in self.arm.get("asserts", [])):
                    raise TranslateError("flag update: macro `%s`" % x[:40])
                return self.stmts(rest, st, env, k)
            if e.kind == "if":
                cond, then, els = e.a
                if cond.kind == "letcond":
                    raise TranslateError("flag update: if let")
                c = self.pure(cond, st, env)
                cont = lambda st2: self.stmts(rest, st2, env, k)
                a = self.block_stmt(then, dict(st), env, cont)
                b = cont(dict(st)) if els is None else (
                    self.block_stmt(els, dict(st), env, cont) if els.kind == "block" else
                    self.stmts([Node_expr(els)], dict(st), env, cont))
                return "(if %s then %s else %s)" % (c, a, b)
            if e.kind == "block":
                return self.block_stmt(e, st, env, lambda st2: self.stmts(rest, st2, env, k))
        raise TranslateError("flag update: unsupported statement `%s`" % self.txt(s)[:60])

    def block_stmt(self, blk, st, env, k):
        stmts, tail = blk.a
        items = list(stmts)
        if tail is not None:
            items.append(Node_expr(tail))
        return self.stmts(items, st, env, k)

    def function(self, blk, st):
        stmts, tail = blk.a
        if tail is None or self.txt(tail) != "Ok(())":
            raise TranslateError("flag update: the function does not end in Ok(())")
        return self.stmts(list(stmts), st, {}, self.record)


def Node_expr(e):
    return R.Node("expr", e, e.lo, e.hi)


PZ_STATE = {"pre": "(pz_pre s)", "zip": "(pz_zip s)"}
VALUE_ARMS = ["FlagValue::Value(v)", "FlagValue::Switch(yes)"]


def t_pre_update_value(src):
    fake, blk = find_trait_impl_fn(src, "Flag", "Pre", "update")
    ex = FlagExec(fake, {"path.as_os_str().is_empty()": "(path_is_empty p)"},
                  dict(all=VALUE_ARMS, take="FlagValue::Value(v)", bind={"v": "p"}))
    return ex.function(blk, dict(PZ_STATE)), R.norm(fake[blk.lo + 1:blk.hi - 1])


def t_pre_update_switch(src):
    fake, blk = find_trait_impl_fn(src, "Flag", "Pre", "update")
    ex = FlagExec(fake, {}, dict(all=VALUE_ARMS, take="FlagValue::Switch(yes)", bind={"yes": "false"},
                                 asserts=["assert!(!yes"]))
    return ex.function(blk, dict(PZ_STATE)), R.norm(fake[blk.lo + 1:blk.hi - 1])


def t_zip_update(src):
    fake, blk = find_trait_impl_fn(src, "Flag", "SearchZip", "update")
    ex = FlagExec(fake, {"v.unwrap_switch()": "yes"}, dict(all=[], take=None, bind={}))
    return ex.function(blk, dict(PZ_STATE)), R.norm(fake[blk.lo + 1:blk.hi - 1])


TARGETS = [
    # name, params, type, file, translator
    ("exit_code", "(matched quiet errored : bool)", "N", "crates/core/main.rs", t_exit_code, []),
    ("choose_driver", "(mode : mode) (matches_possible : bool) (threads : N)", "driver", "crates/core/main.rs",
     t_choose_driver, ["Mode", "SearchMode"]),
    ("threads", "(sort_is_some is_one_file : bool) (low_threads : option N) (avail : N)", "N",
     "crates/core/flags/hiargs.rs", t_threads, []),
    ("quit_after_match", "(stats_is_none low_quiet : bool)", "bool", "crates/core/flags/hiargs.rs",
     t_quit_after_match, []),
    ("stats_is_some", "(mode : mode) (low_stats : bool)", "bool", "crates/core/flags/hiargs.rs", t_stats,
     ["Mode", "SearchMode"]),
    ("matches_possible", "(patterns_empty max_count_is_zero : bool)", "bool", "crates/core/flags/hiargs.rs",
     t_matches_possible, []),
    ("walk_sorted_by_name", "(sort : option sort_mode)", "bool", "crates/core/flags/hiargs.rs", t_walk_sorted,
     ["SortModeKind"]),
    ("sort_is_identity", "(sort : option sort_mode)", "bool", "crates/core/flags/hiargs.rs", t_sort_identity,
     ["SortModeKind"]),
    ("binary_detection", "(binary : binary_mode) (null_data : bool)", "(bin_det * bin_det)%type",
     "crates/core/flags/hiargs.rs", t_binary_detection, ["BinaryMode"]),
    ("file_separator", "(mode : mode) (heading : bool) (context : context_mode)", "sep_choice",
     "crates/core/flags/hiargs.rs", t_file_separator, ["Mode", "SearchMode", "ContextMode"]),
    ("printer_owns_separator", "(threads : N)", "bool", "crates/core/flags/hiargs.rs", t_printer_owns_separator, []),
    ("select_binary", "(is_explicit : bool) (explicit implicit : bin_det)", "bin_det", "crates/core/search.rs",
     t_select_binary, []),
    ("should_preprocess", "(pre_is_some globs_empty glob_is_ignore : bool)", "bool", "crates/core/search.rs",
     t_should_preprocess, []),
    ("should_decompress", "(search_zip has_command : bool)", "bool", "crates/core/search.rs", t_should_decompress, []),
    ("select_strategy", "(is_stdin should_pre should_dec : bool)", "strategy", "crates/core/search.rs",
     t_select_strategy, []),
    ("close_is_error", "(stdout_open wait_success eof stderr_is_empty : bool)", "bool", "crates/cli/src/process.rs",
     t_close_is_error, []),
    ("pre_update_value", "(p : bytes) (s : pz_state)", "pz_state", "crates/core/flags/defs.rs", t_pre_update_value, []),
    ("pre_update_switch", "(s : pz_state)", "pz_state", "crates/core/flags/defs.rs", t_pre_update_switch, []),
    ("zip_update", "(yes : bool) (s : pz_state)", "pz_state", "crates/core/flags/defs.rs", t_zip_update, []),
]


def param_names(params):
    names = []
    for grp in re.findall(r"\(([^:()]+):", params):
        names += grp.split()
    return names


def comment_safe(s):
    return s.replace("(*", "( *").replace("*)", "* )")


def wrap(s, width=100, indent="     "):
    out, line = [], ""
    for w in s.split(" "):
        if len(line) + len(w) + 1 > width and line:
            out.append(line)
            line = indent + w
        else:
            line = (line + " " + w) if line else w
    out.append(line)
    return "\n".join(out)


def generate(repo, root):
    status = {}
    srcs = {}

    def src(rel):
        if rel not in srcs:
            srcs[rel] = open(os.path.join(repo, rel)).read()
        return srcs[rel]

    enum_problem = {}
    for en, (rel, want) in ENUMS.items():
        try:
            got = R.find_enum(R.tokenize(src(rel)), en)
            if got != want:
                enum_problem[en] = "enum %s changed: %s" % (en, got)
        except (TranslateError, OSError) as e:
            enum_problem[en] = "enum %s: %s" % (en, e)

    out = ["(* GENERATED by tools/gen/decisions_cli.py from the ripgrep working tree — do not edit, not committed.",
           "   One definition per decision expression; `translated` says whether the body below is the translation",
           "   of the current source text (true) or the hand-written fallback of Model/CliExpected.v (false). *)",
           "From Coq Require Import NArith Bool List.",
           "From RG Require Import Base.Bytes Model.CliTypes Model.PreZipFlags Model.CliExpected.",
           "Import ListNotations.", "Local Open Scope bool_scope.", ""]
    for name, params, ty, rel, fn, enums in TARGETS:
        ok, msg, text = True, "", ""
        try:
            for en in enums:
                if en in enum_problem:
                    raise TranslateError(enum_problem[en])
            term, text = fn(src(rel))
        except (TranslateError, OSError, IndexError, KeyError, TypeError) as e:
            ok, msg = False, "%s: %s" % (type(e).__name__, e)
        out.append("(* %s  —  %s" % (name, rel))
        if ok:
            out.append("   source: " + wrap(comment_safe(text), 100, "           ") + " *)")
            out.append("Definition %s %s : %s :=\n  %s." % (name, params, ty, wrap(term, 110, "    ")))
        else:
            out.append("   NOT TRANSLATED (%s): falls back to the hand-written copy *)" % comment_safe(msg))
            out.append("Definition %s %s : %s :=\n  %s_expected %s." % (name, params, ty, name,
                                                                      " ".join(param_names(params))))
        out.append("Definition %s_translated : bool := %s.\n" % (name, "true" if ok else "false"))
        status[name] = dict(translated=ok, message=msg, file=rel,
                            source_sha=hashlib.sha1(text.encode()).hexdigest()[:12] if ok else None, source=text)
    body = "\n".join(out) + "\n"
    path = os.path.join(root, "coq", "theories", "Gen", "DecisionsCli.v")
    if not (os.path.exists(path) and open(path).read() == body):
        open(path, "w").write(body)
    sp = os.path.join(root, ".cache", "gen", "decisions_cli.json")
    os.makedirs(os.path.dirname(sp), exist_ok=True)
    open(sp, "w").write(json.dumps(status, indent=1, sort_keys=True))
    bad = [n for n, s in status.items() if not s["translated"]]
    if bad:
        print("decisions_cli: NOT translated (fallback to hand-written copy): " +
              "; ".join("%s [%s]" % (n, status[n]["message"]) for n in bad))
