"""rsexpr.py — a restricted Rust-expression -> Gallina translator (DESIGN §4.2, "pure decision expressions").

What it understands (and nothing else; anything else raises TranslateError, which the caller reports as drift):
  literals (integers, true/false, b'\\x00'), paths a::b::c, field reads e.f, method calls e.m(args), calls f(args),
  `e?`, `&e` `&mut e` `*e`, `!e`, `&& || == != < <= > >=`, `if c {..} else if .. else {..}`, `if let PAT = e {..} else {..}`,
  `match e { PAT [if guard] => body, ... }` on fieldless enums / enums with one payload / Option,
  `matches!(e, PAT)`, blocks `{ let x = e; if c { return e; } ...; tail }`, `let PAT = e else { return r };`,
  `let x = match e { P => return r, Q => v };`, `return e`, struct literals `S { a, b }`, closures (only inside atoms),
  or-patterns without bindings, `a + b` at nat, `e as T` (transparent), comparisons at nat and at types with a declared
  equality (Spec.eqs), a statement `if c { .. }` whose block may be left through its end (the statements after it follow),
  with Spec.try_transparent `e?` read as its Ok value, assignments listed as ignorable.

Translation is driven by a per-target Spec:
  atoms       normalised source text of a sub-expression -> (gallina term, type)    (checked before structure)
  tail_atoms  normalised source text of an expression in result position -> gallina term
  calls       normalised callee text -> python function(list of (term,type)) -> (term,type)
  ctors       rust pattern path text -> (gallina constructor, number of kept sub-patterns, payload types)
  fields      (type, field) -> (gallina projection, type)
  ignorable   regexes of statements that have no effect on the result (logging, assertions, drop)
Types are strings: 'bool', 'N', 'option T', enum names; used only to pick =? / eqb and binder types.
"""
import re


class TranslateError(Exception):
    pass


# ----------------------------------------------------------------------------------------------- tokens

TOKEN_RE = re.compile(r"""
    (?P<ws>\s+)
  | (?P<lcomment>//[^\n]*)
  | (?P<bcomment>/\*.*?\*/)
  | (?P<byte>b'(?:\\x[0-9a-fA-F]{2}|\\.|[^'\\])')
  | (?P<bstr>b"(?:\\.|[^"\\])*")
  | (?P<str>"(?:\\.|[^"\\])*")
  | (?P<rawid>r\#[A-Za-z_][A-Za-z0-9_]*)
  | (?P<life>'[A-Za-z_][A-Za-z0-9_]*(?!'))
  | (?P<chr>'(?:\\.|[^'\\])')
  | (?P<num>[0-9][0-9_]*(?:usize|u8|u16|u32|u64|i32|i64)?)
  | (?P<id>[A-Za-z_][A-Za-z0-9_]*)
  | (?P<op>::|->|=>|==|!=|<=|>=|&&|\|\||\.\.=|\.\.|[-+*/%^!&|=<>.,;:(){}\[\]?\#@$~])
""", re.X | re.S)


def tokenize(src):
    toks = []
    pos = 0
    n = len(src)
    while pos < n:
        m = TOKEN_RE.match(src, pos)
        if not m:
            raise TranslateError("cannot tokenize at %r" % src[pos:pos + 30])
        k = m.lastgroup
        if k not in ("ws", "lcomment", "bcomment"):
            toks.append((k, m.group(0), m.start()))
        pos = m.end()
    return toks


def norm(toks):
    """normalised text of a token slice: tokens joined, a space only between two word-like tokens"""
    out = []
    prev_word = False
    for k, t, _ in toks:
        word = k in ("id", "num", "rawid", "life")
        if word and prev_word:
            out.append(" ")
        out.append(t)
        prev_word = word
    return "".join(out)


def norm_text(s):
    return norm(tokenize(s))


# ----------------------------------------------------------------------------------------------- locating items

def match_close(toks, i):
    """index of the token closing the bracket opened at toks[i]"""
    pairs = {"(": ")", "{": "}", "[": "]"}
    o = toks[i][1]
    c = pairs[o]
    depth = 0
    j = i
    while j < len(toks):
        t = toks[j][1]
        if t == o:
            depth += 1
        elif t == c:
            depth -= 1
            if depth == 0:
                return j
        j += 1
    raise TranslateError("unbalanced %s" % o)


def find_impl(toks, name):
    """token range of the body of the first inherent `impl[<..>] name[<..>] {` (not `impl Trait for name`)
    -> (start, end) exclusive of the braces"""
    i = 0
    while i < len(toks):
        if toks[i][1] == "impl":
            j = i + 1
            if j < len(toks) and toks[j][1] == "<":
                depth = 0
                while j < len(toks):
                    if toks[j][1] == "<":
                        depth += 1
                    elif toks[j][1] == ">":
                        depth -= 1
                        if depth == 0:
                            j += 1
                            break
                    j += 1
            first = toks[j][1] if j < len(toks) else None
            k = j
            is_trait_impl = False
            while k < len(toks) and toks[k][1] != "{":
                if toks[k][1] == "for":
                    is_trait_impl = True
                k += 1
            if k < len(toks) and first == name and not is_trait_impl:
                e = match_close(toks, k)
                return k + 1, e
            i = k
        i += 1
    raise TranslateError("impl %s not found" % name)


def find_fn(toks, name, lo=0, hi=None, free=False):
    """(body_start, body_end) of `fn name` between lo and hi (indices of tokens inside the braces);
    free=True: only functions outside impl/trait/mod blocks"""
    hi = len(toks) if hi is None else hi
    i = lo
    while i < hi - 1:
        if free and toks[i][1] in ("impl", "trait", "mod"):
            j = i + 1
            while j < hi and toks[j][1] not in ("{", ";"):
                j += 1
            if j < hi and toks[j][1] == "{":
                i = match_close(toks, j) + 1
                continue
        if toks[i][1] == "fn" and toks[i + 1][1] == name:
            j = i + 2
            # skip generics, params, return type, where clause up to the body brace at depth 0
            depth = 0
            while j < hi:
                t = toks[j][1]
                if t in "([":
                    j = match_close(toks, j)
                elif t == "<":
                    depth += 1
                elif t == ">" and depth > 0:
                    depth -= 1
                elif t == "->" or t == "=>":
                    pass
                elif t == "{" and depth == 0:
                    e = match_close(toks, j)
                    return j + 1, e
                elif t == ";" and depth == 0:
                    break
                j += 1
        i += 1
    raise TranslateError("fn %s not found" % name)


def find_enum(toks, name):
    """variants of `enum name { A, B(T), ... }` -> list of (variant, payload type text or None)"""
    for i in range(len(toks) - 2):
        if toks[i][1] == "enum" and toks[i + 1][1] == name and toks[i + 2][1] == "{":
            e = match_close(toks, i + 2)
            j = i + 3
            res = []
            while j < e:
                if toks[j][1] == "#":          # attribute
                    j = match_close(toks, j + 1) + 1
                    continue
                if toks[j][0] != "id":
                    raise TranslateError("enum %s: unexpected token %s" % (name, toks[j][1]))
                v = toks[j][1]
                j += 1
                payload = None
                if j < e and toks[j][1] == "(":
                    c = match_close(toks, j)
                    payload = norm(toks[j + 1:c])
                    j = c + 1
                elif j < e and toks[j][1] == "{":
                    raise TranslateError("enum %s: struct variant %s" % (name, v))
                if j < e and toks[j][1] == "=":
                    raise TranslateError("enum %s: discriminant" % name)
                if j < e and toks[j][1] == ",":
                    j += 1
                res.append((v, payload))
            return res
    raise TranslateError("enum %s not found" % name)


# ----------------------------------------------------------------------------------------------- parser

class Node:
    __slots__ = ("kind", "a", "lo", "hi")

    def __init__(self, kind, a, lo, hi):
        self.kind, self.a, self.lo, self.hi = kind, a, lo, hi

    def __repr__(self):
        return "%s%r" % (self.kind, self.a)


class Parser:
    def __init__(self, toks, lo, hi):
        self.t = toks
        self.p = lo
        self.hi = hi

    # -- helpers
    def peek(self, k=0):
        return self.t[self.p + k][1] if self.p + k < self.hi else None

    def peekk(self, k=0):
        return self.t[self.p + k][0] if self.p + k < self.hi else None

    def eat(self, s):
        if self.peek() != s:
            raise TranslateError("expected %r, found %r (token %d)" % (s, self.peek(), self.p))
        self.p += 1

    def text(self, node):
        return norm(self.t[node.lo:node.hi])

    # -- patterns
    def pattern(self):
        lo = self.p
        alts = [self.pattern1()]
        while self.peek() == "|":
            self.p += 1
            alts.append(self.pattern1())
        if len(alts) == 1:
            return alts[0]
        return Node("por", alts, lo, self.p)

    def pattern1(self):
        lo = self.p
        while self.peek() in ("&", "ref", "mut"):
            self.p += 1
        t = self.peek()
        k = self.peekk()
        if t == "_":
            self.p += 1
            return Node("pwild", None, lo, self.p)
        if k == "num":
            self.p += 1
            return Node("plit", int(re.sub(r"[a-z_].*", "", t.replace("_", ""))), lo, self.p)
        if t in ("true", "false"):
            self.p += 1
            return Node("pbool", t == "true", lo, self.p)
        if t == "(":
            c = match_close(self.t, self.p)
            self.p += 1
            items = []
            while self.p < c:
                items.append(self.pattern())
                if self.peek() == ",":
                    self.p += 1
            self.p = c + 1
            return Node("ptuple", items, lo, self.p)
        if k == "id":
            segs = [t]
            self.p += 1
            while self.peek() == "::":
                self.p += 1
                segs.append(self.peek())
                self.p += 1
            subs = None
            if self.peek() == "(":
                c = match_close(self.t, self.p)
                self.p += 1
                subs = []
                while self.p < c:
                    subs.append(self.pattern())
                    if self.peek() == ",":
                        self.p += 1
                self.p = c + 1
            elif self.peek() == "{":
                raise TranslateError("struct pattern")
            if len(segs) == 1 and subs is None and segs[0][0].islower():
                return Node("pbind", segs[0], lo, self.p)
            return Node("pctor", ("::".join(segs), subs), lo, self.p)
        raise TranslateError("unsupported pattern at %r" % t)

    # -- blocks and statements
    def block(self):
        """parses `{ stmts; tail }` ; returns Node('block', (stmts, tail))"""
        lo = self.p
        self.eat("{")
        c = match_close(self.t, lo)
        stmts = []
        tail = None
        while self.p < c:
            if self.peek() == ";":
                self.p += 1
                continue
            s_lo = self.p
            if self.peek() == "let":
                try:
                    st = self.let_stmt(s_lo)
                except TranslateError as ex:
                    self.p = s_lo
                    self.skip_statement(c)
                    st = Node("opaque_stmt", str(ex), s_lo, self.p)
                stmts.append(st)
                continue
            if self.peek() == "use":
                while self.peek() != ";":
                    if self.peek() == "{":
                        self.p = match_close(self.t, self.p)
                    self.p += 1
                self.p += 1
                continue
            try:
                e = self.expr(no_struct=False)
                if self.peek() not in ("=", ";") and self.p < c and e.kind not in ("if", "match", "block"):
                    raise TranslateError("unexpected token %r after expression" % self.peek())
            except TranslateError as ex:
                # a statement outside the supported subset: kept as an opaque statement (translating it fails,
                # skipping over it while looking for another statement does not)
                self.p = s_lo
                self.skip_statement(c)
                stmts.append(Node("opaque_stmt", str(ex), s_lo, self.p))
                continue
            if self.peek() == "=" and self.p < c:
                # assignment statement: an effect; kept as an opaque statement
                self.p += 1
                rhs = self.expr(no_struct=False)
                if self.peek() == ";":
                    self.p += 1
                stmts.append(Node("assign", (e, rhs), s_lo, self.p))
                continue
            if self.peek() == ";":
                self.p += 1
                stmts.append(Node("expr", e, s_lo, self.p))
            elif self.p >= c:
                tail = e
            elif e.kind in ("if", "match", "block"):
                stmts.append(Node("expr", e, s_lo, self.p))
            else:
                raise TranslateError("unexpected token %r after expression" % self.peek())
        self.p = c + 1
        return Node("block", (stmts, tail), lo, self.p)

    def let_stmt(self, s_lo):
        self.eat("let")
        pat = self.pattern()
        if self.peek() == ":":
            # skip the type up to '=' at depth 0
            self.p += 1
            depth = 0
            while not (self.peek() == "=" and depth == 0):
                if self.peek() is None:
                    raise TranslateError("let without initialiser")
                if self.peek() == "<":
                    depth += 1
                elif self.peek() == ">":
                    depth -= 1
                elif self.peek() in ("(", "["):
                    self.p = match_close(self.t, self.p)
                self.p += 1
        self.eat("=")
        rhs = self.expr(no_struct=False)
        els = None
        if self.peek() == "else":
            self.p += 1
            els = self.block()
        self.eat(";")
        return Node("let", (pat, rhs, els), s_lo, self.p)

    def skip_statement(self, c):
        """advance past one statement (token level): up to `;` at depth 0, or a closing `}` at depth 0 that is not
        followed by a continuation of the expression"""
        while self.p < c:
            t = self.peek()
            if t in ("(", "[", "{"):
                self.p = match_close(self.t, self.p) + 1
                if t == "{" and self.peek() not in (".", "?", ";", "else", "as", "==", "!=", "&&", "||", "+", "-",
                                                     "*", "/", "=", ","):
                    return
                continue
            self.p += 1
            if t == ";":
                return

    # -- expressions (precedence climbing)
    def expr(self, no_struct=True):
        return self.p_or(no_struct)

    def p_or(self, ns):
        lo = self.p
        a = self.p_and(ns)
        while self.peek() == "||":
            self.p += 1
            b = self.p_and(ns)
            a = Node("bin", ("||", a, b), lo, self.p)
        return a

    def p_and(self, ns):
        lo = self.p
        a = self.p_cmp(ns)
        while self.peek() == "&&":
            self.p += 1
            b = self.p_cmp(ns)
            a = Node("bin", ("&&", a, b), lo, self.p)
        return a

    def p_add(self, ns):
        lo = self.p
        a = self.p_cast(ns)
        while self.peek() == "+":
            self.p += 1
            b = self.p_cast(ns)
            a = Node("bin", ("+", a, b), lo, self.p)
        return a

    def p_cast(self, ns):
        """`e as T` (T a path): a numeric cast, transparent for the translation (all integers are nat / N)"""
        lo = self.p
        a = self.p_unary(ns)
        while self.peek() == "as":
            self.p += 1
            if self.peekk() != "id":
                raise TranslateError("cast to a non-path type")
            self.p += 1
            while self.peek() == "::":
                self.p += 2
            a = Node("paren", a, lo, self.p)
        return a

    def p_cmp(self, ns):
        lo = self.p
        a = self.p_add(ns)
        if self.peek() in ("==", "!=", "<", "<=", ">", ">="):
            op = self.peek()
            self.p += 1
            b = self.p_add(ns)
            a = Node("bin", (op, a, b), lo, self.p)
        return a

    def p_unary(self, ns):
        lo = self.p
        t = self.peek()
        if t == "!":
            self.p += 1
            e = self.p_unary(ns)
            return Node("not", e, lo, self.p)
        if t == "&":
            self.p += 1
            if self.peek() == "mut":
                self.p += 1
            e = self.p_unary(ns)
            return Node("ref", e, lo, self.p)
        if t == "&&":        # && as double reference is not supported in operand position
            raise TranslateError("&& in operand position")
        if t == "*":
            self.p += 1
            e = self.p_unary(ns)
            return Node("ref", e, lo, self.p)
        return self.p_postfix(ns)

    def args(self):
        """at '(' ; returns list of expr nodes"""
        c = match_close(self.t, self.p)
        self.p += 1
        res = []
        while self.p < c:
            res.append(self.expr(no_struct=False))
            if self.peek() == ",":
                self.p += 1
            elif self.p < c:
                raise TranslateError("expected , in arguments, found %r" % self.peek())
        self.p = c + 1
        return res

    def p_postfix(self, ns):
        lo = self.p
        e = self.p_primary(ns)
        while True:
            t = self.peek()
            if t == ".":
                self.p += 1
                name = self.peek()
                if self.peekk() not in ("id", "num", "rawid"):
                    raise TranslateError("bad field %r" % name)
                self.p += 1
                if self.peek() == "::":     # turbofish
                    self.p += 1
                    self.eat("<")
                    depth = 1
                    while depth:
                        if self.peek() == "<":
                            depth += 1
                        elif self.peek() == ">":
                            depth -= 1
                        self.p += 1
                if self.peek() == "(":
                    a = self.args()
                    e = Node("mcall", (e, name, a), lo, self.p)
                else:
                    e = Node("field", (e, name), lo, self.p)
            elif t == "(":
                a = self.args()
                e = Node("call", (e, a), lo, self.p)
            elif t == "[":
                c2 = match_close(self.t, self.p)
                self.p = c2 + 1
                e = Node("index", e, lo, self.p)
            elif t == "?":
                self.p += 1
                e = Node("try", e, lo, self.p)
            else:
                return e

    def p_primary(self, ns):
        lo = self.p
        t = self.peek()
        k = self.peekk()
        if t is None:
            raise TranslateError("unexpected end of expression")
        if k == "num":
            self.p += 1
            return Node("int", int(re.sub(r"[a-z].*", "", t.replace("_", ""))), lo, self.p)
        if k == "byte":
            self.p += 1
            body = t[2:-1]
            if body.startswith("\\x"):
                v = int(body[2:], 16)
            elif body.startswith("\\"):
                v = {"n": 10, "r": 13, "t": 9, "0": 0, "\\": 92, "'": 39}.get(body[1])
                if v is None:
                    raise TranslateError("byte escape " + t)
            else:
                v = ord(body)
            return Node("int", v, lo, self.p)
        if k in ("str", "bstr", "chr"):
            self.p += 1
            return Node("opaque", t, lo, self.p)
        if t in ("true", "false"):
            self.p += 1
            return Node("bool", t == "true", lo, self.p)
        if t == "(":
            c = match_close(self.t, self.p)
            if c == self.p + 1:
                self.p = c + 1
                return Node("unit", None, lo, self.p)
            self.p += 1
            e = self.expr(no_struct=False)
            if self.peek() == ",":
                raise TranslateError("tuple expression")
            self.eat(")")
            return Node("paren", e, lo, self.p)
        if t == "{":
            return self.block()
        if t == "if":
            self.p += 1
            if self.peek() == "let":
                self.p += 1
                pat = self.pattern()
                self.eat("=")
                scrut = self.expr(no_struct=True)
                cond = Node("letcond", (pat, scrut), lo, self.p)
            else:
                cond = self.expr(no_struct=True)
            then = self.block()
            els = None
            if self.peek() == "else":
                self.p += 1
                if self.peek() == "if":
                    els = self.p_primary(ns)
                else:
                    els = self.block()
            return Node("if", (cond, then, els), lo, self.p)
        if t == "match":
            self.p += 1
            scrut = self.expr(no_struct=True)
            ob = self.p
            self.eat("{")
            c = match_close(self.t, ob)
            arms = []
            while self.p < c:
                pat = self.pattern()
                guard = None
                if self.peek() == "if":
                    self.p += 1
                    guard = self.expr(no_struct=True)
                self.eat("=>")
                body = self.expr(no_struct=False)
                if self.peek() == ",":
                    self.p += 1
                arms.append((pat, guard, body))
            self.p = c + 1
            return Node("match", (scrut, arms), lo, self.p)
        if t == "return":
            self.p += 1
            if self.peek() in (";", "}", ",", None):
                return Node("return", None, lo, self.p)
            e = self.expr(no_struct=False)
            return Node("return", e, lo, self.p)
        if t in ("|", "||") or t == "move":
            # closure: parameters then a body expression; kept opaque (usable only inside an atom)
            if t == "move":
                self.p += 1
                t = self.peek()
            if t == "||":
                self.p += 1
            else:
                self.p += 1
                while self.peek() != "|":
                    self.p += 1
                self.p += 1
            self.expr(no_struct=False)
            return Node("opaque", "closure", lo, self.p)
        if k in ("id", "rawid"):
            segs = [t]
            self.p += 1
            while self.peek() == "::":
                self.p += 1
                if self.peek() == "<":
                    depth = 0
                    while True:
                        if self.peek() == "<":
                            depth += 1
                        elif self.peek() == ">":
                            depth -= 1
                        self.p += 1
                        if depth == 0:
                            break
                    continue
                segs.append(self.peek())
                self.p += 1
            if self.peek() == "!":      # macro call
                if self.peek(1) not in ("(", "[", "{"):
                    raise TranslateError("macro without delimiters")
                name = "::".join(segs)
                ob = self.p + 1
                c = match_close(self.t, ob)
                if name == "matches":
                    sub = Parser(self.t, ob + 1, c)
                    scrut = sub.expr(no_struct=False)
                    sub.eat(",")
                    pat = sub.pattern()
                    guard = None
                    if sub.peek() == "if":
                        sub.p += 1
                        guard = sub.expr(no_struct=False)
                    if sub.peek() == ",":
                        sub.p += 1
                    if sub.p != c:
                        raise TranslateError("matches!: trailing tokens")
                    self.p = c + 1
                    return Node("matches", (scrut, pat, guard), lo, self.p)
                self.p = c + 1
                return Node("macro", name, lo, self.p)
            if self.peek() == "{" and not ns and segs[-1][0].isupper():
                # struct literal  S { a, b: e }
                ob = self.p
                c = match_close(self.t, ob)
                self.p += 1
                fields = []
                while self.p < c:
                    fname = self.peek()
                    self.p += 1
                    if self.peek() == ":":
                        self.p += 1
                        fe = self.expr(no_struct=False)
                    else:
                        fe = Node("path", [fname], self.p - 1, self.p)
                    fields.append((fname, fe))
                    if self.peek() == ",":
                        self.p += 1
                self.p = c + 1
                return Node("struct", ("::".join(segs), fields), lo, self.p)
            return Node("path", segs, lo, self.p)
        raise TranslateError("unsupported expression start %r" % t)


def parse_block(toks, lo, hi):
    """parse the statements between lo and hi (a function body without its braces) as a block"""
    fake = toks[:lo] + [("op", "{", -1)] + toks[lo:hi] + [("op", "}", -1)]
    p = Parser(fake, lo, hi + 2)
    b = p.block()
    return fake, b


# ----------------------------------------------------------------------------------------------- translation

class Spec:
    def __init__(self, atoms=None, tail_atoms=None, calls=None, ctors=None, fields=None, ignorable=None,
                 methods=None, ret=None, tail_default=None, struct=None, eqs=None, try_transparent=False):
        self.atoms = {norm_text(k): v for k, v in (atoms or {}).items()}
        self.tail_atoms = {norm_text(k): v for k, v in (tail_atoms or {}).items()}
        self.calls = {norm_text(k): v for k, v in (calls or {}).items()}
        self.ctors = ctors or {}
        self.fields = fields or {}
        self.ignorable = [re.compile(r) for r in (ignorable or [])]
        self.methods = methods or {}
        self.ret = ret
        self.tail_default = tail_default
        self.struct = struct or {}
        self.eqs = eqs or {}          # type -> gallina boolean equality (for == / != at that type)
        self.try_transparent = try_transparent   # `e?` stands for its Ok value (the Err exit is not part of the decision)


IGNORABLE_DEFAULT = [r"^log::(trace|debug|info|warn|error)!", r"^assert(_eq|_ne)?!", r"^debug_assert(_eq|_ne)?!",
                     r"^drop\("]

OPTION_CTORS = {"Some": ("Some", 1), "None": ("None", 0)}


class Translator:
    def __init__(self, toks, spec):
        self.t = toks
        self.s = spec
        self.fresh = 0

    def txt(self, n):
        return norm(self.t[n.lo:n.hi])

    # ---- patterns -> (gallina pattern, bindings {name: type})
    def pat(self, p, ty):
        if p.kind == "pwild":
            return "_", {}
        if p.kind == "pbind":
            return "v_" + p.a, {p.a: ty}
        if p.kind == "pbool":
            return ("true" if p.a else "false"), {}
        if p.kind == "ptuple":
            m = re.match(r"pair (\S+) (\S+)$", ty or "")
            if not m or len(p.a) != 2:
                raise TranslateError("tuple pattern at type %s" % ty)
            x, bx = self.pat(p.a[0], m.group(1))
            y, by = self.pat(p.a[1], m.group(2))
            bx.update(by)
            return "(%s, %s)" % (x, y), bx
        if p.kind == "pctor":
            name, subs = p.a
            if name in OPTION_CTORS and (ty is None or ty.startswith("option")):
                g, ar = OPTION_CTORS[name]
                if ar == 0:
                    if subs:
                        raise TranslateError("None with arguments")
                    return "None", {}
                if not subs or len(subs) != 1:
                    raise TranslateError("Some needs one sub-pattern")
                inner = ty[len("option "):] if ty and ty.startswith("option ") else None
                sp, b = self.pat(subs[0], inner)
                return "(Some %s)" % sp, b
            if name not in self.s.ctors:
                raise TranslateError("unknown constructor pattern %s" % name)
            g, payload = self.s.ctors[name][0], self.s.ctors[name][1]
            subs = subs or []
            if payload is None:
                # gallina constructor without arguments; rust sub-patterns must not bind anything used
                for sp in subs:
                    if sp.kind not in ("pwild", "pbind"):
                        raise TranslateError("sub-pattern of payload-less constructor %s" % name)
                return g, {}
            if len(subs) != 1:
                raise TranslateError("constructor %s expects one sub-pattern" % name)
            sp, b = self.pat(subs[0], payload)
            return "(%s %s)" % (g, sp), b
        if p.kind == "por":
            # `A | B`: allowed when no alternative binds a variable (Coq or-pattern)
            parts = []
            for alt in p.a:
                g, b = self.pat(alt, ty)
                if b:
                    raise TranslateError("or-pattern that binds variables")
                parts.append(g)
            return " | ".join(parts), {}
        raise TranslateError("unsupported pattern kind " + p.kind)

    # ---- expressions -> (term, type)
    def expr(self, n, env):
        text = self.txt(n)
        if text in self.s.atoms:
            return self.s.atoms[text]
        k = n.kind
        if k in ("paren", "ref"):
            return self.expr(n.a, env)
        if k == "int":
            return "%d%%N" % n.a, "N"
        if k == "bool":
            return ("true" if n.a else "false"), "bool"
        if k == "path":
            if len(n.a) == 1 and n.a[0] in env:
                return "v_" + n.a[0], env[n.a[0]]
            name = "::".join(n.a)
            if name == "None":
                return "None", "option ?"
            if name in self.s.ctors and self.s.ctors[name][1] is None:
                return self.s.ctors[name][0], (self.s.ctors[name][2] if len(self.s.ctors[name]) > 2 else "?")
            raise TranslateError("unknown name %s" % name)
        if k == "not":
            a, ta = self.expr(n.a, env)
            self.want(ta, "bool", n.a)
            return "(negb %s)" % a, "bool"
        if k == "bin":
            op, x, y = n.a
            if y.kind == "int" and x.kind != "int" and self.txt(y) not in self.s.atoms:
                a, ta = self.expr(x, env)
                b, tb = self.lit(y.a, ta)
            elif x.kind == "int" and y.kind != "int" and self.txt(x) not in self.s.atoms:
                b, tb = self.expr(y, env)
                a, ta = self.lit(x.a, tb)
            else:
                a, ta = self.expr(x, env)
                b, tb = self.expr(y, env)
            if op == "+":
                if ta != "nat" or tb != "nat":
                    raise TranslateError("+ at types %s, %s" % (ta, tb))
                return "(%s + %s)%%nat" % (a, b), "nat"
            if op in ("&&", "||"):
                self.want(ta, "bool", x)
                self.want(tb, "bool", y)
                return "(%s %s %s)" % (a, op, b), "bool"
            ty = ta if ta != "?" else tb
            if ty == "N":
                self.want(tb, "N", y)
                self.want(ta, "N", x)
                table = {"==": "(%s =? %s)%%N", "!=": "(negb (%s =? %s)%%N)", "<": "(%s <? %s)%%N",
                         "<=": "(%s <=? %s)%%N", ">": "(%s <? %s)%%N", ">=": "(%s <=? %s)%%N"}
                if op in (">", ">="):
                    a, b = b, a
                return table[op] % (a, b), "bool"
            if ty == "nat":
                self.want(tb, "nat", y)
                self.want(ta, "nat", x)
                table = {"==": "(Nat.eqb %s %s)", "!=": "(negb (Nat.eqb %s %s))", "<": "(Nat.ltb %s %s)",
                         "<=": "(Nat.leb %s %s)", ">": "(Nat.ltb %s %s)", ">=": "(Nat.leb %s %s)"}
                if op in (">", ">="):
                    a, b = b, a
                return table[op] % (a, b), "bool"
            if ty in self.s.eqs and op in ("==", "!="):
                self.want(tb, ty, y)
                self.want(ta, ty, x)
                r = "(%s %s %s)" % (self.s.eqs[ty], a, b)
                return (r if op == "==" else "(negb %s)" % r), "bool"
            if ty == "bool" and op in ("==", "!="):
                r = "(Bool.eqb %s %s)" % (a, b)
                return (r if op == "==" else "(negb %s)" % r), "bool"
            raise TranslateError("comparison %s at type %s" % (op, ty))
        if k == "field":
            e, name = n.a
            a, ta = self.expr(e, env)
            if (ta, name) in self.s.fields:
                proj, ty = self.s.fields[(ta, name)]
                return "(%s %s)" % (proj, a), ty
            raise TranslateError("unknown field %s of type %s (%s)" % (name, ta, text))
        if k == "mcall":
            e, name, args = n.a
            if name in self.s.methods:
                a, ta = self.expr(e, env)
                aa = [self.expr(x, env) for x in args]
                return self.s.methods[name]((a, ta), aa)
            raise TranslateError("unknown method call %s" % text)
        if k == "call":
            callee, args = n.a
            ct = self.txt(callee)
            if ct in self.s.calls:
                aa = [self.expr(x, env) for x in args]
                return self.s.calls[ct](aa)
            if ct == "Some" and len(args) == 1:
                a, ta = self.expr(args[0], env)
                return "(Some %s)" % a, "option " + ta
            raise TranslateError("unknown call %s" % text)
        if k == "matches":
            scrut, pat, guard = n.a
            a, ta = self.expr(scrut, env)
            gp, b = self.pat(pat, ta)
            env2 = dict(env)
            env2.update(b)
            if guard is not None:
                g, tg = self.expr(guard, env2)
                body = g
            else:
                body = "true"
            if gp == "_" or gp.startswith("v_"):
                return "(let %s := %s in %s)" % (gp, a, body), "bool"
            return "(match %s with %s => %s | _ => false end)" % (a, gp, body), "bool"
        if k == "if":
            return self.if_(n, env, tail=False)
        if k == "match":
            return self.match_(n, env, tail=False)
        if k == "block":
            return self.block_(n, env, tail=False)
        if k == "struct":
            name, fields = n.a
            if name in self.s.struct:
                vals = {f: self.expr(e, env) for f, e in fields}
                return self.s.struct[name](vals)
            raise TranslateError("unknown struct literal %s" % name)
        if k == "try" and self.s.try_transparent:
            return self.expr(n.a, env)
        if k == "try":
            raise TranslateError("`?` outside an atom: %s" % text)
        raise TranslateError("unsupported expression %s: %s" % (k, text[:80]))

    def lit(self, v, ty):
        """an integer literal at the type of the other operand of a comparison"""
        if ty == "nat":
            return "%d%%nat" % v, "nat"
        return "%d%%N" % v, "N"

    def want(self, got, exp, node):
        if got not in (exp, "?"):
            raise TranslateError("type %s expected, %s found at %s" % (exp, got, self.txt(node)[:60]))

    # tail-position translation: `return e` allowed, tail atoms apply
    def tail(self, n, env):
        if self.s.tail_default is not None:
            # a result expression that is none of the listed ones (and cannot be translated) counts as the default
            try:
                return self.tail_(n, env)
            except TranslateError:
                return self.s.tail_default, self.s.ret
        return self.tail_(n, env)

    def tail_(self, n, env):
        text = self.txt(n)
        if text in self.s.tail_atoms:
            return self.s.tail_atoms[text], self.s.ret
        k = n.kind
        if k == "return":
            if n.a is None:
                raise TranslateError("bare return")
            return self.tail_(n.a, env)
        if k == "paren":
            return self.tail_(n.a, env)
        if k == "if":
            return self.if_(n, env, tail=True)
        if k == "match":
            return self.match_(n, env, tail=True)
        if k == "block":
            return self.block_(n, env, tail=True)
        return self.expr(n, env)

    def sub(self, n, env, tail):
        return self.tail(n, env) if tail else self.expr(n, env)

    def if_(self, n, env, tail):
        cond, then, els = n.a
        if els is None:
            raise TranslateError("if without else in expression position: %s" % self.txt(n)[:60])
        if cond.kind == "letcond":
            pat, scrut = cond.a
            a, ta = self.expr(scrut, env)
            gp, b = self.pat(pat, ta)
            env2 = dict(env)
            env2.update(b)
            x, tx = self.sub(then, env2, tail)
            y, ty = self.sub(els, env, tail)
            return "(match %s with %s => %s | _ => %s end)" % (a, gp, x, y), self.join(tx, ty)
        c, tc = self.expr(cond, env)
        self.want(tc, "bool", cond)
        x, tx = self.sub(then, env, tail)
        y, ty = self.sub(els, env, tail)
        return "(if %s then %s else %s)" % (c, x, y), self.join(tx, ty)

    def join(self, a, b):
        if a == "?" or a is None:
            return b
        if b == "?" or b is None:
            return a
        if a != b:
            if a.startswith("option") and b.startswith("option"):
                return a if "?" not in a else b
            raise TranslateError("branches of different types %s / %s" % (a, b))
        return a

    def match_(self, n, env, tail, cont=None):
        """arms are tried in order; an arm with a guard falls through to the remaining arms when the guard is false"""
        scrut, arms = n.a
        a, ta = self.expr(scrut, env)
        v = "m%d" % self.fresh
        self.fresh += 1
        ty_box = [None]

        def arm(i):
            pat, guard, body = arms[i]
            gp, b = self.pat(pat, ta)
            env2 = dict(env)
            env2.update(b)
            if cont is not None:
                bx, tb = cont(body, env2)
            else:
                bx, tb = self.sub(body, env2, tail)
            ty_box[0] = self.join(ty_box[0], tb)
            g = None
            if guard is not None:
                g, tg = self.expr(guard, env2)
                self.want(tg, "bool", guard)
            return gp, b, bx, g

        if all(g is None for _, g, _ in arms):
            # no guards: one Coq match, first matching pattern wins in both languages
            parts = []
            for i in range(len(arms)):
                gp, b, bx, _ = arm(i)
                parts.append("%s => %s" % (gp, bx))
            return "(match %s with %s end)" % (a, " | ".join(parts)), ty_box[0]

        def rest(i):
            if i >= len(arms):
                raise TranslateError("match may fall off its last arm (guards): %s" % self.txt(n)[:60])
            gp, b, bx, g = arm(i)
            irrefutable = gp == "_" or gp.startswith("v_")
            last = i == len(arms) - 1
            if g is None:
                if irrefutable:
                    return "(let %s := %s in %s)" % (gp, v, bx) if gp != "_" else bx
                if last:
                    if b:
                        raise TranslateError("last arm of a guarded match binds variables: %s" % self.txt(n)[:60])
                    # rust guarantees exhaustiveness: the other constructors were handled by earlier arms
                    return bx
                return "(match %s with %s => %s | _ => %s end)" % (v, gp, bx, rest(i + 1))
            r = rest(i + 1)
            if irrefutable:
                inner = "(if %s then %s else %s)" % (g, bx, r)
                return "(let %s := %s in %s)" % (gp, v, inner) if gp != "_" else inner
            rv = "%s_r%d" % (v, i)
            return "(let %s := %s in match %s with %s => (if %s then %s else %s) | _ => %s end)" % (
                rv, r, v, gp, g, bx, rv, rv)

        body = rest(0)
        return "(let %s := %s in %s)" % (v, a, body), ty_box[0]

    def exhaustive_last(self, v, gp, bx):
        # a binding last arm: Coq checks exhaustiveness itself; a non-exhaustive match fails to compile (reported)
        return "(match %s with %s => %s end)" % (v, gp, bx)

    def ignorable(self, text):
        return any(r.search(text) for r in self.s.ignorable)

    def block_(self, n, env, tail, k=None):
        stmts, tl = n.a
        return self.stmts(stmts, 0, tl, env, tail, n, k)

    def stmts(self, stmts, i, tl, env, tail, blk, k=None):
        """k: what follows when this block is left through its end without a value (a statement-`if` block that does
        not return): a thunk giving the translation of the statements after that `if`"""
        if i >= len(stmts):
            if tl is None:
                if k is not None:
                    return k()
                raise TranslateError("block without a value: %s" % self.txt(blk)[:60])
            return self.sub(tl, env, tail)
        s = stmts[i]
        text = self.txt(s).rstrip(";")
        if s.kind == "expr":
            e = s.a
            if self.ignorable(text):
                return self.stmts(stmts, i + 1, tl, env, tail, blk, k)
            if e.kind == "return":
                if not tail:
                    raise TranslateError("return in non-result position")
                return self.tail(e, env)
            if e.kind == "if" and e.a[2] is None and tail:
                # `if c { ...; return r; }` : the then-block must end in a return
                cond, then, _ = e.a
                tstmts, ttail = then.a
                if ttail is not None and ttail.kind == "if" and ttail.a[2] is None:
                    # a trailing `if` without else has no value: it is the block's last statement
                    tstmts, ttail = list(tstmts) + [Node("expr", ttail, ttail.lo, ttail.hi)], None
                if ttail is None and tstmts and tstmts[-1].kind == "expr" and tstmts[-1].a.kind == "return":
                    then_node = Node("block", (tstmts[:-1], tstmts[-1].a), then.lo, then.hi)
                elif ttail is not None and ttail.kind == "return":
                    then_node = then
                elif ttail is None:
                    then_node = None      # the block may be left through its end: the statements after the `if` follow
                else:
                    raise TranslateError("statement `if` whose block has a value: %s" % text[:70])
                r, tr = self.stmts(stmts, i + 1, tl, env, tail, blk, k)
                if then_node is None:
                    rest = lambda: self.stmts(stmts, i + 1, tl, env, tail, blk, k)
                    clean = lambda e2: self.stmts(tstmts, 0, None, e2, True, then, rest)
                else:
                    clean = lambda e2: self.block_tail_clean(then_node, e2)
                if cond.kind == "letcond":
                    pat, scrut = cond.a
                    a, ta = self.expr(scrut, env)
                    gp, b = self.pat(pat, ta)
                    env2 = dict(env)
                    env2.update(b)
                    x, tx = clean(env2)
                    return "(match %s with %s => %s | _ => %s end)" % (a, gp, x, r), self.join(tx, tr)
                c, tc = self.expr(cond, env)
                self.want(tc, "bool", cond)
                x, tx = clean(env)
                return "(if %s then %s else %s)" % (c, x, r), self.join(tx, tr)
            raise TranslateError("statement with unknown effect: %s" % text[:80])
        if s.kind == "assign" and self.ignorable(text):
            return self.stmts(stmts, i + 1, tl, env, tail, blk, k)
        if s.kind == "assign":
            raise TranslateError("assignment statement: %s" % text[:80])
        if s.kind == "let":
            pat, rhs, els = s.a
            if pat.kind == "pbind" and els is None:
                name = pat.a
                if rhs.kind in ("match", "if") and tail and self.has_return(rhs):
                    # let x = match e { P => return r, Q => v };  -- continuation duplicated into the arms
                    def cont(body, env2):
                        if body.kind == "return" or (body.kind == "block" and body.a[1] is not None
                                                     and body.a[1].kind == "return" and not body.a[0]):
                            return self.tail(body, env2)
                        bx, tb = self.expr(body, env2)
                        env3 = dict(env2)
                        env3[name] = tb
                        r, tr = self.stmts(stmts, i + 1, tl, env3, tail, blk, k)
                        return "(let v_%s := %s in %s)" % (name, bx, r), tr
                    if rhs.kind == "match":
                        return self.match_(rhs, env, tail, cont=cont)
                    raise TranslateError("let with returning if")
                a, ta = self.expr(rhs, env)
                env2 = dict(env)
                env2[name] = ta
                r, tr = self.stmts(stmts, i + 1, tl, env2, tail, blk, k)
                return "(let v_%s := %s in %s)" % (name, a, r), tr
            if els is not None:
                # let PAT = e else { return r };
                if not tail:
                    raise TranslateError("let-else in non-result position")
                a, ta = self.expr(rhs, env)
                gp, b = self.pat(pat, ta)
                env2 = dict(env)
                env2.update(b)
                x, tx = self.block_tail_clean(els, env)
                r, tr = self.stmts(stmts, i + 1, tl, env2, tail, blk, k)
                return "(match %s with %s => %s | _ => %s end)" % (a, gp, r, x), self.join(tx, tr)
            if pat.kind == "ptuple":
                a, ta = self.expr(rhs, env)
                gp, b = self.pat(pat, ta)
                env2 = dict(env)
                env2.update(b)
                r, tr = self.stmts(stmts, i + 1, tl, env2, tail, blk, k)
                return "(let '%s := %s in %s)" % (gp, a, r), tr
            raise TranslateError("unsupported let pattern: %s" % text[:60])
        raise TranslateError("unsupported statement " + s.kind)

    def block_tail_clean(self, blk, env):
        return self.block_(blk, env, tail=True)

    def has_return(self, n):
        return any(self.t[j][1] == "return" for j in range(n.lo, n.hi))

    # ---- reachability of an effect statement (block with effects -> bool "is the effect executed")
    def reach(self, blk, effect_re, env):
        stmts, tl = blk.a
        terms = []
        items = list(stmts) + ([Node("expr", tl, tl.lo, tl.hi)] if tl is not None else [])
        for s in items:
            text = self.txt(s).rstrip(";")
            if s.kind == "expr":
                e = s.a
                if effect_re.search(text) and e.kind in ("mcall", "call"):
                    terms.append("true")
                    continue
                if self.ignorable(text):
                    continue
                if e.kind == "if":
                    terms.append(self.reach_if(e, effect_re, env))
                    continue
                raise TranslateError("reach: statement with unknown effect: %s" % text[:80])
            raise TranslateError("reach: unsupported statement %s: %s" % (s.kind, text[:60]))
        if not terms:
            return "false"
        out = terms[0]
        for t in terms[1:]:
            out = "(%s || %s)" % (out, t)
        return out

    def reach_if(self, e, effect_re, env):
        cond, then, els = e.a
        if self.has_return(e):
            raise TranslateError("reach: return inside")
        if els is None:
            y = "false"
        elif els.kind == "if":
            y = self.reach_if(els, effect_re, env)
        else:
            y = self.reach(els, effect_re, env)
        if cond.kind == "letcond":
            pat, scrut = cond.a
            a, ta = self.expr(scrut, env)
            gp, b = self.pat(pat, ta)
            env2 = dict(env)
            env2.update(b)
            x = self.reach(then, effect_re, env2)
            return "(match %s with %s => %s | _ => %s end)" % (a, gp, x, y)
        c, tc = self.expr(cond, env)
        self.want(tc, "bool", cond)
        x = self.reach(then, effect_re, env)
        return "(if %s then %s else %s)" % (c, x, y)


# ----------------------------------------------------------------------------------------------- entry helpers

def find_let_rhs(toks, lo, hi, name):
    """the statement `let [mut] name [: T] = RHS;` directly inside the block lo..hi -> parsed `let` statement node"""
    fake, blk = parse_block(toks, lo, hi)
    for s in blk.a[0]:
        if s.kind == "let" and s.a[0].kind == "pbind" and s.a[0].a == name:
            return fake, s.a[1]
    raise TranslateError("let %s not found" % name)


def fn_block(toks, fn, impl=None):
    lo, hi = (0, len(toks))
    if impl:
        lo, hi = find_impl(toks, impl)
    b_lo, b_hi = find_fn(toks, fn, lo, hi, free=(impl is None))
    return parse_block(toks, b_lo, b_hi)
