#!/usr/bin/env python3
"""writes /verif/MANIFEST.json from the table below (kept in one place so it stays valid)."""
import json
import importlib
import os
import re
import sys

HERE = os.path.dirname(os.path.abspath(__file__))
sys.path.insert(0, HERE)

# every tools/props/Cxx.py with a MANIFEST dict(text, note, technique, design) is a claimed property
CLAIMED = {}
for f in sorted(os.listdir(os.path.join(HERE, "props"))):
    m = re.match(r"(C\d\d)\.py$", f)
    if m:
        mod = importlib.import_module("props." + m.group(1))
        if hasattr(mod, "MANIFEST"):
            CLAIMED[m.group(1)] = mod.MANIFEST

# properties whose check exists but is temporarily not claimed (reason shown in not_applicable)
HOLD = {
}
for _k in HOLD:
    CLAIMED.pop(_k, None)

# reasons for properties without a registered check
NOT_YET = dict(HOLD)

ALL = ["C%02d" % i for i in range(1, 20)]


def hook_commits():
    """the commits of /repo whose subject starts with 'hook:' (all guarded by cfg(ripgrep_verif), add-only); the list is
    committed in MANIFEST.json, so it is only refreshed when the repository is at hand"""
    import subprocess
    try:
        out = subprocess.run(["git", "-C", os.environ.get("VERIF_REPO", "/repo"), "log", "--reverse", "--format=%h %s"],
                             capture_output=True, text=True, timeout=60).stdout
        hs = [l.split()[0] for l in out.splitlines() if len(l.split()) > 1 and l.split()[1] == "hook:"]
        if hs:
            return hs
    except Exception:
        pass
    try:
        return json.load(open(os.path.join(os.path.dirname(os.path.dirname(os.path.abspath(__file__))), "MANIFEST.json")))["hooks"].get("source_commits", [])
    except Exception:
        return []


def main():
    checks = []
    for pid in ALL:
        if pid not in CLAIMED:
            continue
        c = CLAIMED[pid]
        checks.append(dict(
            property_id=pid,
            quick_cmd="./check %s --tier quick" % pid,
            thorough_cmd="./check %s --tier thorough" % pid,
            evidence_file="/verif/evidence/%s.json" % pid,
            replay_cmd_template="./check %s --replay {path}" % pid,
            engine="coq-model-correspondence",
            level_claimed=dict(category="proof", text=c["text"], design_ref=c["design"]),
            level_note=c["note"],
            technique=c["technique"]))
    na = []
    for pid in ALL:
        if pid not in CLAIMED:
            na.append(dict(property_id=pid, reason=NOT_YET.get(
                pid, "not claimed yet: model and proof under construction (see DESIGN.md §9 staging); no check registered")))
    m = dict(
        version=1,
        setup_cmd="./check --setup",
        hooks=dict(guard="ripgrep_verif", enable='RUSTFLAGS="--cfg ripgrep_verif" (set by tools/vlib.py for every cargo build)',
                   baseline_off_cmd="cd /repo && cargo test --workspace --no-fail-fast --offline",
                   source_commits=hook_commits(), add_only=True),
        engines=[dict(name="coq-model-correspondence", path="/verif/check",
                      serves_properties=sorted(CLAIMED),
                      kind_free_text="Coq 8.16 theorems about hand-written executable Gallina models; models extracted "
                                     "to OCaml and run against the real crates (Rust harness) on generated cases")],
        checks=checks,
        notes="see DESIGN.md; known findings in known_findings.txt",
        not_applicable=na)
    open(os.path.join(os.path.dirname(HERE), "MANIFEST.json"), "w").write(json.dumps(m, indent=1) + "\n")


if __name__ == "__main__":
    main()
