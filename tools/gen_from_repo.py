#!/usr/bin/env python3
"""gen_from_repo.py — regenerate coq/theories/Gen/*.v from the working tree of the ripgrep repository (DESIGN §4.2).

Called by tools/vlib.py (coq_make) before every Coq build.  Every module tools/gen/*.py that defines
`generate(repo, root)` is run; each writes its own Gen/<Name>.v (only when the text changed, so that make stays
incremental) and a status file .cache/gen/<name>.json that the property checks read (drift reporting).
Environment: VERIF_REPO (default /repo), VERIF_ROOT (default: the directory above tools/)."""
import importlib
import os
import sys
import traceback

HERE = os.path.dirname(os.path.abspath(__file__))
ROOT = os.environ.get("VERIF_ROOT") or os.path.dirname(HERE)
REPO = os.environ.get("VERIF_REPO") or "/repo"


def main():
    sys.path.insert(0, HERE)
    gd = os.path.join(HERE, "gen")
    rc = 0
    os.makedirs(os.path.join(ROOT, "coq", "theories", "Gen"), exist_ok=True)
    os.makedirs(os.path.join(ROOT, ".cache", "gen"), exist_ok=True)
    for f in sorted(os.listdir(gd)) if os.path.isdir(gd) else []:
        if not f.endswith(".py") or f.startswith("_"):
            continue
        mod = importlib.import_module("gen." + f[:-3])
        if not hasattr(mod, "generate"):
            continue
        try:
            mod.generate(REPO, ROOT)
        except Exception:
            print("gen_from_repo: %s failed:\n%s" % (f, traceback.format_exc()))
            rc = 1
    return rc


if __name__ == "__main__":
    sys.exit(main())
