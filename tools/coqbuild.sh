#!/bin/bash
ROOT=${VERIF_ROOT:-$(cd "$(dirname "$0")/.." && pwd)}
# Build the whole Coq development (full .vo build). Usage: tools/coqbuild.sh [make-args...]
set -e
cd $ROOT/coq
{
  echo "-Q theories RG"
  echo "-arg -w -arg -notation-overridden,-deprecated-hint-without-locality,-deprecated-instance-without-locality"
  find theories -name '*.v' | LC_ALL=C sort
} > _CoqProject.new
if ! cmp -s _CoqProject.new _CoqProject 2>/dev/null; then
  mv _CoqProject.new _CoqProject
  coq_makefile -f _CoqProject -o Makefile >/dev/null
else
  rm -f _CoqProject.new
  [ -f Makefile ] || coq_makefile -f _CoqProject -o Makefile >/dev/null
fi
exec timeout ${COQ_TIMEOUT:-3000} make -k -j16 "$@"   # -k: a broken proof must not keep the (proof-free) Model/Run files from being built
