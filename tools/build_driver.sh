#!/bin/bash
ROOT=${VERIF_ROOT:-$(cd "$(dirname "$0")/.." && pwd)}
# extract the model and build the OCaml driver into $ROOT/.cache/driver
set -e
mkdir -p $ROOT/.cache/driver
cd $ROOT/.cache/driver
cp $ROOT/coq/Extract.v $ROOT/driver/driver.ml .
timeout 600 coqc -Q $ROOT/coq/theories RG Extract.v >/dev/null
ocamlfind ocamlopt -w -a -O3 model.mli model.ml driver.ml -o driver 2>/dev/null || ocamlfind ocamlopt -w -a model.mli model.ml driver.ml -o driver
