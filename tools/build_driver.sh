#!/bin/bash
# extract the model and build the OCaml driver into /verif/.cache/driver
set -e
mkdir -p /verif/.cache/driver
cd /verif/.cache/driver
cp /verif/coq/Extract.v /verif/driver/driver.ml .
timeout 600 coqc -Q /verif/coq/theories RG Extract.v >/dev/null
ocamlfind ocamlopt -w -a -O3 model.mli model.ml driver.ml -o driver 2>/dev/null || ocamlfind ocamlopt -w -a model.mli model.ml driver.ml -o driver
