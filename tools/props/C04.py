"""C04 — ignore files mean what git says they mean."""
import os
import shutil
import subprocess
import tempfile

import vlib
from vlib import vbytes, vlist, parse_val

NEED_RG = True
MANIFEST = dict(
    text="Coq theorems: (pattern level) for every pattern of the documented grammar in segment form (components of "
         "literals, ?, *, classes that cannot match '/'; ** as a whole segment; anchored or not), every path: the regex "
         "meaning of the tokens ripgrep produces = git's component-wise matching (gitignore_pattern_eq_git); (line "
         "level) for every line in an executable class (both line readers run, tokens = segment form, flags agree) "
         "ripgrep's reading = GitSem's; (file level) last matching line wins through the real pipeline (add_line, glob "
         "set, reverse scan) = git's file verdict; (tree level) walker model visited = git_visited and equal listings of "
         "every finite tree, for any ignore files at any levels whose lines are lines of the documented grammar "
         "(rendered abstract syntax: optional !, optional leading /, pieces of plain/escaped literals, ?, *, positive "
         "classes not admitting '/', ** as a whole piece, optional trailing /, trailing blanks; comments; blank lines), "
         "composing last-match-wins, directory-only, nearest file first and pruning; grammar_lines_in_class proves "
         "that both line readers (add_line incl. blank trimming and the **/ and /* rewriting; git's reader) put every "
         "grammar line into the executable class. Not covered by the grammar theorem (class hypothesis or known "
         "finding): negated classes / classes admitting '/', braces, escaped backslash or slash, a leading escaped ! "
         "or #, tabs. Known findings refuted by witness. Bracket expressions in full (complement mark ! or ^, a "
         "leading ] or -, a trailing -): parse_class yields the documented token in any parser state "
         "(parse_class_documented), glob level (parse_documented_syntax_classes), meaning (class_glob_meaning); every "
         "class token the parser produces is non-empty with ascending ranges (parsed_class_tokens_wellformed), a line "
         "that is not accepted takes nothing away from its file and accepted lines cannot poison the file's regex set "
         "(unparsable_line_skipped, accepted_lines_tokens_wf). Tie to "
         "the code: three-way, git ls-files vs rg --files and ignore::WalkBuilder and "
         "Gitignore::matched_path_or_any_parents vs the model; extracted GitSem vs real git.",
    note="trusted: git 2.39 as executable specification; Coq kernel, extraction, OCaml driver, Rust harness; C12's trusted "
         "base (regex-automata reading of the regex text); known findings: bracket classes that can match '/', "
         "unescaped braces (alternation is a globset extension)",
    technique="Coq proof over executable model + three-way correspondence with real git on generated repositories",
    design="§7 C04")

K_CLASS = "ClassMatchesSeparator"
K_BRACE = "UnescapedBrace"

NAME_POOL = [b"a", b"b", b"A", b"ab", b"a.b", b"a.", b".a", b"b.", b"-", b"a-b", b"*", b"a*", b"[a]", b"a?", b"!a", b"#a",
             b"a b", b"a ", b"{a,b}", b"B", b"Ab", b"b.a", b"..a", b"a..", b"\\a", b"a\\", b"a[", b"**", b"a,b", b"c"]


def gen_name(rng):
    if rng.random() < 0.8:
        return rng.choice(NAME_POOL)
    return bytes(rng.choice(b"abAB.-*?[]! ") for _ in range(rng.randint(1, 3)))


def valid_name(n):
    return n not in (b".", b"..", b".git", b".gitignore", b"") and b"/" not in n and b"\0" not in n


def gen_tree(rng):
    """returns dict path(bytes, relative, '/'-joined) -> 'd' | 'f'; <= 4 levels, ~12 entries"""
    tree = {}
    dirs = [b""]
    for _ in range(rng.randint(3, 12)):
        parent = rng.choice(dirs)
        name = gen_name(rng)
        if not valid_name(name):
            continue
        path = name if parent == b"" else parent + b"/" + name
        if path in tree:
            continue
        depth = path.count(b"/") + 1
        if rng.random() < 0.4 and depth < 4:
            tree[path] = "d"
            dirs.append(path)
        else:
            tree[path] = "f"
    # every directory gets at least one file so that git (which lists files) can show a difference
    for d in list(dirs):
        if d and not any(p.startswith(d + b"/") for p in tree):
            tree[d + b"/" + rng.choice([b"a", b"b.", b"c"])] = "f"
    return tree


def esc(name):
    out = b""
    for c in name:
        if c in b"*?[]\\!# {},":
            out += b"\\"
        out += bytes([c])
    return out


def gen_simple(rng, names):
    """one pattern component over the documented grammar"""
    k = rng.random()
    if k < 0.35 and names:
        n = rng.choice(names)
        return esc(n) if rng.random() < 0.8 else n
    if k < 0.5 and names:
        n = rng.choice(names)
        i = rng.randint(0, len(n))
        j = rng.randint(i, len(n))
        mid = rng.choice([b"*", b"?", b"*", b"[" + (n[i:i + 1] or b"a") + b"b]", b"[a-c]", b"[A-Z]", b"[.-]"])
        if rng.random() < 0.12:
            mid = rng.choice(EDGE_POS + EDGE_NEG)
        return esc(n[:i]) + mid + esc(n[j:])
    if k < 0.6:
        return rng.choice([b"*", b"*.*", b"*.", b".*", b"?", b"a*", b"*a", b"*.a", b"[ab]", b"[a-b]*", b"a?", b"?.", b"*-*"])
    if k < 0.65:
        return rng.choice([b"\\*", b"\\!a", b"\\#a", b"a\\ ", b"\\[a\\]", b"a\\?"])
    return bytes(rng.choice(b"abAB.-") for _ in range(rng.randint(1, 2)))


def gen_line(rng, names, malformed):
    k = rng.random()
    if k < 0.05:
        return rng.choice([b"", b"# comment", b"#a", b"   ", b"\\#a"])
    if malformed and k < 0.3:
        return rng.choice([b"a[!b]c", b"[!a]", b"{a,b}", b"a{", b"[b-a]", b"a**/b", b"a/**b", b"**a", b"[/]", b"a[.-0]b",
                           b"a\\", b"[", b"***", b"a\t", b"[!a-b]*", b"!", b"/", b"\\", b"!/", b"a//b", b"//"])
    comps = [gen_simple(rng, names) for _ in range(rng.choice([1, 1, 1, 2, 2, 3]))]
    # ** in the three documented positions
    r = rng.random()
    if r < 0.1:
        comps.insert(0, b"**")
    elif r < 0.2:
        comps.append(b"**")
    elif r < 0.3 and len(comps) >= 2:
        comps.insert(rng.randint(1, len(comps) - 1), b"**")
    elif r < 0.33:
        comps = [b"**"]
    pat = b"/".join(comps)
    if rng.random() < 0.2:
        pat = b"/" + pat
    if rng.random() < 0.25:
        pat += b"/"
    if rng.random() < 0.2:
        pat = b"!" + pat
    if rng.random() < 0.1:
        pat += b" " * rng.randint(1, 2)
    return pat


DIR_NAMES = [b"a", b"ab", b"A", b"a.b", b"b.", b".a", b"a-b", b"vendor", b"a b", b"[a]", b"a*"]
SUB_NAMES = [b"keep", b"b", b"B", b"a.", b"c", b"-", b"sub.d"]
FILE_NAMES = [b"a", b"c.txt", b"b.", b".a", b"A", b"x-y", b"keep"]


def gen_idiom_repo(rng):
    """the `<dir>/*` + `!<dir>/<sub>/` re-inclusion idiom and its relatives, with files at depths 1-3 below <dir>:
    a trailing `*` covers exactly the direct children, so a re-included sub-directory shows ALL its files again"""
    d = rng.choice(DIR_NAMES)
    sub, sub2, other = rng.sample(SUB_NAMES, 3)
    f1, f2, f3, f4 = (rng.choice(FILE_NAMES) for _ in range(4))
    parent = rng.choice([b"", b"", b"p", b"A.b"])          # the directory that holds the ignore file
    base = (parent + b"/" if parent else b"") + d
    tree = {}
    if parent:
        tree[parent] = "d"
        tree[parent + b"/" + rng.choice(FILE_NAMES)] = "f"
    tree[base] = "d"
    tree[base + b"/" + f1] = "f"                              # depth 1
    tree[base + b"/" + sub] = "d"
    tree[base + b"/" + sub + b"/" + f2] = "f"                 # depth 2
    tree[base + b"/" + sub + b"/" + sub2] = "d"
    tree[base + b"/" + sub + b"/" + sub2 + b"/" + f3] = "f"   # depth 3
    tree[base + b"/" + other] = "d"
    tree[base + b"/" + other + b"/" + f4] = "f"               # depth 2, not re-included
    tree[rng.choice(FILE_NAMES)] = "f"
    if rng.random() < 0.5:                                    # the same directory name elsewhere
        tree[b"z"] = "d"
        tree[b"z/" + d] = "d"
        tree[b"z/" + d + b"/" + f1] = "f"
        tree[b"z/" + d + b"/" + sub] = "d"
        tree[b"z/" + d + b"/" + sub + b"/" + f2] = "f"
    # a file and a directory cannot share a path
    tree = {k: v for k, v in tree.items() if not (v == "f" and any(o.startswith(k + b"/") for o in tree))}
    D, S, F = esc(d), esc(sub), esc(f1)
    k = rng.randint(0, 8)
    nested = {}
    if k == 0:
        lines = [D + b"/*", b"!" + D + b"/" + S + b"/"]
    elif k == 1:
        lines = [b"/" + D + b"/*", b"!/" + D + b"/" + S + b"/"]
    elif k == 2:
        lines = [D + b"/*", b"!" + D + b"/" + F]
    elif k == 3:
        lines = [b"**/" + D + b"/*", b"!**/" + D + b"/" + S + b"/"]
    elif k == 4:
        lines = [D + b"/*", b"!" + D + b"/" + S]
    elif k == 5:                                             # the re-inclusion lives in a nested ignore file
        lines = [D + b"/*"]
        nested[base] = [b"!" + S + b"/", b"!/" + S]
    elif k == 6:
        lines = [D + b"/*", b"!" + D + b"/" + S + b"/", D + b"/" + S + b"/*", b"!" + D + b"/" + S + b"/" + esc(sub2) + b"/"]
    elif k == 7:
        lines = [D + b"/" + S + b"/*", b"!" + D + b"/" + S + b"/" + esc(sub2) + b"/", b"*.txt"]
    else:
        lines = [D + b"/*", b"!" + D + b"/*/", D + b"/" + esc(other) + b"/"]
    if rng.random() < 0.2:
        lines.insert(0, gen_line(rng, [d, sub, f1], False))
    ignores = {parent: lines}
    ignores.update(nested)
    return dict(tree=tree, ignores=ignores, ci=rng.random() < 0.1)


def gen_suffix_repo(rng):
    """several `**/x/y/z`-style patterns of different lengths in one ignore file (they share one suffix table in the
    glob set), the longer first or last, with matching files and directories at depth 0-3"""
    comps = [b"a", b"b", b"ab", b"a.b", b"x-y", b"b.", b"A"]
    chain = rng.sample(comps, 4)
    k = rng.sample([1, 2, 3, 4], rng.randint(2, 3))          # numbers of trailing components used by each pattern
    if rng.random() < 0.6:
        k.sort(reverse=True)
    pats, tree = [], {}
    for n in k:
        tail = chain[4 - n:] if n > 1 else [chain[3], rng.choice(comps)]
        body = b"/".join(esc(c) for c in tail)
        pats.append(b"**/" + body + rng.choice([b"", b"", b"/"]))
        for pre in (b"", b"d/", b"d/e/", b"A/d/e/"):
            path = pre + b"/".join(tail)
            if rng.random() < 0.5:
                tree[path] = "f"
            else:
                tree[path] = "d"
                tree[path + b"/" + rng.choice([b"c", b"a.", b"keep"])] = "f"
    if rng.random() < 0.3:
        pats.insert(rng.randint(0, len(pats)), gen_line(rng, comps, False))
    # directories implied by the paths
    for path in list(tree):
        parts = path.split(b"/")
        for i in range(1, len(parts)):
            tree.setdefault(b"/".join(parts[:i]), "d")
    tree = {p: t for p, t in tree.items() if not (t == "f" and any(o.startswith(p + b"/") for o in tree))}
    where = rng.choice([b"", b"", b"d"]) if b"d" in tree and tree[b"d"] == "d" else b""
    return dict(tree=tree, ignores={where: pats}, ci=False)


def gen_ext_rules_repo(rng):
    """two or three wildcard rules with the same trailing extension that match the same files, with opposite polarity
    (`src/*.rs` then `!src/m*.rs`): the last matching rule must win, so every matching rule has to be found"""
    ext = rng.choice([b".rs", b".a", b".b", b".txt"])
    d = rng.choice([b"src", b"a", b"a.b", b""])
    pre = (d + b"/") if d else b""
    stems = [b"m", b"main", b"mod", b"a", b"lib", b"b-m"]
    tree = {}
    if d:
        tree[d] = "d"
        tree[d + b"/sub"] = "d"
    for st in rng.sample(stems, 4):
        tree[pre + st + ext] = "f"
        if d and rng.random() < 0.5:
            tree[d + b"/sub/" + st + ext] = "f"
        if rng.random() < 0.3:
            tree[st + ext] = "f"
    tree[pre + b"keep.x"] = "f"
    if d:
        tree[d] = "d"
        tree[d + b"/sub"] = "d"
    tree = {p0: t for p0, t in tree.items() if not (t == "f" and any(o.startswith(p0 + b"/") for o in tree))}
    k = rng.randint(0, 4)
    P = esc(pre) if pre else b""
    if k == 0:
        lines = [P + b"*" + ext, b"!" + P + b"m*" + ext]
    elif k == 1:
        lines = [b"!" + P + b"m*" + ext, P + b"*" + ext]
    elif k == 2:
        lines = [P + b"*" + ext, b"!" + P + b"m*" + ext, P + b"ma*" + ext]
    elif k == 3:
        lines = [b"m*" + ext, b"!*a*" + ext, b"?" + ext]
    else:
        lines = [b"**/*" + ext[:0] + b"?" + ext, b"!" + P + b"[lm]*" + ext, P + b"mod" + ext]
    if rng.random() < 0.2:
        lines.append(gen_line(rng, [b"m", b"main"], False))
    return dict(tree=tree, ignores={b"": lines}, ci=False)


def gen_blank_repo(rng):
    """names with blanks, written with an UNESCAPED inner blank followed only by escapes (and blanks) up to the end
    of the line: git drops only the unescaped trailing run (`a \\b` is the name "a b", `c \\ ` is "c  "); the files
    named like the truncated prefixes exist too, so a wrong cut shows in the listing"""
    tree = {}
    lines = []
    for _ in range(rng.randint(1, 3)):
        pre = rng.choice([b"a", b"c", b"d", b"ab", b"A.", b"x-y", b"d\\ e".replace(b"\\", b"")])
        tail = bytes(rng.choice(b"b e!a") for _ in range(rng.randint(1, 3)))
        full = pre + b" " + tail
        k = rng.randint(0, 3)
        if k == 0:
            pat = esc(pre) + b" " + b"".join(b"\\" + bytes([c]) for c in tail)          # a \b\ \!
        elif k == 1:
            pat = esc(pre) + b" " + b"".join((b"\\" + bytes([c])) if c in b" !" else bytes([c]) for c in tail)
        elif k == 2:
            pat = esc(pre) + b"\\ " + esc(tail[:1]) + b" " + b"".join(b"\\" + bytes([c]) for c in tail[1:])
            full = pre + b" " + tail[:1] + b" " + tail[1:]
        else:
            pat = esc(full)
        pat += b" " * rng.choice([0, 0, 1, 2])
        if rng.random() < 0.2:
            pat = b"!" + pat
            lines.append(esc(pre) + b"*")
        lines.append(pat)
        sub = rng.choice([b"", b"sub/"])
        if sub:
            tree[b"sub"] = "d"
        for name in {full, pre, pre + b" ", full.rstrip(b" ") or full, full + b" ", pre + b" " + tail[:1], b"keep"}:
            if valid_name(name) and not name.endswith(b"/"):
                tree[sub + name] = "f"
                tree[name] = "f"
    tree = {k: v for k, v in tree.items() if not (v == "f" and any(o.startswith(k + b"/") for o in tree))}
    return dict(tree=tree, ignores={b"": lines}, ci=False)


# Bracket expressions at the edges of the class grammar.  gitignore(5) refers to fnmatch(3) / glob(7) for `[...]`:
# "a ']' may be included in a bracket expression by placing it first (after the '!' or '^', if any)", both `!` and `^`
# complement the class, a '-' that is first or last stands for itself.  globset documents `[!ab]`; its parser reads `^`
# the same way.  The lists are spelled out (not derived from ripgrep's parser).
EDGE_POS = [b"[]]", b"[]a]", b"[]-]", b"[]a-c]", b"[]-a]", b"[a-]", b"[-a]", b"[-]", b"[a-c-]", b"[-a-c]", b"[]ab-]",
            b"[a-]]", b"[+-]]", b"[a^]", b"[a!]"]
EDGE_NEG = [b"[!]]", b"[^]]", b"[!]a]", b"[^]a]", b"[!]-]", b"[^]-]", b"[^]a-c]", b"[!]a-c]", b"[!-a]", b"[^-a]", b"[^a-]",
            b"[!a-]", b"[^a]", b"[!a]", b"[^a-c]", b"[!a-c]", b"[^]-a]", b"[!]ab-]", b"[^]ab-]", b"[^^]", b"[!!]", b"[^!]"]
EDGE_BAD = [b"[b-a]", b"[", b"[^", b"[^]", b"[!]", b"[]", b"a\\", b"[]-", b"[^]-"]    # lines both tools reject or never match
EDGE_PROBES = [b"]", b"-", b"a", b"b", b"c", b"^", b"!", b"+", b"1", b"[", b"z"]


def gen_class_repo(rng):
    """one or two ignore files in which a class line of the edge grammar stands NEXT TO ordinary rules (`*.log`, a
    literal name, a re-inclusion): a line the glob machinery cannot digest must not take the other lines of its file
    with it.  The tree holds, at depths 0-2, every one-character instantiation of the class position, so git and rg
    are compared on each member/non-member; no directory is named like the literal prefix of the class line, so the
    known finding ClassMatchesSeparator cannot be involved."""
    k = rng.random()
    cls = rng.choice(EDGE_NEG) if k < 0.55 else (rng.choice(EDGE_POS) if k < 0.9 else rng.choice(EDGE_BAD))
    pre = rng.choice([b"n", b"n", b"x.", b""])
    suf = rng.choice([b"m", b"m", b".y", b""])
    if pre == b"" and suf == b"":
        suf = b"m"
    where = rng.choice([b"", b"", b"sub", b"sub/deep"])
    tree = {b"sub": "d", b"sub/deep": "d", b"keep.txt": "f", b"a.log": "f", b"sub/b.log": "f", b"sub/deep/c.log": "f",
            b"sub/keep": "f", b"sub/deep/keep": "f", b"lit": "f", b"sub/lit": "f"}
    for d in (b"", b"sub/", b"sub/deep/"):
        for c in EDGE_PROBES:
            tree[d + pre + c + suf] = "f"
        tree[d + pre + suf] = "f"
        tree[d + pre + b"ab" + suf] = "f"
    line = pre + cls + suf
    form = rng.random()
    if form < 0.2:
        line = b"/" + line
    elif form < 0.4 and where == b"":
        line = rng.choice([b"sub/", b"sub/deep/", b"**/", b"sub/**/"]) + line
    others = [b"*.log", rng.choice([b"lit", b"/lit", b"keep", b"*.txt"])]
    lines = list(others)
    lines.insert(rng.randint(0, len(lines)), line)
    if rng.random() < 0.3:
        lines = [pre + b"*" + suf] + lines[:]
        lines[lines.index(line)] = b"!" + line
    ignores = {where: lines}
    if where != b"" and rng.random() < 0.5:
        ignores[b""] = [b"*.log", pre + rng.choice(EDGE_POS + EDGE_NEG) + suf]
    tree = {k: v for k, v in tree.items() if valid_name(k.split(b"/")[-1])}
    return dict(tree=tree, ignores=ignores, ci=False)


def gen_repo(rng, malformed):
    tree = gen_tree(rng)
    names = sorted({p.split(b"/")[-1] for p in tree})
    dirs = [b""] + sorted(p for p, t in tree.items() if t == "d")
    ignores = {}
    for d in rng.sample(dirs, min(len(dirs), rng.choice([1, 1, 2, 3]))):
        if rng.random() < 0.15 and d != b"":
            continue
        lines = [gen_line(rng, names, malformed) for _ in range(rng.randint(1, 5))]
        ignores[d] = lines
    if b"" not in ignores and rng.random() < 0.7:
        ignores[b""] = [gen_line(rng, names, malformed) for _ in range(rng.randint(1, 4))]
    return dict(tree=tree, ignores=ignores, ci=rng.random() < 0.2)


_seen = {}
_pending = []


def viol(ctx, what, rep, nfi=False, detail=""):
    """at most 3 replays per kind (`detail` is shown but does not make a new kind); the message names the ignore
    files and the first differing path; reports without a failing input are held back and dropped when the run
    produced a concrete violation"""
    _seen[what] = _seen.get(what, 0) + 1
    if _seen[what] > 3:
        return
    wit = detail
    if "repo" in rep:
        wit = " [ignore files=%r" % (rep["repo"]["ignores"],)
        if "git" in rep and "rg" in rep:
            g, r = set(rep["git"]), set(rep["rg"])
            if g != r:
                wit += " git-only=%r rg-only=%r" % (sorted(g - r)[:3], sorted(r - g)[:3])
        if rep.get("entries"):
            wit += " entries=%r" % (rep["entries"][:3],)
        wit += "]"
    if nfi:
        _pending.append((what + wit, rep))
    else:
        ctx.violation(what + wit, rep, nfi=False)


def flush_pending(ctx):
    if not [v for v in ctx.violations if not v[1]]:
        for what, rep in _pending:
            ctx.violation(what, rep, nfi=True)
    del _pending[:]


# ----------------------------------------------------------------------------- running git and rg

def git_env(home):
    e = dict(os.environ)
    e.update(HOME=home, GIT_CONFIG_NOSYSTEM="1", GIT_CONFIG_GLOBAL="/dev/null", XDG_CONFIG_HOME=home,
             LC_ALL="C", GIT_TERMINAL_PROMPT="0")
    return e


def materialize(repo, root):
    os.makedirs(root, exist_ok=True)
    subprocess.run(["git", "init", "-q", root], env=git_env(root), stdin=subprocess.DEVNULL, check=True,
                   stdout=subprocess.DEVNULL, stderr=subprocess.DEVNULL)
    rb = os.fsencode(root)
    for p, t in sorted(repo["tree"].items()):
        full = os.path.join(rb, p)
        if t == "d":
            os.makedirs(full, exist_ok=True)
        else:
            os.makedirs(os.path.dirname(full), exist_ok=True)
            open(full, "wb").write(b"x\n")
    for d, lines in repo["ignores"].items():
        full = os.path.join(rb, d, b".gitignore") if d else os.path.join(rb, b".gitignore")
        os.makedirs(os.path.dirname(full), exist_ok=True)
        open(full, "wb").write(b"".join(l + b"\n" for l in lines))


def run_git_files(repo, root):
    cmd = ["git"] + (["-c", "core.ignorecase=true"] if repo["ci"] else []) + \
          ["ls-files", "--others", "--exclude-standard", "-z"]
    p = subprocess.run(cmd, cwd=root, env=git_env(root), stdin=subprocess.DEVNULL, stdout=subprocess.PIPE,
                       stderr=subprocess.PIPE)
    return sorted(x for x in p.stdout.split(b"\0") if x)


def run_rg_files(repo, root):
    cmd = [vlib.RG, "--no-config", "--files", "--hidden", "--no-ignore-dot", "--no-ignore-global", "--no-ignore-parent",
           "--no-ignore-exclude", "-0", "--sort", "path"]
    if repo["ci"]:
        cmd.append("--ignore-file-case-insensitive")
    p = subprocess.run(cmd, cwd=root, env=git_env(root), stdin=subprocess.DEVNULL, stdout=subprocess.PIPE,
                       stderr=subprocess.PIPE)
    out = []
    for x in p.stdout.split(b"\0"):
        if not x:
            continue
        if x.startswith(b"./"):
            x = x[2:]
        if x == b".git" or x.startswith(b".git/"):
            continue
        out.append(x)
    return sorted(out), p.stderr


def run_check_ignore(repo, root, paths):
    """git check-ignore --no-index -v -n -z --stdin: returns dict path -> (ignored?, pattern)"""
    cmd = ["git"] + (["-c", "core.ignorecase=true"] if repo["ci"] else []) + \
          ["check-ignore", "--no-index", "-v", "-n", "-z", "--stdin"]
    p = subprocess.run(cmd, cwd=root, env=git_env(root), input=b"".join(x + b"\0" for x in paths),
                       stdout=subprocess.PIPE, stderr=subprocess.PIPE)
    f = p.stdout.split(b"\0")
    res = {}
    for i in range(0, len(f) - 3, 4):
        src, ln, pat, path = f[i:i + 4]
        res[path] = (bool(pat) and not pat.startswith(b"!"), pat)
    return res


# ----------------------------------------------------------------------------- classification of divergences

def line_features(line):
    """syntactic features of one ignore line (after git's own trimming) used by the known-finding classes"""
    feats = set()
    i = 0
    n = len(line)
    while i < n:
        c = line[i:i + 1]
        if c == b"\\":
            i += 2
            continue
        if c in (b"{", b"}"):
            feats.add(K_BRACE)
        if c == b"[":
            j = i + 1
            neg = False
            if j < n and line[j:j + 1] in (b"!", b"^"):
                neg = True
                j += 1
            if j < n and line[j:j + 1] == b"]":
                j += 1
            start = j
            while j < n and line[j:j + 1] != b"]":
                j += 1
            if j < n:
                body = line[start:j]
                if neg or b"/" in body:
                    feats.add(K_CLASS)
                for k in range(len(body) - 2):
                    if body[k + 1:k + 2] == b"-" and body[k] <= 0x2F <= body[k + 2]:
                        feats.add(K_CLASS)
                i = j + 1
                continue
        i += 1
    return feats


def repo_features(repo):
    f = set()
    for lines in repo["ignores"].values():
        for l in lines:
            f |= line_features(l)
    return f


def in_documented_grammar(line):
    """the documented grammar the theorems are about: comments, blanks, optional `!`, optional leading `/`,
    components of literals (escaped or not), `*`, `?`, bracket classes, `**` only as a whole component and never
    twice in a row, optional trailing `/`, trailing blanks.  Excluded (git documents no meaning): tabs, `***`,
    `//`, an empty pattern body (`!`, `/`, `!/`), an unclosed `[`, a backslash inside a class or directly before
    a `/` or dangling at the end, a reversed class range, `**` glued to other characters."""
    if line.startswith(b"#"):
        return True
    if b"\t" in line or b"***" in line or b"//" in line:
        return False
    # git's own trimming of unescaped trailing blanks
    body = line
    i = 0
    last_space = None
    while i < len(body):
        c = body[i:i + 1]
        if c == b" ":
            if last_space is None:
                last_space = i
        elif c == b"\\":
            if i + 1 >= len(body):
                return False                       # dangling backslash
            i += 1
            last_space = None
        else:
            last_space = None
        i += 1
    if last_space is not None:
        body = body[:last_space]
    if body == b"":
        return True                                # blank line
    if body.startswith(b"!"):
        body = body[1:]
    if body.rstrip(b"/") == b"" or body.lstrip(b"/") == b"":
        return False                               # empty pattern body
    # scan: escapes, classes
    i = 0
    while i < len(body):
        c = body[i:i + 1]
        if c == b"\\":
            if body[i + 1:i + 2] == b"/":
                return False                       # escaped separator
            i += 2
            continue
        if c == b"[":
            j = i + 1
            if body[j:j + 1] in (b"!", b"^"):
                j += 1
            j0 = j                                 # members start here (a leading `]` is a member)
            if body[j:j + 1] == b"]":
                j += 1
            k = body.find(b"]", j)
            if k < 0:
                return False                       # unclosed class
            cls = body[j0:k]
            if b"\\" in cls or b"[" in cls:
                return False
            for t in range(len(cls) - 2):
                if cls[t + 1:t + 2] == b"-" and cls[t] > cls[t + 2]:
                    return False
            i = k + 1
            continue
        i += 1
    parts = body.strip(b"/").split(b"/") if b"/" in body.strip(b"/") or body.startswith(b"/") else [body.rstrip(b"/")]
    prev_dstar = False
    for p in parts:
        if b"**" in p and p != b"**":
            return False
        if p == b"**" and prev_dstar:
            return False
        prev_dstar = (p == b"**")
    return True


def show(repo):
    return dict(tree={k.decode("latin1"): v for k, v in repo["tree"].items()},
                ignores={k.decode("latin1"): [l.decode("latin1") for l in v] for k, v in repo["ignores"].items()},
                ci=repo["ci"])


def unshow(r):
    return dict(tree={k.encode("latin1"): v for k, v in r["tree"].items()},
                ignores={k.encode("latin1"): [l.encode("latin1") for l in v] for k, v in r["ignores"].items()},
                ci=r["ci"])


# ----------------------------------------------------------------------------- model / library level (kinds 401-403)

def entries_of(repo):
    ents = dict(repo["tree"])
    for d in repo["ignores"]:
        ents[(d + b"/" if d else b"") + b".gitignore"] = "f"
    return sorted(ents.items())


def lib_case(repo, base):
    """(ci ((dir lines)...) ((path is_dir)...) base); ignore files deepest first"""
    order = sorted(repo["ignores"].items(), key=lambda kv: (-(kv[0].count(b"/") + 1 if kv[0] else 0), kv[0]))
    igs = vlist([vlist([vbytes(d), vlist([vbytes(l) for l in lines])]) for d, lines in order])
    ents = vlist([vlist([vbytes(p), "1" if t == "d" else "0"]) for p, t in entries_of(repo)])
    return vlist(["1" if repo["ci"] else "0", igs, ents, vbytes(os.fsencode(base))])


def ci_class_quirk(repo):
    """git's wildmatch under core.ignorecase does not fold single upper-case members of a bracket class
    ([Ab] does not match 'A'); such repositories are outside the documented grammar"""
    if not repo["ci"]:
        return False
    for ls in repo["ignores"].values():
        for l in ls:
            i = l.find(b"[")
            if i >= 0 and any(65 <= c <= 90 or 97 <= c <= 122 for c in l[i:]):
                return True
    return False


def feature_stats(ctx, repo):
    st = ctx.cov.setdefault("features", {})
    allines = [l for ls in repo["ignores"].values() for l in ls]
    for name, pred in (("negation", lambda l: l.startswith(b"!")), ("dir_only", lambda l: l.rstrip(b" ").endswith(b"/")),
                       ("anchored", lambda l: b"/" in l.rstrip(b" /")), ("double_star", lambda l: b"**" in l),
                       ("escape", lambda l: b"\\" in l), ("trailing_blank", lambda l: l.endswith(b" ")),
                       ("comment", lambda l: l.startswith(b"#")), ("class", lambda l: b"[" in l)):
        if any(pred(l) for l in allines):
            st[name] = st.get(name, 0) + 1
    if len(repo["ignores"]) > 1:
        st["nested_ignore_files"] = st.get("nested_ignore_files", 0) + 1
    if repo["ci"]:
        st["case_insensitive"] = st.get("case_insensitive", 0) + 1
    if any(p.split(b"/")[-1].endswith(b".") for p in repo["tree"]):
        st["name_ending_in_dot"] = st.get("name_ending_in_dot", 0) + 1
    if any(set(p.split(b"/")[-1]) & set(b"*?[]!#{}") for p in repo["tree"]):
        st["glob_like_name"] = st.get("glob_like_name", 0) + 1


def check_repos(ctx, repos):
    base = tempfile.mkdtemp(dir=vlib.CACHE, prefix="c04-")
    try:
        lines = [lib_case(r, base) for r in repos]
        mo = vlib.model(401, lines)
        co = vlib.code(401, lines)
        for idx, (repo, line, m, c) in enumerate(zip(repos, lines, mo, co)):
            root = os.path.join(base, "r%d" % idx)
            materialize(repo, root)
            gfiles = run_git_files(repo, root)
            rfiles, rerr = run_rg_files(repo, root)
            feats = repo_features(repo)
            ents = entries_of(repo)
            files = [p for p, t in ents if t == "f"]
            allines = [l for ls in repo["ignores"].values() for l in ls]
            grammar = all(in_documented_grammar(l) for l in allines) and not ci_class_quirk(repo)
            nontrivial = 0 < len([f for f in files if f not in gfiles]) and len(gfiles) > len(repo["ignores"])
            ctx.note_case(line, nontrivial)
            feature_stats(ctx, repo)
            if nontrivial:
                ctx.sample(dict(repo=show(repo), git_lists=[x.decode("latin1") for x in gfiles]))
            rep = dict(kind=401, repo=show(repo), git=[x.decode("latin1") for x in gfiles],
                       rg=[x.decode("latin1") for x in rfiles], rg_stderr=rerr.decode("latin1")[:300])
            known = K_CLASS if K_CLASS in feats else (K_BRACE if K_BRACE in feats else None)
            m_ok = not (m in ("MISSING", "STACKOVERFLOW", "PANIC") or m.startswith("PARSEFAIL"))
            # what the walker model lists: the model mirrors the unpatched code INCLUDING the known findings (they are
            # refuted by witness on the model), so a divergence from git is "known" only when rg does what the model does
            model_files = None
            if m_ok:
                mv0 = list(parse_val(m)[1])
                model_files = sorted(ents[i][0] for i in range(len(ents)) if ents[i][1] == "f" and mv0[i])
            # 1. the property: rg --files = git ls-files --others --exclude-standard
            if gfiles != rfiles:
                if known and (model_files is None or model_files == rfiles):
                    ctx.known(known, "ignore files %r: git lists %r, rg lists %r" % (show(repo)["ignores"], rep["git"], rep["rg"]))
                elif known:
                    viol(ctx, "rg --files lists a different set of files than git ls-files --others --exclude-standard, "
                              "and not the set the known finding %s (present in the model) explains" % known,
                         dict(rep, model_lists=[x.decode("latin1") for x in model_files]))
                elif grammar:
                    viol(ctx, "rg --files lists a different set of files than git ls-files --others "
                                  "--exclude-standard", rep)
                else:
                    ctx.cov["undocumented_shape_divergences"] = ctx.cov.get("undocumented_shape_divergences", 0) + 1
            # 1b. every line is a line of the documented grammar: rg has nothing to complain about (a line it cannot
            # digest is reported on stderr; when the glob SET of a file cannot be built the whole file is dropped)
            if grammar and K_BRACE not in feats and rerr.strip():
                viol(ctx, "rg reports an error for ignore files whose lines are all lines of the documented grammar",
                     rep, nfi=(gfiles == rfiles), detail=" [stderr=%r]" % rerr.decode("latin1")[:160])
            if not m_ok or c in ("PANIC", "MISSING"):
                viol(ctx, "model/harness failure on a repository case: model=%s code=%s" % (m[:30], c[:30]), rep)
                continue
            mv, cv = parse_val(m), parse_val(c)
            m_vis = list(mv[1]) if not isinstance(mv[1], bytes) else list(mv[1])
            c_vis = list(cv[1]) if not isinstance(cv[1], bytes) else list(cv[1])
            s_vis = list(mv[2])
            # 2. link 2: walker model vs the real walker (every entry, directories included)
            if m_vis != c_vis:
                bad = [ents[i][0].decode("latin1") for i in range(len(ents)) if m_vis[i] != c_vis[i]]
                viol(ctx, "gitignore/walker model and ignore::WalkBuilder disagree on which entries are visited "
                              "(theorems of Props/C04.v no longer describe the code)",
                              dict(rep, entries=bad, model=m, code=c), nfi=(gfiles == rfiles))
            # 3. the library walker and the rg binary agree
            lib_files = sorted(ents[i][0] for i in range(len(ents)) if ents[i][1] == "f" and c_vis[i])
            if lib_files != rfiles:
                viol(ctx, "rg --files and ignore::WalkBuilder (same configuration) list different files",
                              dict(rep, lib=[x.decode("latin1") for x in lib_files]), nfi=(gfiles == rfiles))
            # 4. the specification itself: GitSem (extracted) vs real git, on the documented grammar
            spec_files = sorted(ents[i][0] for i in range(len(ents)) if ents[i][1] == "f" and s_vis[i])
            if grammar and not known:
                ctx.cov["spec_vs_git_repos"] = ctx.cov.get("spec_vs_git_repos", 0) + 1
                if spec_files != gfiles:
                    viol(ctx, "Spec/GitSem.v (git's documented semantics) disagrees with real git: the specification "
                                  "is wrong", dict(rep, spec=[x.decode("latin1") for x in spec_files]), nfi=True)
                # 5. rg model vs GitSem (the statement gitignore_eq_git, tested where it is not proved)
                if [m_vis[i] for i in range(len(ents)) if ents[i][1] == "f"] != \
                   [s_vis[i] for i in range(len(ents)) if ents[i][1] == "f"] and gfiles == rfiles:
                    viol(ctx, "rg model and GitSem disagree on a repository where rg and git agree",
                                  dict(rep, model=m), nfi=True)
            shutil.rmtree(root, ignore_errors=True)
    finally:
        shutil.rmtree(base, ignore_errors=True)


def check_one_file(ctx, repos):
    """kind 402: Gitignore::matched_path_or_any_parents vs model (all repos with a root ignore file)"""
    cases = [r for r in repos if b"" in r["ignores"]]
    lines = [vlist(["1" if r["ci"] else "0", vlist([vbytes(l) for l in r["ignores"][b""]]),
                    vlist([vlist([vbytes(p), "1" if t == "d" else "0"]) for p, t in sorted(r["tree"].items())])])
             for r in cases]
    mo = vlib.model(402, lines)
    co = vlib.code(402, lines)
    for r, line, m, c in zip(cases, lines, mo, co):
        ctx.cov["one_file_cases"] = ctx.cov.get("one_file_cases", 0) + 1
        if m != c:
            viol(ctx, "Gitignore::matched_path_or_any_parents: model and code disagree",
                          dict(kind=402, repo=show(r), line=line, model=m, code=c), nfi=True)


# ----------------------------------------------------------------------------- nested repositories

NEST_NAMES = [b"a", b"b", b"A", b"ab", b"a.b", b"a.txt", b"b.log", b"c.tmp", b"d.md", b"a-b", b"x.", b"keep", b"a b"]


def gen_nested_pattern(rng, names):
    """unanchored patterns only (rules above the search root; see the C05 finding ParentRuleRebase for anchored ones)"""
    k = rng.random()
    if k < 0.4:
        p = esc(rng.choice(names))
    elif k < 0.8:
        p = rng.choice([b"*.txt", b"*.log", b"*.tmp", b"*.md", b"a*", b"*b", b"*.*", b"?", b"[ab]", b"*.", b"a?b", b"keep"])
    else:
        p = rng.choice([b"*", b"sub/", b"sub", b"d/"])
    if rng.random() < 0.15:
        p = b"!" + p
    if rng.random() < 0.1:
        p += b"/"
    return p


def gen_nested(rng):
    """an outer repository containing an inner one (one or two directories down); .gitignore and .git/info/exclude in
    both; files in the inner repository and in a sub-directory of it.  Only the inner repository's files decide."""
    names = rng.sample(NEST_NAMES, rng.randint(3, 7))
    mid = rng.choice([b"", b"", b"m"])
    files = {}
    for n in names:
        where = rng.choice([b"", b"sub/", b"both"])
        if where in (b"", b"both"):
            files[n] = "f"
        if where in (b"sub/", b"both"):
            files[b"sub/" + n] = "f"
    files.setdefault(b"sub/" + rng.choice(names), "f")
    files.setdefault(rng.choice(names), "f")
    if rng.random() < 0.3:
        files[b"sub/d/" + rng.choice(names)] = "f"
    pats = lambda lo, hi: [gen_nested_pattern(rng, names) for _ in range(rng.randint(lo, hi))]
    return dict(mid=mid, files=files, outer_gitignore=pats(0, 2), outer_exclude=pats(1, 3),
                inner_gitignore=pats(0, 3), inner_exclude=pats(0, 2), sub_gitignore=pats(0, 1),
                mid_gitignore=pats(0, 1) if mid else [])


def show_nested(c):
    d = dict(c)
    d["files"] = sorted(k.decode("latin1") for k in c["files"])
    for k in ("outer_gitignore", "outer_exclude", "inner_gitignore", "inner_exclude", "sub_gitignore", "mid_gitignore"):
        d[k] = [x.decode("latin1") for x in c[k]]
    d["mid"] = c["mid"].decode("latin1")
    return d


def unshow_nested(d):
    c = dict(d)
    c["files"] = {k.encode("latin1"): "f" for k in d["files"]}
    for k in ("outer_gitignore", "outer_exclude", "inner_gitignore", "inner_exclude", "sub_gitignore", "mid_gitignore"):
        c[k] = [x.encode("latin1") for x in d[k]]
    c["mid"] = d["mid"].encode("latin1")
    return c


def write_lines(path, lines):
    os.makedirs(os.path.dirname(path), exist_ok=True)
    open(path, "wb").write(b"".join(l + b"\n" for l in lines))


def check_nested(ctx, cases):
    """rg started inside an inner repository (at its top and in a sub-directory) vs git run at the same place: rules
    of the outer repository (.gitignore, .git/info/exclude) and of directories between the two must not apply; the
    inner repository's .gitignore / info/exclude (above the search root when started in sub/) must.  Oracle vs code
    only: ignore files above the search root and info/exclude are outside the Coq model."""
    base = tempfile.mkdtemp(dir=vlib.CACHE, prefix="c04n-")
    try:
        for idx, c in enumerate(cases):
            outer = os.path.join(os.fsencode(base), b"o%d" % idx)
            inner = os.path.join(outer, c["mid"], b"inner") if c["mid"] else os.path.join(outer, b"inner")
            os.makedirs(os.path.join(inner, b"sub"), exist_ok=True)
            env = git_env(base)
            for repo in (outer, inner):
                subprocess.run(["git", "init", "-q", os.fsdecode(repo)], env=env, stdin=subprocess.DEVNULL, check=True,
                               stdout=subprocess.DEVNULL, stderr=subprocess.DEVNULL)
            if c["outer_gitignore"]:
                write_lines(os.path.join(outer, b".gitignore"), c["outer_gitignore"])
            write_lines(os.path.join(outer, b".git", b"info", b"exclude"), c["outer_exclude"])
            if c["mid"] and c["mid_gitignore"]:
                write_lines(os.path.join(outer, c["mid"], b".gitignore"), c["mid_gitignore"])
            if c["inner_gitignore"]:
                write_lines(os.path.join(inner, b".gitignore"), c["inner_gitignore"])
            write_lines(os.path.join(inner, b".git", b"info", b"exclude"), c["inner_exclude"])
            if c["sub_gitignore"]:
                write_lines(os.path.join(inner, b"sub", b".gitignore"), c["sub_gitignore"])
            for f in c["files"]:
                full = os.path.join(inner, f)
                os.makedirs(os.path.dirname(full), exist_ok=True)
                open(full, "wb").write(b"x\n")
            for where in (b"", b"sub"):
                cwd = os.path.join(inner, where) if where else inner
                if where:
                    # a search root that the repository itself ignores is searched anyway (an explicitly given root is
                    # never skipped) while git lists nothing there: not a statement of the property
                    q = subprocess.run(["git", "check-ignore", "-q", "sub"], cwd=inner, env=env, stdin=subprocess.DEVNULL,
                                       stdout=subprocess.DEVNULL, stderr=subprocess.DEVNULL)
                    if q.returncode == 0:
                        ctx.cov["nested_root_ignored_skipped"] = ctx.cov.get("nested_root_ignored_skipped", 0) + 1
                        continue
                g = subprocess.run(["git", "ls-files", "--others", "--exclude-standard", "-z"], cwd=cwd, env=env,
                                   stdin=subprocess.DEVNULL, stdout=subprocess.PIPE, stderr=subprocess.PIPE)
                gfiles = sorted(x for x in g.stdout.split(b"\0") if x)
                r = subprocess.run([vlib.RG, "--no-config", "--files", "--hidden", "--no-ignore-dot", "--no-ignore-global",
                                    "-0", "--sort", "path"], cwd=cwd, env=env, stdin=subprocess.DEVNULL,
                                   stdout=subprocess.PIPE, stderr=subprocess.PIPE)
                rfiles = []
                for x in r.stdout.split(b"\0"):
                    if x.startswith(b"./"):
                        x = x[2:]
                    if x and x != b".git" and not x.startswith(b".git/"):
                        rfiles.append(x)
                rfiles.sort()
                ctx.cov["nested_runs"] = ctx.cov.get("nested_runs", 0) + 1
                hidden_by_inner = len(c["files"]) + 1 - len(gfiles) > 0
                ctx.note_case(repr((show_nested(c), where)), hidden_by_inner)
                if gfiles != rfiles:
                    gs, rs = set(gfiles), set(rfiles)
                    rep = dict(kind="nested", case=show_nested(c), started_in="inner/" + where.decode(),
                               git=[x.decode("latin1") for x in gfiles], rg=[x.decode("latin1") for x in rfiles],
                               rg_stderr=r.stderr.decode("latin1")[:300])
                    feats = set()
                    for k in ("inner_gitignore", "inner_exclude", "sub_gitignore"):
                        for l in c[k]:
                            feats |= line_features(l)
                    if feats:
                        ctx.known(sorted(feats)[0], "nested repositories %r" % (rep,))
                        continue
                    what = ("rg --files started inside a nested repository lists a different set of files than git there "
                            "(ignore rules of the outer repository or of the inner one applied wrongly) "
                            "[started in inner/%s outer exclude=%r outer .gitignore=%r inner exclude=%r inner .gitignore=%r "
                            "git-only=%r rg-only=%r]" % (where.decode(), rep["case"]["outer_exclude"],
                                                         rep["case"]["outer_gitignore"], rep["case"]["inner_exclude"],
                                                         rep["case"]["inner_gitignore"],
                                                         sorted(x.decode("latin1") for x in gs - rs)[:4],
                                                         sorted(x.decode("latin1") for x in rs - gs)[:4]))
                    _seen["nested"] = _seen.get("nested", 0) + 1
                    if _seen["nested"] <= 3:
                        ctx.violation(what, rep)
            shutil.rmtree(outer, ignore_errors=True)
    finally:
        shutil.rmtree(base, ignore_errors=True)


NESTED_CORPUS = [
    dict(mid=b"", files={b"a.txt": "f", b"a.log": "f", b"a.tmp": "f", b"a.md": "f", b"sub/b.txt": "f", b"sub/b.log": "f",
                         b"sub/b.tmp": "f", b"sub/b.md": "f"},
         outer_gitignore=[], outer_exclude=[b"*.txt"], inner_gitignore=[b"*.tmp"], inner_exclude=[b"*.log"],
         sub_gitignore=[], mid_gitignore=[]),
    dict(mid=b"m", files={b"a": "f", b"keep": "f", b"sub/a": "f", b"sub/keep": "f", b"sub/d/a": "f"},
         outer_gitignore=[b"a"], outer_exclude=[b"keep", b"sub/"], inner_gitignore=[], inner_exclude=[b"d/"],
         sub_gitignore=[b"!a"], mid_gitignore=[b"*"]),
]


def check_line_class(ctx, cases):
    """kind 404: the executable class of the line-level theorem (gitignore_line_eq_git) must contain every line of
    the documented grammar the generators produce; a documented line outside the class means the theorem does not
    speak about it (reported, without failing input: it is a gap of the proof, not of ripgrep)"""
    cases = sorted(set(cases))
    lines = [vlist(["1" if ci else "0", vbytes(l)]) for ci, l in cases]
    mo = vlib.model(404, lines)
    st = ctx.cov.setdefault("line_class", dict(documented_in_class=0, documented_outside_class=0,
                                                 undocumented_in_class=0, undocumented_outside_class=0))
    for (ci, l), line, m in zip(cases, lines, mo):
        doc = in_documented_grammar(l) and not line_features(l) and not ci_class_quirk(dict(ci=ci, ignores={b"": [l]}))
        key = ("documented" if doc else "undocumented") + ("_in_class" if m == "1" else "_outside_class")
        st[key] += 1
        if doc and m != "1":
            viol(ctx, "a line of the documented grammar is outside the class of theorem gitignore_line_eq_git "
                      "(proof coverage gap) [line=%r ci=%s]" % (l.decode("latin1"), ci),
                 dict(kind=404, ci=ci, text=l.decode("latin1"), line=line, model=m), nfi=True)


# ----------------------------------------------------------------------------- kind 405: documented bracket expressions

FIRST_SINGLES = b"]-a^!b+.z_"
LATER_SINGLES = b"abcxz+.09^!_,"
FIRST_RANGES = [(93, 97), (93, 122), (97, 99), (97, 122), (48, 57), (43, 46), (65, 90), (94, 96), (33, 43)]
LATER_RANGES = [(97, 99), (48, 57), (43, 46), (65, 90), (120, 122), (33, 43)]
PROBES = b"]-^!abcdxyz+.,0159AMZ[_`~*?# "


def gen_dclass(rng):
    """an abstract bracket expression of Spec/GlobClassSyntax.v (mark, members in the order written, trailing '-');
    the TEXT is produced by the Coq rendering, not here.  No member or range covers '/' or a backslash."""
    mark = rng.choice([0, 1, 2, 2])
    members = []
    if rng.random() >= 0.08:
        while True:
            first = (lambda c: (c, c))(rng.choice(FIRST_SINGLES)) if rng.random() < 0.6 else rng.choice(FIRST_RANGES)
            if mark != 0 or first[0] not in (33, 94):
                break
        members.append(first)
        for _ in range(rng.choice([0, 0, 1, 1, 2, 3])):
            members.append((lambda c: (c, c))(rng.choice(LATER_SINGLES)) if rng.random() < 0.6 else rng.choice(LATER_RANGES))
    dash = True if not members else rng.random() < 0.35
    return (mark, members, dash)


FIXED_DCLASSES = [(2, [(93, 93)], True), (2, [(93, 93)], False), (1, [(93, 93)], False), (0, [(93, 93)], False),
                  (2, [(93, 93), (97, 97)], False), (1, [(93, 93), (97, 97)], False), (0, [(93, 93)], True),
                  (0, [(93, 97)], False), (2, [(93, 97)], False), (0, [], True), (2, [], True), (1, [], True),
                  (0, [(45, 45), (97, 97)], False), (2, [(45, 45), (97, 97)], False), (0, [(97, 97)], True),
                  (2, [(97, 99)], True), (2, [(94, 94)], False), (1, [(33, 33)], False), (2, [(33, 33)], False),
                  (0, [(97, 97), (94, 94)], False), (2, [(93, 93), (97, 99)], True)]


def check_dclasses(ctx, classes):
    """kind 405, four readings of one documented bracket expression on the names n<probe>m: the documentation
    (Spec dclass_admits), the gitignore model (add_line + re_spec), the code (GitignoreBuilder add_line + build +
    matched) and real git (check-ignore) — all must agree; the code must neither reject the line nor fail to build
    the file's glob set."""
    def probes_of(members):
        ps = set(PROBES)
        for lo, hi in members:
            ps |= {lo - 1, lo, hi, hi + 1}
        return bytes(sorted(x for x in ps if 32 <= x < 127 and x not in (47, 92)))
    cases = [(mark, members, dash, probes_of(members)) for mark, members, dash in classes]
    mlines = [vlist([str(mark), vlist([vlist([str(lo), str(hi)]) for lo, hi in members]), "1" if dash else "0", vbytes(pr)])
              for mark, members, dash, pr in cases]
    mo = vlib.model(405, mlines)
    texts = []
    for m in mo:
        ok = not (m in ("MISSING", "STACKOVERFLOW", "PANIC") or m.startswith("PARSEFAIL"))
        texts.append(bytes(parse_val(m)[1]) if ok else b"")
    co = vlib.code(405, [vlist([vbytes(t), vbytes(c[3])]) for t, c in zip(texts, cases)])
    base = tempfile.mkdtemp(dir=vlib.CACHE, prefix="c04cls-")
    st = ctx.cov.setdefault("documented_classes", dict(cases=0, complemented=0, leading_bracket=0, leading_dash=0, trailing_dash=0))
    try:
        root = os.path.join(base, "r")
        materialize(dict(tree={}, ignores={}, ci=False), root)
        for (mark, members, dash, pr), ml, m, text, c in zip(cases, mlines, mo, texts, co):
            rep = dict(kind=405, cls=[mark, [list(x) for x in members], dash], line=text.decode("latin1"), model=m, code=c)
            show_line = " [ignore line=%r]" % text.decode("latin1")
            if not text or not m.startswith("(1 "):
                viol(ctx, "kind 405: the generated bracket expression is not a documented class for the model "
                          "(dclass_ok false or model failure) model=%s" % m[:60], rep, nfi=True)
                continue
            st["cases"] += 1
            st["complemented"] += mark != 0
            st["leading_bracket"] += bool(members) and members[0][0] == 93
            st["leading_dash"] += (bool(members) and members[0][0] == 45) or not members
            st["trailing_dash"] += bool(dash and members)
            ctx.note_case(ml, True)
            mv = parse_val(m)
            spec = [bool(x) for x in mv[2]]
            model = [x == 1 for x in mv[3]]
            open(os.path.join(os.fsencode(root), b".gitignore"), "wb").write(text + b"\n")
            names = [b"n" + bytes([b]) + b"m" for b in pr]
            gres = run_check_ignore(dict(ci=False), root, names)
            if sorted(gres) != sorted(names):
                viol(ctx, "kind 405: git check-ignore did not answer for every probe" + show_line, rep, nfi=True)
                continue
            git = [gres[n][0] for n in names]
            if c in ("PANIC", "MISSING") or c.startswith("PARSEFAIL") or not c.startswith("(0 "):
                why = {"x01": "GitignoreBuilder::add_line rejects the line", "(1)": "GitignoreBuilder::add_line rejects the line",
                       "x02": "the glob set of the ignore file does not build (every line of the file is lost)",
                       "(2)": "the glob set of the ignore file does not build (every line of the file is lost)"}.get(c, "harness failure " + c[:30])
                viol(ctx, "a documented bracket expression in an ignore line: %s; git reads it as a class" % why, rep,
                     detail="%s git-ignored=%r" % (show_line, [n.decode("latin1") for n, g in zip(names, git) if g][:4]))
                continue
            code = [x == 1 for x in parse_val(c)[1]]
            def first_diff(a, b):
                return [names[i].decode("latin1") for i in range(len(names)) if a[i] != b[i]][:3]
            if code != git:
                viol(ctx, "rg and git read a documented bracket expression differently", rep,
                     detail="%s names=%r (git ignores: %r)" % (show_line, first_diff(code, git),
                                                               [git[i] for i in range(len(names)) if code[i] != git[i]][:3]))
            if spec != git:
                viol(ctx, "Spec/GlobClassSyntax.v dclass_admits disagrees with real git", rep, nfi=True,
                     detail="%s names=%r" % (show_line, first_diff(spec, git)))
            if model != code:
                viol(ctx, "gitignore model and Gitignore::matched disagree on a documented bracket expression", rep,
                     nfi=(code == git), detail="%s names=%r" % (show_line, first_diff(model, code)))
            if spec != model:
                viol(ctx, "model and documented meaning of a bracket expression disagree (theorem class_glob_meaning "
                          "no longer describes the model)", rep, nfi=True, detail="%s names=%r" % (show_line, first_diff(spec, model)))
    finally:
        shutil.rmtree(base, ignore_errors=True)


def check_add_line(ctx, cases):
    lines = [vlist(["1" if ci else "0", vbytes(l)]) for ci, l in cases]
    mo = vlib.model(403, lines)
    co = vlib.code(403, lines)
    for (ci, l), line, m, c in zip(cases, lines, mo, co):
        ok = lambda o: not (o in ("PANIC", "MISSING", "STACKOVERFLOW") or o.startswith("PARSEFAIL"))
        mv, cv = parse_val(m) if ok(m) else None, parse_val(c) if ok(c) else None
        ctx.cov["add_line_cases"] = ctx.cov.get("add_line_cases", 0) + 1
        if mv is None or cv is None or list(mv)[:2] != list(cv)[:2]:
            viol(ctx, "GitignoreBuilder::add_line: model and code disagree on skip/error/negation",
                          dict(kind=403, ci=ci, text=l.decode("latin1"), line=line, model=m, code=c), nfi=True)


CORPUS = [
    dict(tree={b"foo.": "f", b"bar": "f", b"d": "d", b"d/foo.": "f"}, ignores={b"": [b"foo."]}, ci=False),       # D3
    dict(tree={b"a.": "f", b"b": "f"}, ignores={b"": [b"*."]}, ci=False),                                        # D3
    dict(tree={b"foo ": "f", b"foo": "f"}, ignores={b"": [b"foo\\  "]}, ci=False),                               # D11
    dict(tree={b"bar\t": "f", b"bar": "f"}, ignores={b"": [b"bar\t"]}, ci=False),                                # D11 (tab)
    dict(tree={b"a": "d", b"a/b": "f", b"a/c": "f"}, ignores={b"": [b"a/*", b"!a/b"]}, ci=False),
    dict(tree={b"a": "d", b"a/b": "f"}, ignores={b"": [b"a", b"!a/b"]}, ci=False),                                # cannot re-include under ignored dir
    dict(tree={b"a": "d", b"a/b": "f", b"b": "f"}, ignores={b"": [b"b"], b"a": [b"!b"]}, ci=False),              # deeper file overrides
    dict(tree={b"a": "d", b"a/x": "d", b"a/x/b": "f", b"a/b": "f", b"b": "f"}, ignores={b"": [b"a/**/b"]}, ci=False),
    dict(tree={b"a": "d", b"a/x": "f", b"x": "f"}, ignores={b"": [b"/x"]}, ci=False),
    dict(tree={b"a": "d", b"a/x": "d", b"a/x/y": "f", b"x": "f"}, ignores={b"": [b"x/"]}, ci=False),
    dict(tree={b"a": "d", b"a/b": "f", b"a/c": "d", b"a/c/d": "f"}, ignores={b"": [b"a/**"]}, ci=False),
    dict(tree={b"A": "f", b"a": "d", b"a/B": "f"}, ignores={b"": [b"a", b"b"]}, ci=True),
    dict(tree={b"*": "f", b"ab": "f", b"[a]": "f", b"a": "f"}, ignores={b"": [b"\\*", b"\\[a\\]"]}, ci=False),
    dict(tree={b"!a": "f", b"#a": "f", b"a": "f"}, ignores={b"": [b"\\!a", b"\\#a", b"#a"]}, ci=False),
]
CORPUS += [   # `<dir>/*` + re-inclusion of a sub-directory / a file: the `*` covers direct children only
    dict(tree={b"vendor": "d", b"vendor/a.txt": "f", b"vendor/keep": "d", b"vendor/keep/c.txt": "f", b"vendor/keep/deep": "d",
               b"vendor/keep/deep/d.txt": "f", b"vendor/other": "d", b"vendor/other/e.txt": "f", b"top": "f"},
         ignores={b"": [b"vendor/*", b"!vendor/keep/"]}, ci=False),
    dict(tree={b"v": "d", b"v/a": "f", b"v/k": "d", b"v/k/c": "f", b"v/k/d": "d", b"v/k/d/e": "f"},
         ignores={b"": [b"/v/*", b"!/v/k/"]}, ci=False),
    dict(tree={b"v": "d", b"v/a": "f", b"v/b": "f", b"v/k": "d", b"v/k/c": "f"}, ignores={b"": [b"v/*", b"!v/a"]}, ci=False),
    dict(tree={b"p": "d", b"p/v": "d", b"p/v/a": "f", b"p/v/k": "d", b"p/v/k/c": "f", b"p/v/k/d": "d", b"p/v/k/d/e": "f"},
         ignores={b"": [b"**/v/*", b"!**/v/k/"]}, ci=False),
    dict(tree={b"p": "d", b"p/v": "d", b"p/v/a": "f", b"p/v/k": "d", b"p/v/k/c": "f", b"p/v/k/d": "d", b"p/v/k/d/e": "f"},
         ignores={b"p": [b"v/*"], b"p/v": [b"!k/"]}, ci=False),
]
CORPUS += [   # a lone `!` (empty pattern) matches nothing; it used to re-include everything
    dict(tree={b"a": "f", b"d": "d", b"d/b": "f", b"c": "f"}, ignores={b"": [b"a", b"d/", b"!"]}, ci=False),
    dict(tree={b"a": "f", b"d": "d", b"d/b": "f"}, ignores={b"": [b"a", b"/", b"!/", b"! "]}, ci=False),
]
CORPUS += [   # an unescaped inner blank followed only by escapes / blanks: only the unescaped trailing run is dropped
    dict(tree={b"a": "f", b"a b": "f", b"sub": "d", b"sub/a": "f", b"sub/a b": "f", b"keep": "f"}, ignores={b"": [b"a \\b"]}, ci=False),
    dict(tree={b"c": "f", b"c ": "f", b"c  ": "f", b"keep": "f"}, ignores={b"": [b"c \\ "]}, ci=False),
    dict(tree={b"d e": "f", b"d e !": "f", b"d": "f", b"keep": "f"}, ignores={b"": [b"d\\ e \\!"]}, ci=False),
    dict(tree={b"x": "f", b"x  y": "f", b"x ": "f"}, ignores={b"": [b"x \\ \\y  "]}, ci=False),
    dict(tree={b"plain": "f", b"plain  ": "f", b"p q": "f", b"p": "f"}, ignores={b"": [b"plain  ", b"p*", b"!p \\q "]}, ci=False),
]
CORPUS += [   # two `**/x/y/z`-style patterns of different lengths (one shared suffix table), longer first / last
    dict(tree={b"d": "d", b"d/x": "d", b"d/x/y": "d", b"d/x/y/z": "f", b"d/p": "d", b"d/p/q": "f", b"x": "d", b"x/y": "d", b"x/y/z": "f",
               b"d/e": "d", b"d/e/x": "d", b"d/e/x/y": "d", b"d/e/x/y/z": "d", b"d/e/x/y/z/c": "f", b"keep": "f"},
         ignores={b"": [b"**/x/y/z", b"**/p/q"]}, ci=False),
    dict(tree={b"d": "d", b"d/x": "d", b"d/x/y": "d", b"d/x/y/z": "f", b"d/p": "d", b"d/p/q": "f", b"keep": "f"},
         ignores={b"": [b"**/p/q", b"**/x/y/z"]}, ci=False),
    dict(tree={b"a": "d", b"a/b": "d", b"a/b/ab": "d", b"a/b/ab/c": "f", b"d": "d", b"d/a": "d", b"d/a/b": "d", b"d/a/b/ab": "d",
               b"d/a/b/ab/c": "f", b"d/b": "d", b"d/b/ab": "f"},
         ignores={b"": [b"**/a/b/ab/", b"**/b/ab", b"**/ab/c"]}, ci=False),
]
CORPUS += [   # a `]` first in a class (after `!` / `^`, if any) is a member; `-` first or last is a member; the class
              # line stands next to ordinary rules that must stay in force whatever happens to it
    dict(tree={b"xby": "f", b"xay": "f", b"x]y": "f", b"xzy": "f", b"a.log": "f", b"keep.txt": "f", b"sub": "d", b"sub/b.log": "f",
               b"sub/xqy": "f", b"sub/deep": "d", b"sub/deep/n1m": "f", b"sub/deep/n]m": "f", b"sub/deep/n-m": "f", b"sub/deep/keep": "f"},
         ignores={b"": [b"x[!]a]y", b"*.log", b"sub/deep/n[^]-]m"]}, ci=False),
    dict(tree={b"n]m": "f", b"n-m": "f", b"nam": "f", b"n^m": "f", b"a.log": "f", b"d": "d", b"d/nbm": "f", b"d/n]m": "f", b"d/b.log": "f"},
         ignores={b"": [b"*.log", b"n[^]a]m"]}, ci=False),
    dict(tree={b"n]m": "f", b"n-m": "f", b"nam": "f", b"nbm": "f", b"a.log": "f", b"d": "d", b"d/n-m": "f", b"d/n]m": "f", b"d/b.log": "f"},
         ignores={b"": [b"n[]-]m", b"*.log"], b"d": [b"!n[]a-]m"]}, ci=False),
    dict(tree={b"n]m": "f", b"n-m": "f", b"nam": "f", b"nbm": "f", b"n!m": "f", b"a.log": "f"},
         ignores={b"": [b"n[a-]m", b"n[!]!]m", b"*.log"]}, ci=False),
    dict(tree={b"]": "f", b"-": "f", b"a": "f", b"b.log": "f", b"d": "d", b"d/]": "f", b"d/c": "f"},
         ignores={b"": [b"*.log", b"/[^]]"], b"d": [b"[]]"]}, ci=False),
]
CORPUS += [   # same-extension wildcard rules of opposite polarity: every matching rule must be found, the last one wins
    dict(tree={b"src": "d", b"src/main.rs": "f", b"src/mod.rs": "f", b"src/lib.rs": "f", b"src/a.rs": "f", b"src/keep.x": "f"},
         ignores={b"": [b"src/*.rs", b"!src/m*.rs"]}, ci=False),
    dict(tree={b"src": "d", b"src/main.rs": "f", b"src/mod.rs": "f", b"src/lib.rs": "f"},
         ignores={b"": [b"!src/m*.rs", b"src/*.rs"]}, ci=False),
    dict(tree={b"main.a": "f", b"mod.a": "f", b"lib.a": "f", b"d": "d", b"d/main.a": "f"},
         ignores={b"": [b"?*.a", b"!m*.a", b"ma*.a"]}, ci=False),
]
KNOWN_CORPUS = [
    dict(tree={b"a": "d", b"a/c": "f", b"abc": "f", b"a-c": "f"}, ignores={b"": [b"a[!b]c"]}, ci=False),          # class vs '/'
    dict(tree={b"a": "f", b"b": "f", b"{a,b}": "f"}, ignores={b"": [b"{a,b}"]}, ci=False),                       # D12
]


def run(ctx):
    rng = ctx.rng
    ctx.cov["rule"] = ("generated repositories: <= 4 levels, 3-12 entries with names from a pool incl. names ending in '.', "
                       "glob-like names, upper case, blanks; 1-3 .gitignore files (root and nested) of 1-5 lines over the "
                       "documented grammar (escaped/unescaped names, * ? classes, ** in the three positions, anchoring, "
                       "dir-only, negation, comments, trailing blanks) + a malformed stream; 20% case-insensitive. "
                       "non-trivial = some file ignored and some file listed; distinct by case text.")
    check_repos(ctx, CORPUS)
    check_repos(ctx, KNOWN_CORPUS)
    n = ctx.count(220)
    repos = [gen_idiom_repo(rng) if i % 5 == 0 else (gen_class_repo(rng) if i % 7 == 2 else gen_blank_repo(rng) if i % 7 == 3 else
                                                      (gen_suffix_repo(rng) if i % 7 == 6 else
                                                       (gen_ext_rules_repo(rng) if i % 7 == 1 else gen_repo(rng, rng.random() < 0.25))))
             for i in range(n)]
    ctx.cov["suffix_table_repos"] = sum(1 for i in range(n) if i % 5 != 0 and i % 7 == 6)
    ctx.cov["blank_escape_repos"] = sum(1 for i in range(n) if i % 5 != 0 and i % 7 == 3)
    ctx.cov["idiom_repos"] = sum(1 for i in range(n) if i % 5 == 0)
    ctx.cov["class_edge_repos"] = sum(1 for i in range(n) if i % 5 != 0 and i % 7 == 2)
    check_repos(ctx, repos)
    check_one_file(ctx, CORPUS + KNOWN_CORPUS + repos)
    names = [x for x in NAME_POOL]
    check_nested(ctx, NESTED_CORPUS + [gen_nested(rng) for _ in range(ctx.count(40))])
    al = [(rng.random() < 0.2, gen_line(rng, names, rng.random() < 0.3)) for _ in range(ctx.count(600))]
    al = [(False, b"n" + c + b"m") for c in EDGE_POS + EDGE_NEG + EDGE_BAD] + [(True, b"[^]-]"), (True, b"[]-]*")] + al
    check_add_line(ctx, al)
    check_line_class(ctx, al + [(r["ci"], l) for r in CORPUS + repos for ls in r["ignores"].values() for l in ls])
    check_dclasses(ctx, FIXED_DCLASSES + [gen_dclass(rng) for _ in range(ctx.count(60))])
    flush_pending(ctx)
    ctx.assumptions += [
        "git 2.39 (ls-files --others --exclude-standard, check-ignore) is the executable specification",
        "C12's trusted base: the regex text globset emits means tmatch",
    ]


def replay(ctx, data):
    r = data["replay"]
    if r.get("kind") == 403:
        check_add_line(ctx, [(r["ci"], r["text"].encode("latin1"))])
    elif r.get("kind") == "nested":
        check_nested(ctx, [unshow_nested(r["case"])])
    elif r.get("kind") == 405:
        check_dclasses(ctx, [(r["cls"][0], [tuple(x) for x in r["cls"][1]], r["cls"][2])])
    elif r.get("kind") == 404:
        check_line_class(ctx, [(r["ci"], r["text"].encode("latin1"))])
    elif "repo" in r:
        check_repos(ctx, [unshow(r["repo"])])
        check_one_file(ctx, [unshow(r["repo"])])
    flush_pending(ctx)
