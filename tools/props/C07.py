"""C07 — the parallel walker terminates and loses nothing under every thread schedule."""
import os
import shutil
import tempfile

import vlib
from vlib import vbytes, vlist, vopt, parse_val

NEED_RG = False
LEVEL = "proof"
MANIFEST = dict(
    text="Coq theorems over a nondeterministic transition system mirroring get_work/run/Stack (any number of "
         "workers, any forest, any visitor, any schedule = any list of step choices, steals nondeterministic within "
         "crossbeam's contract): inductive invariant (conservation multiset, Quit/Work separation, counter "
         "bookkeeping); all workers exited and no Quit answer => visited is a permutation of the entries reachable "
         "under Skip answers; NoDup visited always; variant (explicit nat measure strictly decreasing on every step "
         "that is not an idle spin of the wait loop), progress (in every reachable non-final state some worker "
         "reaches a measure-decreasing step by itself) and termination under fairness (no infinite execution in which "
         "every live worker keeps being scheduled and steals on non-empty deques fail only finitely often). Tie to the code: the real worker threads are serialised by a "
         "deterministic scheduler through cfg(ripgrep_verif) yield hooks (uniform, sticky, hold-back-before-one-action, PCT, preemption-bounded "
         "exhaustive schedules; visitor Quit injected at every visit index) and every recorded trace is replayed "
         "through the extracted step relation, every observation (received message, counter, flag, deque lengths, "
         "visitor calls) compared; independent oracle for the visited set; real-thread soak.",
    note="PARTIAL in this sense: atomics are modelled as sequentially consistent single steps (code: Acquire/Release "
         "on the counter, SeqCst on the flag), crossbeam-deque 0.8.5 is assumed linearizable and element-conserving "
         "(its batch choice is nondeterministic in the model), preemption inside a crossbeam operation is covered only "
         "by that assumption and the soak; termination is proved for every fair execution; fairness of the OS "
         "scheduler and finiteness of steal retries are the assumptions",
    technique="Coq invariant/variant proof over a transition system + deterministic-scheduler trace replay against "
              "the extracted step relation + visited-set oracle + real-thread soak",
    design="§7 C07, A.4")

KINDS = {1: "push", 2: "pop", 3: "steal", 4: "steal_one", 5: "deactivate", 6: "activate", 7: "is_quit_now",
         8: "quit_now", 9: "sleep", 10: "exit"}
CODES = {1: "yield kind does not fit the model's control location", 2: "model step not enabled",
         3: "received message differs", 4: "visitor call differs", 5: "shared state (counter/flag/deque lengths) differs",
         6: "steal failed on a non-empty victim", 7: "variant violated by a model step"}


def ints(v):
    return list(v) if isinstance(v, (bytes, list)) else [v]


def unparse(v):
    if isinstance(v, bytes):
        return vbytes(v)
    if isinstance(v, int):
        return str(v)
    return vlist([unparse(x) for x in v])


# ---------------------------------------------------------------------------------- forests

class T:
    def __init__(self, i, d, kids, bad=False):
        self.id, self.dir, self.kids, self.bad = i, d, kids, bad     # bad: a root path that does not exist


def gen_forest(rng, max_nodes, max_roots=3):
    """random forest, ids in preorder; returns list of T"""
    budget = rng.randint(1, max_nodes)
    counter = [0]

    def mk(depth, budget):
        i = counter[0]
        counter[0] += 1
        budget -= 1
        isdir = rng.random() < (0.75 if depth < 3 else 0.3)
        kids = []
        if isdir:
            while budget > 0 and rng.random() < 0.7:
                b = rng.randint(1, budget)
                k, used = mk(depth + 1, b)
                kids.append(k)
                budget -= used
        return T(i, isdir, kids), counter[0] - i

    roots = []
    nroots = rng.randint(1, max_roots)
    for r in range(nroots):
        if budget <= 0:
            break
        b = budget if r == nroots - 1 else rng.randint(1, budget)
        t, used = mk(0, b)
        roots.append(t)
        budget -= used
    return roots


def forest_from_shape(shape):
    """shape: nested lists, [] = empty dir, None = file; ids preorder"""
    c = [0]

    def mk(s):
        i = c[0]
        c[0] += 1
        if s is None:
            return T(i, False, [])
        return T(i, True, [mk(k) for k in s])
    return [mk(s) for s in shape]


def size(f):
    return sum(1 + size(t.kids) for t in f)


def tval(t):
    return vlist([str(t.id), "2" if t.bad else ("1" if t.dir else "0"), vlist([tval(k) for k in t.kids])])


def add_bad_roots(rng, f, k):
    """insert k nonexistent root paths (ids after the forest's) at random positions of the root list"""
    nn = size(f)
    f = list(f)
    for j in range(k):
        f.insert(rng.randint(0, len(f)), T(nn + j, False, [], bad=True))
    return f


def oracle_ids(f, resp):
    """independent statement of what a complete walk visits: children only below Continue answers"""
    out = []
    for t in f:
        if t.bad:
            continue                      # a root that does not exist: an error entry, nothing to visit
        out.append(t.id)
        if resp[t.id] == 0 and t.dir:
            out += oracle_ids(t.kids, resp)
    return out


def oracle_roots(f, resp):
    """the root loop of visit(): (error entries handed to the visitor, walk goes on?) -- only a Quit answer to an
    error entry stops the walk; Skip and Continue go on with the next root"""
    errs = []
    for t in f:
        if t.bad:
            errs.append(t.id)
            if resp[t.id] == 2:
                return errs, False
    return errs, True


def all_ids(f):
    out = []
    for t in f:
        if not t.bad:
            out.append(t.id)
            out += all_ids(t.kids)
    return out


# ---------------------------------------------------------------------------------- cases

def mk_case(base, n, forest, resp, quit_at, policy, seed, aux, max_slots=4000, same_fs=0):
    return dict(n=n, forest=forest, resp=resp, quit_at=quit_at, policy=policy, seed=seed, aux=aux, same_fs=same_fs,
                line=vlist([vbytes(base), str(n), vlist([tval(t) for t in forest]),
                            vlist([str(r) for r in resp]), vopt(None if quit_at is None else str(quit_at)),
                            str(policy), str(seed),
                            vlist([vlist([str(a), str(b)]) for a, b in aux]) if policy == 0
                            else vlist([str(a) for a in aux]), str(max_slots), str(same_fs)]))


def gen_resp(rng, nn, quitty):
    resp = []
    for _ in range(nn):
        x = rng.random()
        resp.append(1 if x < 0.15 else (2 if quitty and x < 0.25 else 0))
    return resp


def gen_wide(rng, max_nodes):
    """one or two directories with many children (batch steals move several messages)"""
    k = rng.randint(3, max(3, max_nodes - 1))
    shape = [[([None] if rng.random() < 0.2 else None) for _ in range(k)]]
    if rng.random() < 0.3:
        shape.append(None)
    return forest_from_shape(shape)


def gen_case(rng, base, max_nodes):
    f = gen_wide(rng, max_nodes) if rng.random() < 0.2 else gen_forest(rng, max_nodes)
    nn = size(f)
    n = rng.choice([2, 2, 3, 3, 4, 1, 0])
    mode = rng.random()
    quit_at = None
    resp = gen_resp(rng, nn, False)
    if mode < 0.25:
        quit_at = rng.randint(0, max(0, nn - 1))
    elif mode < 0.35:
        resp = gen_resp(rng, nn, True)
    same_fs = 0
    if rng.random() < 0.15:
        # root paths that do not exist: their error entries go to the visitor of the calling thread; the answer
        # (Continue / Skip, rarely Quit) is resp[id]; with same_file_system the device lookup fails first
        k = rng.randint(1, 2)
        f = add_bad_roots(rng, f, k)
        resp = resp + [rng.choice([0, 1, 1, 1, 0, 2] if rng.random() < 0.3 else [0, 1, 1]) for _ in range(k)]
        same_fs = rng.randint(0, 1)
        if quit_at is not None:
            quit_at = min(quit_at, nn - 1)
    c = gen_case_sched(rng, base, n, f, resp, quit_at, nn)
    if same_fs:
        c = mk_case(base, c["n"], c["forest"], c["resp"], c["quit_at"], c["policy"], c["seed"], c["aux"], same_fs=1)
    return c


def gen_case_sched(rng, base, n, f, resp, quit_at, nn):
    p = rng.random()
    seed = rng.getrandbits(48)
    if p < 0.25:
        return mk_case(base, n, f, resp, quit_at, 1, seed, [])
    if p < 0.45:
        return mk_case(base, n, f, resp, quit_at, 3, seed, [rng.choice([5, 10, 20, 35])])
    if p < 0.65:
        # hold a worker back right before one kind of synchronisation action (activate, is_quit_now, push,
        # deactivate, a victim's steal, pop): the windows the OS scheduler opens for nanoseconds
        return mk_case(base, n, f, resp, quit_at, 4, seed,
                       [rng.choice([6, 6, 6, 7, 1, 5, 4, 2]), rng.choice([60, 90, 100])])
    if p < 0.85:
        return mk_case(base, n, f, resp, quit_at, 2, seed, [rng.randint(1, 4), 30 + 12 * nn])
    k = rng.randint(0, 3)
    nw = 2 if n == 0 else n
    aux = sorted((rng.randint(0, 20 + 10 * nn), rng.randrange(nw)) for _ in range(k))
    return mk_case(base, n, f, resp, quit_at, 0, seed, aux)


# ---------------------------------------------------------------------------------- checking

NFI_CAP = 6          # model-vs-code disagreements recorded per check (the rest is only counted)


def concrete(ctx):
    """violations that carry a failing input (schedule + forest on the real code)"""
    return sum(1 for v in ctx.violations if not v[1])


class Stats:
    def __init__(self):
        self.nfi = 0
        self.kinds = {}
        self.steals_ok = 0
        self.steal_batches = 0
        self.bad_root_runs = 0
        self.bad_root_skip = 0
        self.quit_stolen = 0
        self.quit_runs = 0
        self.waits = 0
        self.early_quit = 0
        self.dropped_work = 0
        self.runs = 0
        self.slots = 0
        self.max_busy_ratio = 0.0
        self.workers = {}


def check_runs(ctx, cases, st, want_decisions=False):
    """run the cases on the real walker (scheduled), replay through the model, compare with the oracle.
    returns list of decision lists (policy 0) for the exhaustive exploration"""
    outs = vlib.code(701, [c["line"] for c in cases])
    mlines, midx, parsed = [], [], []
    for i, o in enumerate(outs):
        c = cases[i]
        rep = dict(kind=701, line=c["line"], n=c["n"], policy=c["policy"], seed=c["seed"], aux=c["aux"],
                   quit_at=c["quit_at"], resp=c["resp"], same_fs=c.get("same_fs", 0),
                   roots=[("missing:%d" % t.id) if t.bad else t.id for t in c["forest"]])
        c["rep"] = rep
        if o in ("PANIC", "MISSING") or o.startswith("PARSEFAIL"):
            ctx.violation("harness %s on scheduled walk" % o, rep, nfi=True)
            parsed.append(None)
            continue
        v = parse_val(o)
        parsed.append(v)
        status = v[0]
        if status == 3:
            ctx.violation("harness could not set the case up: %r" % (v[1],), rep, nfi=True)
            parsed[-1] = None
            continue
        if status == 1:
            ctx.violation("termination: all workers blocked in the wait loop but not finished (schedule in replay)", rep)
        elif status == 2:
            ctx.violation("termination: slot bound overrun (schedule in replay)", rep)
        elif status in (4, 5):
            ctx.violation("termination: the walk did not return / a worker panicked (status %d)" % status, rep)
        mlines.append(vlist([str(v[1]), unparse(v[2]), unparse(v[3]), unparse(v[4])]))
        midx.append(i)
    mouts = vlib.model(701, mlines)
    decisions = [None] * len(cases)
    for j, i in enumerate(midx):
        c, v, rep = cases[i], parsed[i], cases[i]["rep"]
        status = v[0]
        calls = [ints(x) for x in v[5]]
        visited = [x[1] for x in calls]
        answers = [x[2] for x in calls]
        resp_eff = ints(v[3])
        resp_eff += [0] * (size(c["forest"]) - len(resp_eff))
        root_errs = [ints(x) for x in v[8]] if len(v) > 8 else []
        exp_errs, goes_on = oracle_roots(c["forest"], c["resp"])
        quit_answered = 2 in answers or not goes_on
        if exp_errs:
            st.bad_root_runs += 1
            st.bad_root_skip += 1 if any(c["resp"][e] == 1 for e in exp_errs) else 0
        if status == 0 and [e[0] for e in root_errs] != exp_errs:
            ctx.violation("root loop of visit(): error entries %r handed to the visitor, expected %r (roots %r)"
                          % ([e[0] for e in root_errs], exp_errs, rep["roots"]), rep)
        slots = v[4]
        nslots = len(slots)
        st.runs += 1
        st.slots += nslots
        nw = 2 if c["n"] == 0 else c["n"]
        st.workers[nw] = st.workers.get(nw, 0) + 1
        steal_ok = waits = 0
        deact_zero_at = None
        last_recv = {}
        prev_lens = None
        for k, sl in enumerate(slots):
            kind = sl[1]
            st.kinds[kind] = st.kinds.get(kind, 0) + 1
            recv = ints(sl[2])
            lens = ints(sl[4][2]) if len(sl[4]) == 3 else None
            if recv:
                last_recv[sl[0]] = recv
            if kind == 4 and recv and recv[0] in (1, 2):
                steal_ok += 1
                if recv[0] == 1:
                    st.quit_stolen += 1
                if prev_lens and lens and sum(prev_lens) - sum(lens) == 1 and \
                        any(a - b >= 2 for a, b in zip(prev_lens, lens)):
                    st.steal_batches += 1
            if kind == 7 and not ints(sl[3]) and last_recv.get(sl[0], [0])[0] == 2 and ints(sl[4])[1] == 1:
                st.dropped_work += 1       # a received Work was overridden by the quit flag
                last_recv[sl[0]] = [0]
            if kind == 7 and ints(sl[3]):
                last_recv[sl[0]] = [0]
            prev_lens = lens
            if kind == 9:
                waits += 1
            if kind == 5 and ints(sl[4])[0] == 0 and deact_zero_at is None:
                deact_zero_at = k
        if deact_zero_at is not None and any(ints(sl[3]) for sl in slots[deact_zero_at:]):
            st.early_quit += 1          # Quit broadcast while work was still in a worker's hand (DESIGN §7 note)
        st.steals_ok += steal_ok
        st.waits += 1 if waits else 0
        st.quit_runs += 1 if quit_answered else 0
        nontrivial = steal_ok > 0 or waits > 0
        ctx.note_case(c["line"], nontrivial)
        if v[7] != 0:
            ctx.violation("harness: the visitor saw %d error/unknown entries" % v[7], rep, nfi=True)
        if c["policy"] == 0 and want_decisions:
            decisions[i] = [ints(d) for d in v[6]]
        # --- the property itself, by an independent oracle on the real run
        if status == 0:
            expected = oracle_ids(c["forest"], resp_eff) if goes_on else []
            if len(set(visited)) != len(visited):
                ctx.violation("an entry was handed to a visitor twice: %r" % (visited,), dict(rep, visited=visited))
            elif not quit_answered and sorted(visited) != sorted(expected):
                ctx.violation("no Quit answer, yet visited %r differs from the reachable entries %r (roots %r, answers "
                              "to root errors %r)" % (sorted(visited), sorted(expected), rep["roots"],
                                                      [(e, c["resp"][e]) for e in exp_errs]),
                              dict(rep, visited=visited, expected=expected))
            elif quit_answered and not set(visited) <= set(expected):
                ctx.violation("after Quit: visited %r not within the reachable entries %r" % (visited, expected),
                              dict(rep, visited=visited, expected=expected))
        # --- the trace is an execution of the model, with equal observations
        mo = mouts[j]
        if mo.startswith(("MISSING", "STACK", "PARSEFAIL")):
            ctx.violation("model driver %s on trace" % mo, dict(rep, model_line=mlines[j]), nfi=True)
            continue
        m = parse_val(mo)
        code, slot = m[0], m[1]
        if code != 0:
            bad = slots[slot] if slot < nslots else None
            st.nfi += 1
            if status == 0 and st.nfi > NFI_CAP:
                continue                      # keep hunting for a schedule that breaks the property itself
            ctx.violation("trace is not an execution of Model/WalkPar.v (traces_validated_against_impl): slot %d %r: %s; "
                          "model state %r" % (slot, bad, CODES.get(code, code), m[2]),
                          dict(rep, slot=slot, code=code, model_line=mlines[j]), nfi=(status == 0))
            continue
        if status != 0:
            continue
        steps, busy, mu0 = m[3], m[4], m[5]
        mvis, mexp, allex = ints(m[6]), ints(m[7]), m[8]
        if mvis != visited:
            ctx.violation("model's visit sequence %r differs from the real one %r" % (mvis, visited),
                          dict(rep, model_line=mlines[j]), nfi=True)
        if sorted(mexp) != sorted(oracle_ids(c["forest"], resp_eff) if goes_on else []):
            ctx.violation("Spec ids_under_skip %r differs from the oracle" % (mexp,), dict(rep, model_line=mlines[j]), nfi=True)
        if not allex:
            st.nfi += 1
        if not allex and st.nfi <= NFI_CAP:
            ctx.violation("walk returned but the model is not in an all-exited state", dict(rep, model_line=mlines[j]), nfi=True)
        if busy > mu0:
            ctx.violation("more non-idle steps (%d) than the variant's bound mu(init)=%d" % (busy, mu0),
                          dict(rep, model_line=mlines[j]))
        st.max_busy_ratio = max(st.max_busy_ratio, busy / max(1, mu0))
        if nontrivial:
            ctx.sample(dict(workers=nw, forest=unparse(v[2]), answers=resp_eff, policy=c["policy"], slots=nslots,
                            model_steps=steps, busy=busy, mu_init=mu0, visited=visited, steals=steal_ok))
    return decisions


def explore(ctx, st, base, n, forest, resp, quit_at, bound, cap):
    """all schedules with at most `bound` preemptions (CHESS-style), breadth first, at most `cap` runs"""
    frontier = [[]]
    total = 0
    for level in range(bound + 1):
        if not frontier or concrete(ctx) >= 12:
            break
        if total + len(frontier) > cap:
            ctx.rng.shuffle(frontier)
            frontier = frontier[:max(0, cap - total)]
        cases = [mk_case(base, n, forest, resp, quit_at, 0, 0, aux) for aux in frontier]
        decs = check_runs(ctx, cases, st, want_decisions=True)
        total += len(cases)
        nxt = []
        if level < bound:
            for aux, d in zip(frontier, decs):
                if d is None:
                    continue
                start = aux[-1][0] + 1 if aux else 0
                for i in range(start, len(d)):
                    mask, chosen = d[i]
                    for w in range(8):
                        if mask >> w & 1 and w != chosen:
                            nxt.append(aux + [(i, w)])
        frontier = nxt
    return total


TINY = [
    [[None]], [[[]]], [[None, None]], [[[None]]], [[None], None], [[[None], None]], [[None, [None]], None],
    [[[None, None]], [[]]], [[None, None, None]], [[[[None]]]], [[[None], [None]]], [None, None, None],
]


def soak(ctx, base, reps, nforests):
    rng = ctx.rng
    lines, meta = [], []
    for _ in range(nforests):
        f = gen_forest(rng, 120, max_roots=4)
        nn = size(f)
        quit_at = rng.randint(0, nn - 1) if rng.random() < 0.3 else None
        resp = gen_resp(rng, nn, False)
        n = rng.choice([2, 3, 4, 8])
        if rng.random() < 0.3:
            f = add_bad_roots(rng, f, 1)
            resp = resp + [rng.choice([0, 1])]
        lines.append(vlist([vbytes(base), str(n), vlist([tval(t) for t in f]), vlist([str(r) for r in resp]),
                            vopt(None if quit_at is None else str(quit_at)), str(reps)]))
        meta.append((f, resp, quit_at, n))
    outs = vlib.code(703, lines, shards=4)
    runs = 0
    for line, o, (f, resp, quit_at, n) in zip(lines, outs, meta):
        rep = dict(kind=703, line=line)
        if o in ("PANIC", "MISSING") or o.startswith("PARSEFAIL"):
            ctx.violation("harness %s on soak" % o, rep, nfi=True)
            continue
        v = parse_val(o)
        if not v:
            ctx.violation("soak could not be set up", rep, nfi=True)
            continue
        if v[2]:
            ctx.violation("termination: a real-thread walk did not return within 60 s", rep)
        expected = sorted(oracle_ids(f, resp))
        for ids, cnt in v[0]:
            ids = ints(ids)
            runs += cnt
            if len(set(ids)) != len(ids):
                ctx.violation("real threads: an entry visited twice: %r" % (ids,), rep)
            elif quit_at is None and ids != expected:
                ctx.violation("real threads: visited %r differs from reachable %r" % (ids, expected), rep)
            elif quit_at is not None and not set(ids) <= set(all_ids(f)):
                ctx.violation("real threads: visited unknown entries", rep)
    ctx.cov["soak_runs"] = ctx.cov.get("soak_runs", 0) + runs


def run(ctx):
    rng = ctx.rng
    os.makedirs(vlib.CACHE, exist_ok=True)
    base = tempfile.mkdtemp(prefix="c07-", dir=vlib.CACHE)
    st = Stats()
    try:
        ctx.cov["rule"] = ("case = forest (<= 9 entries as a real temp tree, files and directories, 1-3 roots) x workers "
                           "(0=default 2,1,2,3,4) x visitor answers (Skip on 15%, Quit by entry or at a visit index) x schedule "
                           "(uniform random / sticky random / hold-back-before-one-action-kind / PCT depth 1-4 / non-preemptive + explicit preemptions). non-trivial = the run "
                           "contains a successful steal or an idle wait; distinct by case text.")
        # corpus: every tiny forest, 2 and 3 workers, non-preemptive schedule and one uniform, Quit at each index
        corpus = []
        for shape in TINY:
            f = forest_from_shape(shape)
            nn = size(f)
            for n in (1, 2, 3):
                corpus.append(mk_case(base, n, f, [0] * nn, None, 0, 0, []))
                corpus.append(mk_case(base, n, f, [0] * nn, None, 1, 11 * n + nn, []))
                for q in range(nn):
                    corpus.append(mk_case(base, n, f, [0] * nn, q, 1, 5 * q + n, []))
        # a worker held back between its receive in the wait loop and activate_worker(), others run on
        for shape in ([[None]], [[[None, None, None]]], [[None, [None]], None]):
            f = forest_from_shape(shape)
            for n in (2, 3):
                for sd in range(6):
                    corpus.append(mk_case(base, n, f, [0] * size(f), None, 4, 100 * n + sd, [6, 100]))
        # root paths that do not exist, before / between / after good roots; Continue or Skip to their error entries
        for shape in ([[None]], [[None, [None]], None]):
            good = forest_from_shape(shape)
            nn = size(good)
            for pos in range(len(good) + 1):
                for ans in (0, 1):
                    for sfs in (0, 1):
                        f = list(good)
                        f.insert(pos, T(nn, False, [], bad=True))
                        for n in (1, 2):
                            corpus.append(mk_case(base, n, f, [0] * nn + [ans], None, 1, 7 * pos + n, [], same_fs=sfs))
        f = [T(1, False, [], bad=True), T(2, False, [], bad=True)]
        corpus.append(mk_case(base, 2, f, [0, 1, 0], None, 1, 1, []))        # only bad roots: no worker starts
        f = forest_from_shape([[None]])
        f = [T(2, False, [], bad=True)] + f
        corpus.append(mk_case(base, 2, f, [0, 0, 2], None, 1, 1, []))        # Quit to the root error: walk abandoned
        check_runs(ctx, corpus, st)
        # generated
        ng = ctx.count(4500)
        while ng > 0 and concrete(ctx) < 12:      # stop early once failing schedules have been found
            k = min(ng, 750)
            check_runs(ctx, [gen_case(rng, base, 9) for _ in range(k)], st)
            ng -= k
        # exhaustive up to a preemption bound on tiny forests
        ex = 0
        if ctx.quick():
            for shape, n, bound in (([[None]], 2, 3), ([[None, None]], 2, 2), ([[[None]], None], 3, 1),
                                    ([[None], None], 2, 2), ([[None]], 3, 2)):
                f = forest_from_shape(shape)
                ex += explore(ctx, st, base, n, f, [0] * size(f), None, bound, 1500)
        else:
            for shape in TINY:
                f = forest_from_shape(shape)
                nn = size(f)
                for n, bound in ((2, 3), (3, 2)):
                    ex += explore(ctx, st, base, n, f, [0] * nn, None, bound, 20000)
                    ex += explore(ctx, st, base, n, f, [0] * nn, rng.randrange(nn), bound - 1, 5000)
        ctx.cov["exhaustive_preemption_bounded_runs"] = ex
        # real threads, no scheduler (skipped when the scheduled runs already show the walker hanging)
        if not any("termination" in v[2] for v in ctx.violations):
            soak(ctx, base, 20 if ctx.quick() else 400, 4 if ctx.quick() else 24)
    finally:
        shutil.rmtree(base, ignore_errors=True)
    ctx.cov["scheduled_runs"] = st.runs
    ctx.cov["runs_with_missing_root_paths"] = st.bad_root_runs
    ctx.cov["runs_with_skip_answer_to_a_root_error"] = st.bad_root_skip
    ctx.cov["runs_not_replayable_in_model"] = st.nfi
    ctx.cov["slots"] = st.slots
    ctx.cov["yield_kinds"] = {KINDS.get(k, k): v for k, v in sorted(st.kinds.items())}
    ctx.cov["workers_histogram"] = st.workers
    ctx.cov["successful_steals"] = st.steals_ok
    ctx.cov["steals_moving_a_batch"] = st.steal_batches
    ctx.cov["quit_messages_stolen"] = st.quit_stolen
    ctx.cov["work_dropped_after_quit_flag"] = st.dropped_work
    ctx.cov["runs_with_idle_wait"] = st.waits
    ctx.cov["runs_with_quit_answer"] = st.quit_runs
    ctx.cov["runs_quit_broadcast_while_work_in_hand"] = st.early_quit
    ctx.cov["max_busy_steps_over_mu_init"] = round(st.max_busy_ratio, 3)
    ctx.assumptions += [
        "atomics are sequentially consistent single steps in the model (code: Acquire/Release counter, SeqCst flag)",
        "crossbeam-deque 0.8.5 push/pop/steal_batch_and_pop are linearizable and conserve elements; batch choice is "
        "nondeterministic in the model, the serialised runs follow the library's actual choice (checked per steal)",
        "the visitor answers as a function of the entry (Quit at visit index k is turned into the entry it hit)",
        "fair scheduling (every worker keeps being scheduled; a steal on a non-empty victim eventually succeeds)",
    ]


def replay(ctx, data):
    r = data["replay"]
    st = Stats()
    base = tempfile.mkdtemp(prefix="c07-", dir=vlib.CACHE)
    try:
        line = r["line"]
        # the base directory of the recorded run no longer exists: substitute
        inner = line[1:].lstrip()
        first = inner.split(" ", 1)
        line = "(" + vbytes(base) + " " + first[1]
        if r.get("kind") == 703:
            print(vlib.code(703, [line]))
            return
        c = dict(n=r["n"], forest=[], resp=r["resp"], quit_at=r["quit_at"], policy=r["policy"], seed=r["seed"],
                 aux=r["aux"], line=line, same_fs=r.get("same_fs", 0))
        v = parse_val(line)

        def mk(t):
            return T(t[0], t[1] == 1, [mk(k) for k in t[2]], bad=(t[1] == 2))
        c["forest"] = [mk(t) for t in v[2]]
        check_runs(ctx, [c], st)
        print("replayed: runs=%d violations=%d" % (st.runs, len(ctx.violations)))
    finally:
        shutil.rmtree(base, ignore_errors=True)
