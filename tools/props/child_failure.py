"""child_failure.py — one scenario family shared by C18 and C15: a file read through a command (--pre, or -z with a
controlled `gzip` first in PATH, or the real gzip on a small truncated archive) whose command FAILS ON ITS OWN, crossed
with every output mode that stops reading a file early (-m1, -l, --files-with-matches, -q) and those that do not
(none, -c), -j1/-jN, the file alone or next to a healthy file, --no-messages.

Expectation, from the property texts and the documentation of grep_cli::CommandReader::close (not from search.rs):
  * a command that exits unsuccessfully is an error for that file — a diagnostic naming the file, status 2 unless
    (something matched and -q) — when its output was read to the end, and also when ripgrep stopped reading early
    PROVIDED the command wrote something to stderr (a command that is merely killed by the closed pipe is silent:
    "if we know we haven't hit EOF and stderr doesn't have anything on it, then we assume total success");
  * otherwise the results are those of searching the command's output;
  * an error in one file never hides the results of another file.

Timing independence: every child writes its whole stdout with ONE short write (<= 4 KiB, atomic on a pipe) and then
writes to stderr / exits / kills itself WITHOUT touching stdout again.  ripgrep cannot stop reading before that write
has happened, and nothing the child does afterwards depends on whether the read end is still open: the child's exit
status and stderr are the same under every interleaving.  (Real gzip on a truncated archive of <= 16 KiB of plain
text behaves the same way: inflate flushes its 32 KiB window once, then complains and exits 1; this is verified on
every run by executing the tool and the case is dropped to the two-valued class of C18.check_decompress if not.)
"""
import gzip
import os
import shutil
import subprocess

from props import cli_common as K

EARLY = ("-m1", "-l", "--files-with-matches", "-q")
MODES = (None, "-m1", "-l", "--files-with-matches", "-q", "-c")
KINDS = ("ok", "fail_after_msg", "fail_partial_msg", "fail_silent", "killed_silent", "killed_msg", "trunc_real")
MSG = b"tool: unexpected end of data\n"


def has_hit(data):
    return any(b"hit" in l for l in data.split(b"\n"))


def gen_case(rng):
    lines = [rng.choice([b"alpha hit one", b"beta hit", b"hit"])] if rng.random() < 0.8 else [b"nothing"]
    for _ in range(rng.randint(1, 8)):
        lines.append(rng.choice([b"alpha hit one", b"nothing here", b"beta hit", b"zzz", b"x"]))
    return dict(kind=rng.choice(KINDS), route=rng.choice(["pre", "zip"]), mode=rng.choice(MODES),
                threads=rng.choice([1, 1, 4]), layout=rng.choice(["single", "single", "pair"]),
                code=rng.choice([1, 2, 3, 255]), no_messages=rng.random() < 0.2,
                content=b"".join(l + b"\n" for l in lines))


def fixed_cases():
    """the full cross product of early-stopping mode x failing-child kind x route on one small content"""
    out = []
    content = b"first line\nthe hit is here\nlast hit\n"
    for route in ("pre", "zip"):
        for kind in KINDS:
            if kind == "trunc_real" and route == "pre":
                continue
            for mode in MODES:
                out.append(dict(kind=kind, route=route, mode=mode, threads=1, layout="single", code=1,
                                no_messages=False, content=content))
    for mode in ("-m1", "-l"):
        for thr in (1, 4):
            out.append(dict(kind="fail_after_msg", route="zip", mode=mode, threads=thr, layout="pair", code=1,
                            no_messages=False, content=content))
            out.append(dict(kind="trunc_real", route="zip", mode=mode, threads=thr, layout="pair", code=1,
                            no_messages=False, content=content))
    out.append(dict(kind="fail_after_msg", route="zip", mode="-l", threads=1, layout="single", code=3, no_messages=True,
                    content=content))
    return out


def child_of(c):
    """(script body for sh, abstract child) — PLAIN is replaced by the path of the file holding the stdout bytes"""
    content, k = c["content"], c["kind"]
    if k == "ok":
        return "cat PLAIN", dict(out=content, err=b"", ok=True)
    if k == "fail_after_msg":
        return "cat PLAIN; printf 'tool: unexpected end of data\\n' >&2; exit %d" % c["code"], dict(out=content, err=MSG, ok=False)
    if k == "fail_partial_msg":
        cut = content.index(b"\n", len(content) // 2) + 1 if b"\n" in content[len(content) // 2:] else len(content)
        return "cat PLAIN; printf 'tool: unexpected end of data\\n' >&2; exit %d" % c["code"], dict(
            out=content[:cut], err=MSG, ok=False)
    if k == "fail_silent":
        return "cat PLAIN; exit %d" % c["code"], dict(out=content, err=b"", ok=False)
    if k == "killed_silent":
        return "cat PLAIN; kill -9 $$", dict(out=content, err=b"", ok=False)
    if k == "killed_msg":
        return "cat PLAIN; printf 'tool: unexpected end of data\\n' >&2; kill -9 $$", dict(out=content, err=MSG, ok=False)
    raise ValueError(k)


def expected_failed(child, mode):
    """the documented rule (see the module comment)"""
    stops = mode in EARLY and has_hit(child["out"])
    return (not child["ok"]) and ((not stops) or len(child["err"]) > 0), stops


def run_family(ctx, rng, n, prop):
    """returns the list of evaluated cases (dicts with child/stops/failed/r/ref) so that the caller can add its own
    model comparison; reports property-level violations itself"""
    root = K.mktree(prop.lower() + "cf")
    have_gzip = shutil.which("gzip") is not None
    real_gzip = shutil.which("gzip")
    cases = fixed_cases() + [gen_case(rng) for _ in range(n)]
    live = []
    for i, c in enumerate(cases):
        d = os.path.join(root, "k%d" % i)
        os.mkdir(d)
        os.chmod(d, 0o755)
        c["dir"] = d
        if c["route"] == "pre" and c["kind"] == "trunc_real":
            c["kind"] = "fail_after_msg"
        env = None
        if c["kind"] == "trunc_real":
            if not have_gzip:
                ctx.cov["child_failure_trunc_real_skipped_no_gzip"] = ctx.cov.get("child_failure_trunc_real_skipped_no_gzip", 0) + 1
                c["kind"] = "fail_after_msg"
        name = "input.gz" if c["route"] == "zip" else "input.dat"
        c["name"] = name
        if c["kind"] == "trunc_real":
            # poorly compressible filler after the interesting lines, so that cutting the archive at 60 % loses text
            filler = b"".join(b"%d %s\n" % (j, bytes(rng.choice(b"abcdefghijklmnopqrstuvwxyz0123456789") for _ in range(40)))
                              for j in range(150))
            comp = gzip.compress(c["content"] + filler, mtime=0)
            with open(os.path.join(d, name), "wb") as f:
                f.write(comp[:len(comp) * 6 // 10])
            p = subprocess.run([real_gzip, "-d", "-c", name], cwd=d, stdin=subprocess.DEVNULL, stdout=subprocess.PIPE,
                               stderr=subprocess.PIPE)
            child = dict(out=p.stdout, err=p.stderr, ok=p.returncode == 0)
            if p.returncode == 0 or not p.stderr or len(p.stdout) > 16384 or not p.stdout.startswith(c["content"][:8]):
                ctx.violation("fixture: gzip on a truncated archive did not behave as assumed (rc %d, %d bytes out, "
                              "stderr %r)" % (p.returncode, len(p.stdout), p.stderr[:80]), dict(kind="child-failure-fixture"),
                              nfi=True)
                continue
        else:
            script, child = child_of(c)
            script = "#!/bin/sh\n" + script.replace("PLAIN", os.path.join(d, "plain.txt")) + "\n"
            with open(os.path.join(d, name), "wb") as f:
                f.write(gzip.compress(c["content"], mtime=0) if c["route"] == "zip" else c["content"])
            if c["route"] == "pre":
                sp = os.path.join(d, "pre.sh")
            else:
                os.mkdir(os.path.join(d, "fakebin"))
                os.chmod(os.path.join(d, "fakebin"), 0o755)
                sp = os.path.join(d, "fakebin", "gzip")
                env = {"PATH": os.path.join(d, "fakebin") + ":" + os.environ.get("PATH", "/usr/bin:/bin")}
            with open(sp, "w") as f:
                f.write(script)
            os.chmod(sp, 0o755)
            c["script"] = script
        with open(os.path.join(d, "plain.txt"), "wb") as f:
            f.write(child["out"])
        with open(os.path.join(d, "healthy.txt"), "wb") as f:
            f.write(b"a healthy hit\n")
        for x in (name, "plain.txt", "healthy.txt"):
            os.chmod(os.path.join(d, x), 0o644)
        c["child"], c["env"] = child, env
        base = ["--color", "never", "-j", str(c["threads"])] + ([c["mode"]] if c["mode"] else []) + \
            (["--no-messages"] if c["no_messages"] else [])
        via = ["--pre", "./pre.sh", "--pre-glob", "input.dat"] if c["route"] == "pre" else ["-z"]
        files = [name] + (["healthy.txt"] if c["layout"] == "pair" else [])
        rfiles = ["plain.txt"] + (["healthy.txt"] if c["layout"] == "pair" else [])
        c["args"] = base + via + ["-H", "-e", "hit"] + files
        c["ref_args"] = base + ["-H", "-e", "hit"] + rfiles
        live.append(c)
    res = K.pmap(lambda c: (K.run_rg(c["args"], c["dir"], timeout=240, env=c["env"]),
                            K.run_rg(c["ref_args"], c["dir"], timeout=240)), live)
    stat = ctx.cov.setdefault("child_failure_cases", {})
    for c, (r, ref) in zip(live, res):
        failed, stops = expected_failed(c["child"], c["mode"])
        c["failed"], c["stops"], c["r"], c["ref"] = failed, stops, r, ref
        key = "%s/%s/%s/%s%s" % (c["route"], c["kind"], c["mode"], "early-stop" if stops else "read-to-end",
                                 "/error" if failed else "")
        stat[key] = stat.get(key, 0) + 1
        ctx.note_case("cf" + repr((c["route"], c["kind"], c["mode"], c["layout"], c["threads"], c["content"])),
                      c["kind"] != "ok")
        name = c["name"]
        replay = dict(kind="child-failure", route=c["route"], child=c["kind"], mode=c["mode"], layout=c["layout"],
                      threads=c["threads"], args=" ".join(c["args"]), script=c.get("script"),
                      child_stdout=repr(c["child"]["out"][:200]), child_stderr=repr(c["child"]["err"][:100]),
                      stops_early=stops, expected_error=failed,
                      rg=dict(status=r["status"], out=repr(r["out"][:300]), err=repr(r["err"][:300])),
                      ref=dict(status=ref["status"], out=repr(ref["out"][:300])))
        how = "rg %s" % " ".join(c["args"])
        if r["timeout"]:
            ctx.violation("%s did not finish within 240 s" % how, replay)
            continue
        quiet = c["mode"] == "-q"
        if not failed:
            exp = ref["out"].replace(b"plain.txt", name.encode())
            same = r["out"] == exp if c["threads"] == 1 else sorted(r["out"].split(b"\n")) == sorted(exp.split(b"\n"))
            if r["err"] or r["status"] != ref["status"] or not same:
                ctx.violation("%s: the command did not fail (%s), but the run differs from rg on the command's output: "
                              "status %d vs %d, stderr %r" % (how, "cut short, silent" if stops and not c["child"]["ok"]
                                                              else "exit 0", r["status"], ref["status"], r["err"][:100]),
                              replay)
            continue
        other_match = c["layout"] == "pair"
        want = 0 if (other_match and quiet) else 2
        problem = None
        if r["status"] != want:
            problem = "exit status %d, expected %d" % (r["status"], want)
        elif c["no_messages"]:
            if r["err"]:
                problem = "--no-messages, but stderr is not empty"
        elif want == 2 and name.encode() not in r["err"]:
            problem = "no diagnostic naming %s on stderr" % name
        elif other_match and not quiet and b"healthy.txt" not in r["out"]:
            problem = "the results of healthy.txt are missing"
        if problem:
            ctx.violation("%s: the command behind %s fails on its own (%s%s)%s — %s" % (
                how, name, "non-zero exit / killed", ", message on stderr" if c["child"]["err"] else "",
                " and rg stops reading early" if stops else "", problem), replay)
    K.rmtree(root)
    return live
