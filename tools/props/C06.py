"""C06 — single-threaded and parallel traversal report the same entries, once each."""
import os
import shutil
import stat
import tempfile

import vlib
from vlib import vbytes, vlist, vopt, vbool, parse_val

NEED_RG = False
MANIFEST = dict(
    text="Coq theorems over all file systems whose directories form a forest (symlinks anywhere, cycles included), all "
         "configurations (max_depth, max_filesize, follow_links, same_file_system, filter_entry), all ignore-verdict and "
         "filter functions, all root lists: serial_eq_parallel — the model of the serial walker (walkdir's directory "
         "stack, WalkEventIter's depth counter and buffer, Walk::next with matcher stack, skip_current_dir, "
         "is_descended) and the model of the parallel walker (LIFO worklist of run_one/generate_work) both terminate "
         "and deliver the same multiset of (kind, path, depth); each equals the inductively defined descent tree of "
         "the roots, every entry once (serial_set_eq_spec, parallel_terminates_and_reports_descent); every descent is "
         "finite because a followed directory is never among its ancestors (loop_detected_and_terminates); the two "
         "skip decisions are the same function (false on the pinned text: D5). D5 and the new D15 (a skipped "
         "directory on another file system dropped its siblings) are refuted by witness on the pinned text and "
         "repaired. Tie to the code: extracted models of both walkers vs WalkBuilder::build() and build_parallel() "
         "(1..8 threads) on real temp trees, plus an independent find-style listing; six directed schedules "
         "(walk_verif yield hook: a thief held back at ACTIVATE) compare the parallel with the serial multiset.",
    note="trusted: Coq kernel, extraction, OCaml driver, Rust harness, Python oracle; walkdir 2.5.0 is modelled "
         "(IntoIter::next/handle_entry/push/pop/skip_current_dir) and tested, not verified; the parallel walker is a "
         "sequential worklist here (schedule independence is C07); entries are compared on (kind, path, depth): a root "
         "that is a symlink to a directory carries the link's file type in the serial walker and the target's in the "
         "parallel one; read_dir/stat failures other than dangling links are not modelled.",
    technique="Coq proof over executable models + extracted-model/implementation correspondence + find-style oracle",
    design="§7 C06")

NAMES = ["a", "b", "c", "d", ".h", "e.rs", "big", "k", "x"]
# lines no glob parser accepts (unclosed class, unclosed alternation, reversed range, dangling escape): gitignore(5) /
# the ignore crate's documentation: such a line is reported and skipped, every other line of the file stays in force
MALFORMED = ["broken[", "a{b", "[z-a]", "x\\"]
# (.gitignore files are left to the command-line level check C08: with git_ignore the matcher also reads the parents of
# every root, which this check's oracle deliberately keeps out with parents(false))
IGNORE_FILES = [".ignore", ".rgignore"]


# ----------------------------------------------------------------------------- tree generation
def gen_tree(rng, depth, budget, foreign_ok):
    """a directory: dict(kind='d', kids={name: node}, ignore=[(name, dironly)])"""
    kids = {}
    n = rng.randint(1, 6) if depth == 0 else rng.randint(0, 5)
    for _ in range(n):
        if budget[0] <= 0:
            break
        name = rng.choice(NAMES)
        if name in kids:
            continue
        budget[0] -= 1
        k = rng.random()
        if k < 0.45:
            kids[name] = dict(kind="f", size=rng.choice([0, 1, 5, 10, 11, 50]))
        elif k < 0.75 and depth < 4:
            kids[name] = gen_tree(rng, depth + 1, budget, foreign_ok)
        else:
            kids[name] = dict(kind="l", target=None)      # target chosen later
    node = dict(kind="d", kids=kids, ignore=[])
    if rng.random() < 0.25:
        node["ignore"] = [(rng.choice(NAMES), rng.random() < 0.3) for _ in range(rng.randint(1, 2))]
    # a partially invalid ignore file: malformed lines among valid rules that hide entries of this very directory
    # (and same-named ones below it); mostly below the root directory
    if kids and rng.random() < (0.12 if depth == 0 else 0.35):
        node["bad"] = rng.sample(MALFORMED, rng.randint(1, 2))
        node["igfile"] = rng.choice(IGNORE_FILES)
        node["ignore"] = node["ignore"] + [(n, False) for n in rng.sample(sorted(kids), min(len(kids), rng.randint(1, 2)))]
    return node


def all_paths(node, prefix, acc):
    acc.append((prefix, node))
    if node["kind"] == "d":
        for n, k in node["kids"].items():
            all_paths(k, prefix + [n], acc)
    return acc


def choose_targets(rng, tree, foreign):
    """give every link a target text: relative paths to files, dirs (incl. ancestors -> cycles), other links, nothing"""
    nodes = all_paths(tree, [], [])
    for path, node in nodes:
        if node["kind"] != "l":
            continue
        k = rng.random()
        up = len(path) - 1
        if k < 0.12:
            node["target"] = "nonexistent"
        elif k < 0.3 and up > 0:
            node["target"] = "/".join([".."] * rng.randint(1, up))           # an ancestor: a cycle
        elif k < 0.38:
            node["target"] = "."
        elif k < 0.5 and foreign:
            node["target"] = foreign + rng.choice(["", "/fd", "/ff"])
        else:
            tp, tn = rng.choice(nodes)
            rel = [".."] * up + tp
            node["target"] = "/".join(rel) if rel else "."


def materialise(path, node):
    if node["kind"] == "f":
        with open(path, "wb") as f:
            f.write(b"x" * node["size"])
    elif node["kind"] == "l":
        os.symlink(node["target"], path)
    else:
        os.makedirs(path, exist_ok=True)
        if node["ignore"] or node.get("bad"):
            lines = [n + ("/" if d else "") for n, d in node["ignore"]]
            for b in node.get("bad", []):
                lines.insert((7 * len(b) + ord(b[0]) + len(lines)) % (len(lines) + 1), b)
            with open(os.path.join(path, node.get("igfile", ".ignore")), "w") as f:
                f.write("".join(l + "\n" for l in lines))
        for n, k in node["kids"].items():
            materialise(os.path.join(path, n), k)


def fixed_badglob_tree(igfile):
    """t/{a, x/b, d/{<igfile>: valid rules b, k among malformed lines; b, c, k/x, e.rs/{a, b}}}: the rules of d hide d/b, d/k
    and d/e.rs/b; x/b stays"""
    F = lambda: dict(kind="f", size=5)
    D = lambda kids, **kw: dict(dict(kind="d", kids=kids, ignore=[]), **kw)
    return D({"a": F(), "x": D({"b": F()}),
              "d": D({"b": F(), "c": F(), "k": D({"x": F()}), "e.rs": D({"a": F(), "b": F()})},
                     ignore=[("b", False), ("k", False)], bad=list(MALFORMED), igfile=igfile)})


def directed_cases():
    res = []
    for igfile in IGNORE_FILES:
        for threads in (1, 2, 4, 8):
            res.append(dict(budget=0, use_foreign=False, tree_seed=1, max_depth=None, max_filesize=None, follow=False,
                            same_fs=False, has_filter=False, filter_names=["big"], hidden=(threads % 4 == 0),
                            threads=threads, nroots=1, focus_xdev=False, fixed_tree=igfile, fixed_roots=["t"]))
    return res


def gen_case(rng):
    c = dict()
    c["budget"] = rng.choice([5, 12, 25, 38])
    c["use_foreign"] = rng.random() < 0.35
    c["tree_seed"] = rng.getrandbits(48)
    c["max_depth"] = rng.choice([None, None, None, 0, 1, 2, 3])
    c["max_filesize"] = rng.choice([None, None, 0, 4, 10, 20])
    c["follow"] = rng.random() < 0.55
    c["same_fs"] = rng.random() < 0.35
    c["has_filter"] = rng.random() < 0.45
    c["filter_names"] = rng.sample(NAMES, rng.randint(1, 2))
    c["hidden"] = rng.random() < 0.5
    c["threads"] = rng.randint(1, 8)
    c["nroots"] = rng.choice([1, 1, 1, 2, 3])
    # a share of the cases aims at the cross-device branch of the serial walker (D15)
    c["focus_xdev"] = rng.random() < 0.12
    if c["focus_xdev"]:
        c.update(follow=True, same_fs=True, use_foreign=True, has_filter=True, max_depth=None)
    return c


def build_case(c, base, foreign_base):
    """create the tree; returns (roots, tree)"""
    import random
    rng = random.Random(c["tree_seed"])
    foreign = None
    if c["use_foreign"] and foreign_base:
        foreign = os.path.join(foreign_base, os.path.basename(base))
        os.makedirs(os.path.join(foreign, "fd"))
        for n, sz in (("ff", 3), ("fd/a", 30), ("fd/.h", 1), ("b", 2)):
            with open(os.path.join(foreign, n), "wb") as f:
                f.write(b"y" * sz)
        os.symlink("..", os.path.join(foreign, "fd", "up"))
    if c.get("fixed_tree"):
        tree = fixed_badglob_tree(c["fixed_tree"])
    else:
        tree = gen_tree(rng, 0, [c["budget"]], bool(foreign))
        choose_targets(rng, tree, foreign)
    if c.get("focus_xdev") and foreign:
        # a skipped directory on the other device, somewhere among siblings
        # ... in the root directory or one level down, skipped by the filter, by `hidden`, or by an ignore rule
        host = tree
        subs = [k for k in tree["kids"].values() if k["kind"] == "d"]
        if subs and rng.random() < 0.4:
            host = rng.choice(subs)
        how = rng.choice(["filter", "ignore", "ignore", "hidden"])
        lname = c["filter_names"][0] if how == "filter" else ("xd" if how == "ignore" else ".x")
        host["kids"][lname] = dict(kind="l", target=foreign + "/fd")
        if how == "hidden" and not c["hidden"]:
            host["ignore"] = host["ignore"] + [(".x", False)]
        if how == "ignore":
            host["ignore"] = host["ignore"] + [("xd", rng.random() < 0.5)]
        # the same directory's ignore file also hides some of the link's siblings
        sibs = [n for n in host["kids"] if n != lname]
        for n in rng.sample(sibs, min(len(sibs), rng.randint(1, 3))):
            host["ignore"] = host["ignore"] + [(n, False)]
        if rng.random() < 0.4:
            tree["kids"][".x2"] = dict(kind="l", target=foreign)
    os.makedirs(base)
    materialise(os.path.join(base, "t"), tree)
    # roots: the tree itself, or things inside it (a file, a link, a sub-directory)
    cands = [("t/" + "/".join(p)) if p else "t" for p, n in all_paths(tree, [], [])]
    roots = []
    for i in range(c["nroots"]):
        r = "t" if (i == 0 and rng.random() < 0.8) else rng.choice(cands)
        if rng.random() < 0.2:
            r = "./" + r
        if r not in roots:
            roots.append(r)
    if c.get("fixed_roots"):
        roots = list(c["fixed_roots"])
    c["roots"] = roots
    return roots, tree, foreign


# ----------------------------------------------------------------------------- the real tree as an inode table
def scan_fs(base, roots, foreign):
    """walk the real tree (no symlink following) and build the model's inode table.
       returns (table lines, id_of_path, rules)"""
    ids = {}            # real path (no link resolution of the last component) -> id
    nodes = []

    def add(path):
        if path in ids:
            return ids[path]
        i = len(nodes)
        ids[path] = i
        nodes.append(None)
        st = os.lstat(path)
        if stat.S_ISDIR(st.st_mode):
            ents = []
            for n in sorted(os.listdir(path)):
                ents.append((n, add(os.path.join(path, n))))
            nodes[i] = ("d", ents, st.st_dev, path)
        elif stat.S_ISLNK(st.st_mode):
            nodes[i] = ("l", None, st.st_size, st.st_dev, path)
        else:
            nodes[i] = ("f", st.st_size, st.st_dev)
        return i
    add(os.path.join(base, "t"))
    if foreign:
        add(foreign)
    # resolve links
    for i, nd in enumerate(nodes):
        if nd[0] == "l":
            p = nd[4]
            try:
                os.stat(p)
                rp = os.path.realpath(p)
                tgt = ids.get(rp)
                if tgt is None:
                    tgt = add_outside(rp, ids, nodes, add)
            except OSError:
                tgt = None
            nodes[i] = ("l", tgt, nd[2], nd[3], p)
    rules = []
    lines = []
    for i, nd in enumerate(nodes):
        if nd[0] == "f":
            lines.append(vlist(["0", str(nd[1]), str(nd[2])]))
        elif nd[0] == "d":
            lines.append(vlist(["1", vlist([vlist([vbytes(n), str(j)]) for n, j in nd[1]]), str(nd[2])]))
            rs = [vlist([vbytes(n), vbool(d)]) for n, d in read_rules(nd[3])]
            if rs:
                rules.append(vlist([str(i), vlist(rs)]))
        else:
            lines.append(vlist(["2", vopt(None if nd[1] is None else str(nd[1])), str(nd[2]), str(nd[3])]))
    # the hypotheses of the theorems (directories form a forest, links resolved): always true of a real tree;
    # here: is the identity ranking on our inode numbers a witness?
    scan_fs.ranked_by_id = all(j > i for i, nd in enumerate(nodes) if nd[0] == "d" for _, j in nd[1] if nodes[j][0] == "d")
    return lines, ids, rules


def add_outside(rp, ids, nodes, add):
    """a link target outside the scanned trees (e.g. the case directory itself via '..'): scan it too"""
    return add(rp)


def root_id(base, r, ids):
    p = os.path.normpath(os.path.join(base, r))
    return ids.get(p)


# ----------------------------------------------------------------------------- find-style oracle (the spec)
def read_rules(d):
    """the valid rules of a directory's ignore files; a malformed line is skipped, nothing else is"""
    rs = []
    for fn in IGNORE_FILES:
        p = os.path.join(d, fn)
        if os.path.isfile(p):
            for ln in open(p).read().split("\n"):
                if ln and ln not in MALFORMED:
                    rs.append((ln.rstrip("/"), ln.endswith("/")))
    return rs


def has_malformed(d):
    for fn in IGNORE_FILES:
        p = os.path.join(d, fn)
        if os.path.isfile(p) and any(ln in MALFORMED for ln in open(p).read().split("\n")):
            return True
    return False


def partial_error_paths(v):
    """paths of the entries whose DirEntry::error() is set (harness field 5)"""
    return sorted(o[1].decode("utf-8", "surrogateescape") for o in v
                  if not isinstance(o, bytes) and o and o[0] == 0 and len(o) > 5 and o[5])


def oracle(base, c):
    ents, loops, ioerrs = [], [], []

    def pj(d, n):
        return d + n if d.endswith("/") else d + "/" + n

    def descend(dpath, depth, anc, rules, rootdev):
        if c["max_depth"] is not None and depth >= c["max_depth"]:
            return
        rules = [read_rules(os.path.join(base, dpath))] + rules
        for name in os.listdir(os.path.join(base, dpath)):
            p = pj(dpath, name)
            full = os.path.join(base, p)
            eff = os.lstat(full)
            if stat.S_ISLNK(eff.st_mode) and c["follow"]:
                try:
                    eff = os.stat(full)
                except OSError:
                    ioerrs.append(p)
                    continue
                if stat.S_ISDIR(eff.st_mode) and (eff.st_dev, eff.st_ino) in anc:
                    loops.append(p)
                    continue
            is_dir = stat.S_ISDIR(eff.st_mode)
            if c["hidden"] and name.startswith("."):
                continue
            if any(name == n and (is_dir or not donly) for rs in rules for n, donly in rs):
                continue
            if c["max_filesize"] is not None and not is_dir and eff.st_size > c["max_filesize"]:
                continue
            if c["has_filter"] and name in c["filter_names"]:
                continue
            ents.append((p, depth + 1))
            if is_dir and not (rootdev is not None and eff.st_dev != rootdev):
                descend(p, depth + 1, anc + [(eff.st_dev, eff.st_ino)], rules, rootdev)

    for r in c["roots"]:
        full = os.path.join(base, r)
        try:
            st = os.stat(full)
        except OSError:
            ioerrs.append(r)
            continue
        ents.append((r, 0))
        if stat.S_ISDIR(st.st_mode):
            descend(r, 0, [(st.st_dev, st.st_ino)], [], st.st_dev if c["same_fs"] else None)
    return sorted(ents), sorted(loops), sorted(ioerrs)


# ----------------------------------------------------------------------------- running
def scratch():
    b = os.environ.get("VERIF_SCRATCH") or "/tmp"
    os.makedirs(b, exist_ok=True)
    d = tempfile.mkdtemp(prefix="verif-C06-", dir=b)
    f = None
    try:
        if os.path.isdir("/dev/shm") and os.stat("/dev/shm").st_dev != os.stat(d).st_dev:
            f = tempfile.mkdtemp(prefix="verif-C06-", dir="/dev/shm")
    except OSError:
        f = None
    return d, f


def cfg_val(c, rules):
    return vlist([vopt(None if c["max_depth"] is None else str(c["max_depth"])),
                  vopt(None if c["max_filesize"] is None else str(c["max_filesize"])),
                  vbool(c["follow"]), vbool(c["same_fs"]), vbool(c["has_filter"]),
                  vlist([vbytes(n) for n in c["filter_names"]]), vbool(c["hidden"]), vlist(rules),
                  vbool(c.get("d5", True)), vbool(c.get("d15", True))])


def split_outs(v):
    """model/harness output list -> (entries [(path, depth, ty, symlink)], loops, ioerrs, others)"""
    ents, loops, ios, other = [], [], [], []
    for o in v:
        if isinstance(o, bytes):
            other.append(o)
            continue
        k = o[0]
        s = lambda b: b.decode("utf-8", "surrogateescape") if isinstance(b, bytes) else ""
        if k == 5:
            other.append("panic")
        elif k == 0:
            ents.append((s(o[1]), o[2], o[3], o[4]))
        elif k == 1:
            loops.append(s(o[1]))
        elif k == 2:
            ios.append(s(o[1]))
        else:
            other.append(o)
    return sorted(ents), sorted(loops), sorted(ios), other


def check_cases(ctx, cases, base0, foreign0, stats):
    mlines, hlines, metas = [], [], []
    for i, c in enumerate(cases):
        base = os.path.join(base0, "c%d" % i)
        roots, tree, foreign = build_case(c, base, foreign0)
        lines, ids, rules = scan_fs(base, roots, foreign)
        rvals = []
        ok = True
        for r in roots:
            rid = root_id(base, r, ids)
            if rid is None:
                ok = False
            rvals.append(vlist([vbytes(r), str(rid)]))
        if not ok:
            continue
        ora = oracle(base, c)
        if getattr(scan_fs, "ranked_by_id", False):
            stats["fs-ranked-by-inode-number"] = stats.get("fs-ranked-by-inode-number", 0) + 1
        fuel = 40 * (len(ora[0]) + len(lines)) + 200
        mlines.append(vlist([vlist(lines), vlist(rvals), cfg_val(c, rules), str(fuel)]))
        hlines.append(vlist([vbytes(base), vlist([vbytes(r) for r in roots]), cfg_val(c, []), str(c["threads"])]))
        metas.append((c, base, ora))
    mo = vlib.model(601, mlines)
    co = vlib.code(601, hlines)
    # the same cases through the model of the pinned text (D5 / D15 unrepaired): how often would it show?
    for flag, label in (("d5", "pinned-D5-shows"), ("d15", "pinned-D15-shows")):
        pl = []
        for (c, base, ora), ml in zip(metas, mlines):
            c2 = dict(c)
            c2[flag] = False
            parts = ml.rsplit(" ", 1)
            # rebuild the cfg item: cheap way = regenerate the line text with the flag flipped
            pl.append(flip_flag(ml, flag))
        po = vlib.model(601, pl)
        for a, b in zip(mo, po):
            if a != b:
                stats[label] = stats.get(label, 0) + 1
    for (c, base, ora), ml, hl, m, h in zip(metas, mlines, hlines, mo, co):
        rep = dict(kind=601, case=c, model_line=ml)
        if h == "PANIC":
            # the tree and options are the failing input
            ctx.violation("a walker panicked on this tree (roots %r)" % (c["roots"],), dict(rep, oracle=ora))
            continue
        if h == "MISSING" or h.startswith("PARSEFAIL") or m.startswith(("MISSING", "STACK", "PARSEFAIL")):
            ctx.violation("walker run failed: model=%s code=%s" % (m[:40], h[:40]), rep, nfi=True)
            continue
        hv = parse_val(h)
        mv = parse_val(m)
        if isinstance(hv, bytes) or len(hv) != 2:
            ctx.violation("harness status %r" % (hv,), rep, nfi=True)
            continue
        if mv[0] == [] or mv[1] == []:
            ctx.violation("model ran out of fuel (termination bound exceeded)", rep, nfi=True)
            continue
        ser = split_outs(hv[0])
        par = split_outs(hv[1])
        mser = split_outs(mv[0][0])
        mpar = split_outs(mv[1][0])
        feats = []
        for k in ("max_depth", "max_filesize"):
            if c[k] is not None:
                feats.append(k)
        for k in ("follow", "same_fs", "has_filter", "hidden", "use_foreign"):
            if c[k]:
                feats.append(k)
        if ser[1]:
            feats.append("loop-error")
        if ser[2]:
            feats.append("io-error")
        if len(c["roots"]) > 1:
            feats.append("several-roots")
        if any(e[1] == 0 and e[2] != 1 for e in ser[0]):
            feats.append("root-not-dir")
        if any(e[3] for e in ser[0]):
            feats.append("symlink-entry")
        if c["has_filter"] and c["max_filesize"] is not None:
            feats.append("filter+filesize(D5)")
        if c["same_fs"] and c["follow"] and c["use_foreign"]:
            feats.append("cross-device(D15)")
        feats.append("threads=%d" % c["threads"])
        for f in feats:
            stats[f] = stats.get(f, 0) + 1
        stats["entries"] = stats.get("entries", 0) + len(ser[0])
        ctx.note_case(ml, len(ser[0]) > 1)
        if len(ctx.cov["samples"]) < 4 and len(ser[0]) > 3 and (ser[1] or c["has_filter"]):
            ctx.sample(dict(roots=c["roots"], cfg={k: c[k] for k in ("max_depth", "max_filesize", "follow", "same_fs", "has_filter", "filter_names", "hidden", "threads")},
                            entries=[e[0] for e in ser[0]], loops=ser[1]))
        pd = lambda t: [(e[0], e[1]) for e in t[0]]
        if "panic" in ser[3]:
            ctx.violation("the single-threaded walker panicked after yielding %d entries; extra=%r missing=%r"
                          % (len(ser[0]), sorted(set(pd(ser)) - set(ora[0]))[:5], sorted(set(ora[0]) - set(pd(ser)))[:5]),
                          dict(rep, serial=ser, parallel=par, oracle=ora))
        # the property: serial = parallel = reachable set, each once; loops reported
        if pd(ser) != pd(par) or ser[1] != par[1]:
            ctx.violation("serial and parallel walkers report different entries: only-serial=%r only-parallel=%r loops %r / %r"
                          % (sorted(set(pd(ser)) - set(pd(par)))[:5], sorted(set(pd(par)) - set(pd(ser)))[:5], ser[1][:3], par[1][:3]),
                          dict(rep, serial=ser, parallel=par, oracle=ora))
        # partial errors of a directory's ignore files: both walkers attach them to the directory's entry; expected on
        # exactly the yielded directories (symlinks only where a walker treats them as directories) with a malformed line
        eser, epar = partial_error_paths(hv[0]), partial_error_paths(hv[1])
        def as_dir(p, depth):
            full = os.path.join(base, p)
            return os.path.isdir(full) and (not os.path.islink(full) or c["follow"] or depth == 0)
        eexp = sorted(p for p, dp in ora[0] if as_dir(p, dp) and has_malformed(os.path.join(base, p)))
        if eexp:
            stats["cases-with-partially-invalid-ignore-file"] = stats.get("cases-with-partially-invalid-ignore-file", 0) + 1
        if eser != epar or (prop_ok_pre(ser, par, ora, pd) and eser != eexp):
            ctx.violation("partial ignore-file errors are attached to different entries: serial %r parallel %r expected %r"
                          % (eser[:5], epar[:5], eexp[:5]), dict(rep, serial=ser, parallel=par, oracle=ora))
        if len(set(pd(ser))) != len(pd(ser)) or len(set(pd(par))) != len(pd(par)):
            ctx.violation("an entry is reported more than once", dict(rep, serial=ser, parallel=par))
        if pd(ser) != ora[0] or ser[1] != ora[1]:
            ctx.violation("serial walker differs from the reachable set: missing=%r extra=%r loops %r / %r"
                          % (sorted(set(ora[0]) - set(pd(ser)))[:5], sorted(set(pd(ser)) - set(ora[0]))[:5], ser[1][:3], ora[1][:3]),
                          dict(rep, serial=ser, oracle=ora))
        if pd(par) != ora[0] or par[1] != ora[1]:
            ctx.violation("parallel walker differs from the reachable set: missing=%r extra=%r"
                          % (sorted(set(ora[0]) - set(pd(par)))[:5], sorted(set(pd(par)) - set(ora[0]))[:5]),
                          dict(rep, parallel=par, oracle=ora))
        # correspondence: models vs code, all observables (type, symlink flag, error kinds)
        prop_ok = pd(ser) == ora[0] and pd(par) == ora[0]
        if mser[:3] != ser[:3] or [x for x in ser[3] if x != "panic"]:       # a panic is reported above, with its input
            ctx.violation("serial model and WalkBuilder::build() disagree: %r vs %r" % (diff3(mser, ser)), dict(rep, model=mser, code=ser),
                          nfi=prop_ok)
        # the parallel root entry of a symlinked root reports the target's type; compare modulo nothing else
        if mpar[:3] != par[:3] or par[3]:
            ctx.violation("parallel model and WalkBuilder::build_parallel() disagree: %r vs %r" % (diff3(mpar, par)), dict(rep, model=mpar, code=par),
                          nfi=prop_ok)


def prop_ok_pre(ser, par, ora, pd):
    return pd(ser) == ora[0] and pd(par) == ora[0]


def flip_flag(line, flag):
    """the model case line with d5 or d15 (the last two cfg items, both 1) set to 0"""
    # cfg ends with "... 1 1) FUEL)"
    head, fuel = line.rsplit(" ", 1)
    assert head.endswith(" 1 1)"), head[-20:]
    head = head[:-5] + (" 0 1)" if flag == "d5" else " 1 0)")
    return head + " " + fuel


def diff3(a, b):
    sa = set(a[0]) | set(("L", x) for x in a[1]) | set(("E", x) for x in a[2])
    sb = set(b[0]) | set(("L", x) for x in b[1]) | set(("E", x) for x in b[2])
    return sorted(sa - sb, key=repr)[:4], sorted(sb - sa, key=repr)[:4]


RACE = dict(activate_sleep_ms=200, visit_sleep_ms=20, rounds=3)


def check_race(ctx, base0, stats):
    """directed schedules of the parallel walker (library level, ignore::walk_verif yield hook): an idle worker is held
       up between its successful steal and its re-activation while the others run dry; every round must report the
       serial walk's entries, each once.  True of correct code under every schedule: a stall can only hide a defect."""
    lines, metas = [], []
    trees = [
        ("small", {"a": 1, "b": 1, "c": 1, "d": {"e": 1, "f": 1}, "g": {"h": 1}}),
        ("one-dir", {"d": {"e": 1}, "x": 1}),
        ("chain", {"p": {"q": {"r": {"s": 1}}}, "t": 1, "u": 1}),
    ]

    def mk(path, t):
        os.makedirs(path)
        for n, k in t.items():
            if isinstance(k, dict):
                mk(os.path.join(path, n), k)
            else:
                open(os.path.join(path, n), "w").close()

    def listing(t, pre="t"):
        out = [pre + "/"]
        for n, k in sorted(t.items()):
            out += listing(k, pre + "/" + n) if isinstance(k, dict) else [pre + "/" + n]
        return out
    c = dict(max_depth=None, max_filesize=None, follow=False, same_fs=False, has_filter=False, filter_names=[], hidden=False)
    for name, t in trees:
        for threads in (2, 3):
            base = os.path.join(base0, "race-%s-%d" % (name, threads))
            mk(os.path.join(base, "t"), t)
            lines.append(vlist([vbytes(base), vlist([vbytes("t")]), cfg_val(c, []), str(threads),
                                str(RACE["activate_sleep_ms"]), str(RACE["visit_sleep_ms"]), str(RACE["rounds"])]))
            metas.append((name, threads, listing(t)))
    outs = vlib.code(602, lines, shards=len(lines))
    for (name, threads, tree), line, o in zip(metas, lines, outs):
        ctx.note_case("race" + line, True)
        stats["directed-schedule-cases"] = stats.get("directed-schedule-cases", 0) + 1
        v = parse_val(o) if o.startswith("(") else None
        if v is None or len(v) != 4:
            ctx.violation("directed-schedule harness failed: " + o[:80], dict(kind=602, line=line), nfi=True)
            continue
        dec = lambda l: [((e[0].decode("utf-8", "replace") if isinstance(e[0], bytes) else ""), e[1]) for e in l]
        missing, extra = dec(v[0]), dec(v[1])
        if missing or extra:
            ctx.violation("parallel walk (%d threads; an idle worker delayed %d ms between its steal and its re-activation, visitor "
                          "%d ms) differs from the serial walk in %d of %d rounds: missing %r, extra/duplicate %r"
                          % (threads, RACE["activate_sleep_ms"], RACE["visit_sleep_ms"], v[3], RACE["rounds"], missing[:6], extra[:6]),
                          dict(kind=602, tree=tree, roots=["t"], threads=threads, hook=dict(point="ACTIVATE", **RACE),
                               missing=missing, extra=extra, line=line))


def run(ctx):
    rng = ctx.rng
    ctx.cov["rule"] = ("a case = a real temp tree (<= 40 entries, depth <= 5; files of several sizes, directories with .ignore "
                       "files, symlinks to files, directories, ancestors (cycles), nothing, and into a tree on another device) "
                       "x 1-3 roots (the tree, a sub-directory, a file, a link) x max_depth x max_filesize x follow_links x "
                       "same_file_system x filter_entry x hidden x threads 1..8. non-trivial = more than one entry reported; "
                       "distinct by model case text.")
    base0, foreign0 = scratch()
    stats = {}
    try:
        check_race(ctx, base0, stats)
        # fixed trees with a partially invalid ignore file first; when they already give a failing input the generated
        # cases are skipped (a walker that loses a directory's matcher can take very long on trees with link cycles)
        bd = os.path.join(base0, "directed")
        os.makedirs(bd)
        check_cases(ctx, directed_cases(), bd, None, stats)
        shutil.rmtree(bd, ignore_errors=True)
        n = ctx.count(1500)
        if any(not nfi for _, nfi, _ in ctx.violations):
            ctx.notes.append("a fixed tree gave a failing input: the generated cases were not run")
            n = 0
        done = 0
        b = 0
        while done < n:
            m = min(250, n - done)
            bd = os.path.join(base0, "b%d" % b)
            os.makedirs(bd)
            fd = None
            if foreign0:
                fd = os.path.join(foreign0, "b%d" % b)
                os.makedirs(fd)
            check_cases(ctx, [gen_case(rng) for _ in range(m)], bd, fd, stats)
            shutil.rmtree(bd, ignore_errors=True)
            if fd:
                shutil.rmtree(fd, ignore_errors=True)
            done += m
            b += 1
    finally:
        shutil.rmtree(base0, ignore_errors=True)
        if foreign0:
            shutil.rmtree(foreign0, ignore_errors=True)
    if not foreign0:
        ctx.notes.append("no second file system available (/dev/shm): cross-device cases not exercised in this run")
    ctx.cov["features"] = dict(sorted(stats.items()))
    ctx.assumptions += [
        "should_skip_entry's verdict and the filter_entry predicate are Section variables in the theorems; in the generated "
        "cases they are: hidden names, per-directory .ignore files of literal names, a name list",
        "walkdir 2.5.0 is modelled from its source, not verified; readdir order is arbitrary (outputs compared as sorted multisets)",
        "errors other than symlink loops and dangling links (permissions, races) are not generated",
    ]


def replay(ctx, data):
    r = data["replay"]
    base0, foreign0 = scratch()
    try:
        if r.get("kind") == 602:
            check_race(ctx, base0, {})
        else:
            check_cases(ctx, [r["case"]], base0, foreign0, {})
    finally:
        shutil.rmtree(base0, ignore_errors=True)
        if foreign0:
            shutil.rmtree(foreign0, ignore_errors=True)


# ----------------------------------------------------------------------------------------------- source tie (DESIGN §4.2)
# the definitions of Gen/DecisionsLib.v this property's Props file ties to the model (`*_generated_eq_model`): when
# tools/gen/decisions_lib.py could not translate the current source text the tie is broken and reported
GEN_LIB_TARGETS = ['skip_filesize', 'skip_entry', 'par_should_skip_filesize', 'par_should_skip_filtered', 'par_send']
_run_checks = run


def run(ctx):
    _run_checks(ctx)
    vlib.report_gen_drift(ctx, "decisions_lib", GEN_LIB_TARGETS, bool(ctx.violations))
