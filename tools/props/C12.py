"""C12 — a glob set answers like its member globs; globs mean what is documented."""
import itertools

import vlib
from vlib import vbytes, vlist, parse_val

NEED_RG = True
MANIFEST = dict(
    text="Coq theorems (all token lists, all four options, all paths): every match strategy of a glob set answers "
         "as the glob's regex meaning (strategy_eq_regex; refuted for the pinned file_name by a witness = defect D3, "
         "proved for the repaired one), GlobSet::matches = ascending duplicate-free indices of the individually "
         "matching globs (set_eq_members), GlobSet::is_match = some member matches (set_is_match_eq_exists), the parser is "
         "total and never panics, and on the text of every glob of the documented alternate-free syntax it yields the "
         "documented tokens (parse_documented_syntax), also with alternates `{a,b,...}` whose alternatives are such globs "
         "(parse_documented_syntax_alt; an Alternates token followed by a rest matches iff one alternative followed by "
         "the rest does; a lone `**` alternative is refuted by a witness). Tie to the code: extracted "
         "model vs globset (tokens, strategy, error kind via hooks; is_match of matcher and set on ALL paths over "
         "{a,b,.,/,-,A} up to length 5 plus random long/non-UTF-8 paths), plus an independent brace-expanding "
         "backtracking matcher written from the documented syntax as oracle; generated trees of the documented syntax "
         "with alternates: the real parser on their text yields the tokens the theorem states.",
    note="trusted: Coq kernel, extraction, OCaml driver, Rust harness; regex-automata's reading of the emitted regex "
         "text (tmatch is its meaning, tested on every case), aho-corasick (all overlapping occurrences), the FNV "
         "hash map (association list), Vec sort/dedup; glob text is ASCII (non-ASCII glob characters are outside "
         "the modelled grammar); unix separators only",
    technique="Coq proof over executable model + extracted-model/implementation correspondence (exhaustive small "
              "paths) + independent documented-syntax oracle",
    design="§7 C12, Appendix A.5")

ALPH = b"ab./-A"
SRC = b"a./*?[]{},\\!-"            # source alphabet of the exhaustive short-glob enumeration


def opts_n(ci=False, litsep=False, bsesc=True, ealt=False):
    return (1 if ci else 0) | (2 if litsep else 0) | (4 if bsesc else 0) | (8 if ealt else 0)


# ----------------------------------------------------------------------------- generators

def gen_class(rng):
    k = rng.randint(0, 11)
    neg = rng.choice([b"", b"", b"!", b"^"])
    body = [b"ab", b"a", b"a-b", b"A-b", b".-/", b"]", b"]a", b"-a", b"a-", b"a-bA", b"./", b"--a", b"*?", b"a-a",
            b"/", b"b-a", b"{", b",", b"\\", b"!"][rng.randint(0, 19)] if k < 11 else bytes(
        rng.choice(b"ab.-/A]!^") for _ in range(rng.randint(1, 4)))
    return b"[" + neg + body + b"]"


def gen_piece(rng, in_alt):
    k = rng.randint(0, 19)
    if k <= 6:
        return bytes([rng.choice(ALPH)])
    if k == 7:
        return b"/"
    if k == 8:
        return b"."
    if k == 9:
        return b"?"
    if k in (10, 11):
        return b"*"
    if k == 12:
        return gen_class(rng)
    if k == 13:
        return rng.choice([b"\\*", b"\\a", b"\\\\", b"\\,", b"\\/", b"\\[", b"\\{", b"\\.", b"\\?", b"\\}"])
    if k == 14:
        return rng.choice([b"/**/", b"/**", b"**/", b"**"])
    if k == 15 and not in_alt:
        n = rng.randint(1, 3)
        alts = []
        for _ in range(n):
            alts.append(b"".join(gen_piece(rng, True) for _ in range(rng.randint(0, 2))))
        return b"{" + b",".join(alts) + b"}"
    if k == 16:
        return rng.choice([b".a", b".b", b"a.b", b"-"])
    if k == 17:
        return b","
    return bytes([rng.choice(ALPH)])


SHAPES = [  # strategy-directed shapes: each strategy extractor and its near misses
    lambda r: b"**/" + lit(r, 1, 3),                         # basename literal
    lambda r: b"**/" + lit(r, 1, 2) + b"/" + lit(r, 1, 2),   # suffix with component
    lambda r: lit(r, 1, 4),                                  # literal
    lambda r: b"*." + lit(r, 0, 2, b"abA-"),                 # extension
    lambda r: b"**/*." + lit(r, 0, 2, b"abA-"),              # extension behind **/
    lambda r: b"*." + lit(r, 0, 1) + b"." + lit(r, 0, 1),    # two dots: not an extension
    lambda r: lit(r, 1, 3) + b"*",                           # prefix
    lambda r: lit(r, 1, 3) + b"/**",                         # prefix with separator
    lambda r: b"*" + lit(r, 1, 3),                           # suffix
    lambda r: b"**/*" + lit(r, 1, 3),                        # suffix behind **/
    lambda r: gen_piece(r, False) + b"*." + lit(r, 0, 2, b"abA"),   # required extension
    lambda r: b"?" + lit(r, 0, 2) + b"." + lit(r, 0, 2, b"ab"),    # required extension
    lambda r: b"**/" + lit(r, 0, 2) + b"?" + lit(r, 0, 1),   # basename tokens, not literal
    lambda r: lit(r, 1, 2) + b"/**/" + lit(r, 1, 2),
    lambda r: lit(r, 1, 2, b"abA.-") + b"/*",                  # trailing * as a whole component
    lambda r: lit(r, 1, 2, b"abA.-") + b"/" + lit(r, 1, 2, b"abA.-") + b"/*",
    lambda r: b"**/" + lit(r, 1, 2, b"abA.-") + b"/*",
    lambda r: lit(r, 1, 2, b"abA.-") + b"/*" + lit(r, 1, 1, b"ab."),
    lambda r: b"*/" + lit(r, 1, 2, b"abA.-"),
    lambda r: b"**",
    lambda r: b"**/",
    lambda r: b"*/",
    lambda r: b"**/*/",
    lambda r: b"/**",
    lambda r: b"*",
    lambda r: b"",
]


def lit(rng, lo, hi, alph=ALPH):
    return bytes(rng.choice(alph) for _ in range(rng.randint(lo, hi)))


def gen_glob(rng):
    k = rng.random()
    if k < 0.35:
        return rng.choice(SHAPES)(rng)
    if k < 0.9:
        return b"".join(gen_piece(rng, False) for _ in range(rng.randint(1, 5)))
    return bytes(rng.choice(SRC + b"ab^") for _ in range(rng.randint(1, 7)))     # malformed stream


def gen_multi_literal_set(rng):
    """several globs of the SAME multi-literal strategy (prefix or suffix tables share one Aho-Corasick automaton and
    one `longest` used to truncate the path) with literals of different lengths in random order, and the paths that
    separate them: each literal alone, below and above other components"""
    fam = rng.randint(0, 3)
    base = bytes(rng.choice(b"ab.-A") for _ in range(5))
    lens = rng.sample([1, 2, 3, 4, 5], rng.randint(2, 4))
    if rng.random() < 0.5:
        lens.sort(reverse=True)                    # the longer literal first
    globs, paths = [], []
    for n in lens:
        if fam == 0:                                # suffix: *lit   (separators not literal)
            l = base[-n:]
            globs.append((4, b"*" + l))
            paths += [l, b"a" + l, b"b/" + l, b"ab/a/" + l, l + b"a"]
        elif fam == 1:                              # component suffix: **/c1/c2..  (any separator option)
            comps = [bytes([base[i]]) + (b"b" if i % 2 else b"") for i in range(5 - n, 5)]
            l = b"/".join(comps) if len(comps) > 1 else comps[0] + b"/" + comps[0]
            globs.append((rng.choice([4, 6]), b"**/" + l))
            paths += [l, b"a/" + l, b"a/b/" + l, b"x" + l, l + b"/a"]
        elif fam == 2:                              # prefix: lit*
            l = base[:n]
            globs.append((4, l + b"*"))
            paths += [l, l + b"a", l + b"/a/b", b"a" + l, l + b"ab/a/b"]
        else:                                       # prefix with separator: lit/**
            l = base[:n]
            globs.append((rng.choice([4, 6]), l + b"/**"))
            paths += [l, l + b"/a", l + b"/a/b/c", b"a/" + l + b"/a", l + b"a/b"]
    if rng.random() < 0.3:
        globs.insert(rng.randint(0, len(globs)), (gen_opts(rng), gen_glob(rng)))
    return globs, paths


NA_WORDS = ["caf\u00e9", "\u00fcber", "\u4e2d", "\u00e9", "na\u00efve", "\u4e2d\u6587", "a\u00e9b", "\u00fc"]


def gen_nonascii_set(rng):
    """globs and paths with multi-byte UTF-8 literals in the literal / basename / extension / prefix / suffix shapes.
    The model reads glob text byte-wise, which is exact here: only literals, `*`, `**` and `?` (one byte under
    (?-u)) occur, no class ranges over non-ASCII characters and no case folding."""
    w = [x.encode("utf-8") for x in rng.sample(NA_WORDS, 3)]
    fam = rng.randint(0, 5)
    globs, paths = [], []
    for i, n in enumerate(rng.sample([1, 2, 3], rng.randint(1, 3))):
        a, b = w[i % 3], w[(i + 1) % 3]
        lit = [a, a + b, b + b"/" + a][n - 1]
        if fam == 0:
            globs.append((rng.choice([4, 6]), b"**/" + b"dir/" * (n - 1) + a + b".txt"))      # suffix with component
            paths += [b"dir/" * (n - 1) + a + b".txt", b"x/" + b"dir/" * (n - 1) + a + b".txt", b"x/y/" + a + b".txt"]
        elif fam == 1:
            globs.append((rng.choice([4, 6]), lit + b"/**"))                                   # prefix with separator
            paths += [lit + b"/a", lit + b"/a/" + b, lit, b"a/" + lit + b"/a"]
        elif fam == 2:
            globs.append((4, lit + b"*"))                                                      # prefix
            paths += [lit, lit + b"x", lit + b"/" + b + b"/c", b"x" + lit]
        elif fam == 3:
            globs.append((4, b"*" + lit))                                                      # suffix
            paths += [lit, b"x" + lit, b"a/b/" + lit, lit + b"x"]
        elif fam == 4:
            globs.append((rng.choice([4, 6]), rng.choice([b"*.", b"**/*."]) + a))             # extension
            paths += [b"x." + a, b"d/" + b + b"." + a, b"." + a, b"x." + a + b"/y"]
        else:
            globs.append((rng.choice([4, 6]), rng.choice([b"**/" + a, lit, b"**/" + a + b"?", a + b"/*"])))
            paths += [a, b"d/" + a, lit, b"d/e/" + a, a + b"/" + b, a + b"x"]
    if rng.random() < 0.4:
        globs.insert(rng.randint(0, len(globs)), (rng.choice([4, 6]), rng.choice([b"*.txt", b"**/dir/a.txt", b"ab/**", b"*b", b"a*"])))
    return globs, paths


def gen_reqext_set(rng):
    """several globs that end in the same literal extension but are not pure `*.ext` (the required-extension table:
    one bucket per extension, every regex of the bucket must be tried), written so that two or more of them match
    the same path; other extensions and a plain `*.ext` mixed in"""
    ext = rng.choice([b".a", b".b", b".ab", b".-", b".A"])
    o = rng.choice([4, 6, 6])
    stems = [b"a/*", b"a/b*", b"a/?*", b"?*", b"[ab]*", b"a*", b"**/b*", b"a/**/*b", b"*/b*", b"a/*b"]
    globs = [(o, st + ext) for st in rng.sample(stems, rng.randint(2, 4))]
    if rng.random() < 0.5:
        globs.insert(rng.randint(0, len(globs)), (o, rng.choice([b"*", b"a/*", b"?"]) + rng.choice([b".b", b".a", b".x"])))
    paths = [pre + stem + ext for pre in (b"", b"a/", b"b/", b"a/b/") for stem in (b"a", b"b", b"ab", b"bb", b"b-b", b"")]
    paths += [b"a/b" + ext + b"/x", b"a/b"]
    return globs, paths


# ----------------------------------------------------------------------------- documented syntax trees (kind 1204)
# A tree of Spec/GlobSyntax.v (apiece/aitem/gpiece/gitem) as nested Python tuples; Coq renders it and states the
# tokens (parse_documented_syntax_alt), the real parser is run on the rendered text.  The generator aims at
# well-formed trees; Coq's aglob_ok is the judge (ill-formed trees are counted, never silently dropped).
PLAIN = b"ab.-A!^]_ z"
ESCD = b"ab,{}*?[]\\!.-"
CLSC = b"ab.A/!^*?{,"


def gen_gitem(rng, prev_star):
    k = rng.randint(0, 9)
    if k <= 3:
        return (0, rng.choice(PLAIN))
    if k == 4:
        return (1, rng.choice(ESCD))
    if k == 5:
        return (2,)
    if k in (6, 7):
        return (0, rng.choice(PLAIN)) if prev_star else (3,)
    if k == 8:
        ms = []
        for i in range(rng.randint(1, 3)):
            lo = rng.choice(b"ab.A*?{,/" if i == 0 else CLSC)
            hi = lo if rng.random() < 0.6 else rng.choice([c for c in CLSC if c >= lo])
            ms.append((lo, hi))
        return (4, ms)
    return (0, rng.choice(PLAIN))


def gen_gcomp(rng):
    its = []
    for _ in range(rng.randint(1, 3)):
        its.append(gen_gitem(rng, bool(its) and its[-1] == (3,)))
    return its


def gen_gpieces(rng, lone_dstar_ok):
    n = rng.randint(1, 3)
    ps = []
    for _ in range(n):
        if rng.random() < 0.3 and not (ps and ps[-1] == (1,)):
            ps.append((1,))
        else:
            ps.append((0, gen_gcomp(rng)))
    if ps == [(1,)] and not lone_dstar_ok:
        ps = [(0, gen_gcomp(rng)), (1,)]
    return ps


def gen_aglob(rng):
    ps = []
    for _ in range(rng.randint(1, 3)):
        if rng.random() < 0.25 and not (ps and ps[-1] == (1,)):
            ps.append((1,))
            continue
        its = []
        for _ in range(rng.randint(1, 3)):
            if rng.random() < 0.4:
                bs = []
                for _ in range(rng.randint(1, 3)):
                    bs.append([] if rng.random() < 0.2 else gen_gpieces(rng, rng.random() < 0.04))
                its.append((1, bs))
            elif rng.random() < 0.08:
                its.append((2,))                      # a ',' outside braces
            else:
                it = gen_gitem(rng, bool(its) and its[-1] == (0, (3,)))
                its.append((0, it))
        ps.append((0, its))
    return ps


SYNTAX_CORPUS = [
    [(0, [(1, [[(0, [(0, 97)])], [(0, [(0, 98)])]])])],                                   # {a,b}
    [(0, [(1, [[]])])],                                                                   # {}
    [(0, [(1, [[], []])])],                                                               # {,}
    [(0, [(0, (3,)), (0, (0, 46)), (1, [[(0, [(0, 114), (0, 115)])], [(0, [(0, 99)])], []])])],   # *.{rs,c,}
    [(1,), (0, [(1, [[(1,), (0, [(0, 97)])], [(0, [(0, 98)]), (1,)], [(0, [(0, 99)]), (1,), (0, [(0, 100)])]])]), (1,)],
    # **/{**/a,b/**,c/**/d}/**
    [(0, [(0, (0, 120)), (1, [[(0, [(1, 44)])], [(0, [(1, 123), (3,)])]]), (0, (3,))])],  # x{\,,\{*}*
    [(0, [(0, (0, 97)), (2,), (1, [[(0, [(0, 98)])], [(0, [(1, 44)])]]), (2,), (0, (3,))])],  # a,{b,\,},*
    [(0, [(1, [[(1,)], [(0, [(0, 98)])]])])],                                             # {**,b}: lone `**` (not ok)
]


def enc_gitem(i):
    if i[0] in (0, 1):
        return vlist([str(i[0]), str(i[1])])
    if i[0] in (2, 3):
        return vlist([str(i[0])])
    return vlist(["4", vlist([vlist([str(lo), str(hi)]) for lo, hi in i[1]])])


def enc_gpiece(p):
    return vlist(["1"]) if p[0] == 1 else vlist(["0", vlist([enc_gitem(i) for i in p[1]])])


def enc_aitem(i):
    if i[0] == 0:
        return vlist(["0", enc_gitem(i[1])])
    if i[0] == 2:
        return vlist(["2"])
    return vlist(["1", vlist([vlist([enc_gpiece(p) for p in b]) for b in i[1]])])


def enc_aglob(g):
    return vlist([vlist(["1"]) if p[0] == 1 else vlist(["0", vlist([enc_aitem(i) for i in p[1]])]) for p in g])


def tree_stats(g):
    """(number of alternations, has an empty alternative, has `**` inside an alternative, has a lone `**` alternative)"""
    n = empty = dstar = lone = 0
    for p in g:
        if p[0] == 1:
            continue
        for i in p[1]:
            if i[0] == 1:
                n += 1
                for b in i[1]:
                    empty |= (len(b) == 0)
                    dstar |= any(q[0] == 1 for q in b)
                    lone |= (len(b) == 1 and b[0][0] == 1)
    return n, empty, dstar, lone


def check_syntax(ctx, cases):
    """kind 1204: the statement of parse_documented_syntax_alt on the real parser.  model side: well-formedness,
    text and stated tokens of the tree (Spec), and the model parser on the text; code side: kind 1201 on the text."""
    lines = [vlist([str(o), enc_aglob(g)]) for o, g in cases]
    mo = vlib.model(1204, lines)
    texts = []
    for (o, g), line, m in zip(cases, lines, mo):
        if bad(m):
            viol(ctx, "model failure on a documented-syntax tree: %s" % m[:30], dict(kind=1204, opts=o, tree=g, line=line))
            texts.append(None)
            continue
        texts.append(bytes(bitsval(parse_val(m)[2])))
    idx = [i for i, t in enumerate(texts) if t is not None]
    co = vlib.code(1201, [vlist([str(cases[i][0]), vbytes(texts[i])]) for i in idx])
    cov = ctx.cov
    for i, c in zip(idx, co):
        (o, g), line, text = cases[i], lines[i], texts[i]
        mv = parse_val(mo[i])
        ok, ok_doc, stated, mparse = mv[0] == 1, mv[1] == 1, mv[3], mv[4]
        nalt, empty, dstar, lone = tree_stats(g)
        cov["syntax_trees"] = cov.get("syntax_trees", 0) + 1
        rep = dict(kind=1204, opts=o, glob=text.decode("latin1"), tree=g, line=line, model=mo[i], code=c)
        if bad(c):
            viol(ctx, "globset panicked or harness failed on the text of a documented-syntax tree: %s" % c, rep)
            continue
        cv = parse_val(c)
        ctoks = cv[1] if cv[0] == 0 else None
        if not ok:
            # outside the theorem (generator slip or the deliberate lone `**` alternative): counted, not judged
            key = "syntax_trees_lone_dstar_alternative" if (ok_doc and lone) else "syntax_trees_ill_formed"
            cov[key] = cov.get(key, 0) + 1
            if ok_doc and lone and ctoks == stated:
                cov["lone_dstar_read_as_documented"] = cov.get("lone_dstar_read_as_documented", 0) + 1
            ctx.note_case(line, False)
            continue
        cov["syntax_trees_well_formed"] = cov.get("syntax_trees_well_formed", 0) + 1
        for k, f in (("with_alternates", nalt > 0), ("with_two_or_more_alternations", nalt > 1),
                     ("with_empty_alternative", empty), ("with_dstar_in_alternative", dstar),
                     ("with_comma_outside_braces", any(i[0] == 2 for q in g if q[0] == 0 for i in q[1]))):
            if f:
                cov["syntax_trees_" + k] = cov.get("syntax_trees_" + k, 0) + 1
        ctx.note_case(line, nalt > 0)
        if o & 4 == 0:
            continue          # backslash_escape off: outside the theorem's hypothesis (only generated with it on)
        if ctoks != stated:
            viol(ctx, "the parser does not yield the documented tokens on a glob of the documented syntax with "
                      "alternates (theorem parse_documented_syntax_alt no longer describes the code)",
                 dict(rep, stated=repr(stated), code_tokens=repr(ctoks)))
        if mparse[0] != 0 or mparse[1] != stated:
            viol(ctx, "model parser disagrees with the proved statement parse_documented_syntax_alt (stale build?)",
                 rep, nfi=True)


def alt_stats(g, bsesc):
    """(number of `{` outside classes/escapes, maximal nesting depth) of a glob text"""
    i, n, depth, maxd, groups = 0, len(g), 0, 0, 0
    while i < n:
        c = g[i]
        if c == 0x5c and bsesc:
            i += 2
            continue
        if c == 0x5b:
            j = i + 1
            if j < n and g[j] in b"!^":
                j += 1
            if j < n and g[j] == 0x5d:
                j += 1
            while j < n and g[j] != 0x5d:
                j += 1
            if j >= n:
                break
            i = j + 1
            continue
        if c == 0x7b:
            depth += 1
            groups += 1
            maxd = max(maxd, depth)
        elif c == 0x7d:
            depth = max(0, depth - 1)
        i += 1
    return groups, maxd


def gen_opts(rng):
    n = rng.randint(0, 15)
    if rng.random() < 0.5:
        n |= 4                              # backslash_escape is the unix default
    if rng.random() < 0.3:
        n = (n | 2) & ~1                    # literal_separator on, case sensitive: the gitignore configuration
    return n


def gen_long_path(rng):
    k = rng.random()
    if k < 0.5:
        comps = [bytes(rng.choice(b"abA.-") for _ in range(rng.randint(0, 4))) for _ in range(rng.randint(1, 5))]
        return b"/".join(comps)
    if k < 0.8:
        return bytes(rng.choice(ALPH + b"\xff\xc3\xa9\n*]\\,") for _ in range(rng.randint(6, 14)))
    return bytes(rng.randint(0, 255) for _ in range(rng.randint(1, 10)))


# paths with two and more components below a literal prefix (a trailing `*` must not cross them when separators
# are literal), always appended to the enumerated paths
DEEP_PATHS = [b"a/b/c", b"a/b/c/d", b"a/a/b/c", b"ab/a/b", b"ab/a/b/c", b"b/a/b/c", b"a/b/a/b", b"a.b/a/b.a", b"A/a/b/c.a",
              b"a/b/c/", b"-/a/b", b"a-/b/a/b"]

MULTI_CORPUS = [   # sets whose prefix / suffix tables hold literals of different lengths, longer first and shorter first
    [(4, b"**/a/b/ab"), (4, b"**/b/ab")], [(4, b"**/b/ab"), (4, b"**/a/b/ab")], [(6, b"**/a.b/a/b"), (6, b"**/a/b"), (6, b"**/b")],
    [(4, b"*abA"), (4, b"*bA")], [(4, b"*bA"), (4, b"*abA")], [(4, b"ab.-*"), (4, b"ab*")], [(4, b"ab*"), (4, b"ab.-*")],
    [(4, b"ab/a/**"), (4, b"ab/**")], [(6, b"a/b/**"), (6, b"a/**"), (6, b"a/b/a/**")],
]

REQEXT_CORPUS = [   # two and three required-extension globs of one bucket matching the same path, both orders
    [(6, b"a/*.b"), (6, b"a/b*.b")], [(6, b"a/b*.b"), (6, b"a/*.b")], [(4, b"?*.a"), (4, b"a?.a"), (4, b"[ab]*.a")],
    [(6, b"*.a"), (6, b"a*.a"), (6, b"*b.a")],
]

NA_CORPUS = [   # non-ASCII literals in the strategy shapes; alone (theirs is the longest literal) and with ASCII company
    [(4, "**/dir/caf\u00e9.txt".encode())], [(4, "\u00fcber/**".encode())], [(6, "**/dir/caf\u00e9.txt".encode()), (6, b"**/a/b")],
    [(4, b"ab/**"), (4, "\u00fcber/**".encode())], [(4, "*.\u4e2d".encode()), (4, "**/\u00e9".encode())],
    [(4, "*\u00fc".encode()), (4, b"*b")], [(4, "caf\u00e9*".encode())], [(4, "\u4e2d\u6587/\u00e9".encode())],
]

CORPUS = [  # (opts, glob): hand-written corner cases, run first
    (4, b"foo."), (4, b"*."), (4, b"**/a."), (4, b"[a]b."), (4, b"**/.."), (4, b"**/."), (4, b"*.a"), (6, b"*.a"),
    (4, b"**/*.a"), (6, b"**/*.a"), (4, b"a/**"), (4, b"**/a/b"), (4, b"a/**/b"), (4, b"**/**/a"), (4, b"a/**/**/b"),
    (4, b"a/**/**"), (4, b"**/**"), (4, b"a**"), (4, b"**a"), (4, b"a**b"), (4, b"a/**b"), (4, b"{a,b}"), (4, b"{,a}"),
    (12, b"{,a}"), (4, b"{,}"), (12, b"{,}"), (4, b"{}"), (4, b"a}"), (4, b"}"), (4, b"{a"), (4, b"{{a}}"), (4, b"{a,{b}}"),
    (4, b"{**/a,b}"), (4, b"{a/**,b}"), (4, b"{a\\,**/b}"), (4, b"{a\\,**}"), (4, b"a\\,**/b"), (4, b"{a,**/b}"), (4, b"{**,a}"),
    (4, b"[!a]"), (6, b"[!a]"), (5, b"[a-b]"), (5, b"[!a]"), (5, b"[A-b]"), (4, b"[]]"), (4, b"[!]]"), (4, b"[]-a]"), (4, b"[a-]"),
    (4, b"[--a]"), (4, b"[a--]"), (4, b"[b-a]"), (4, b"[a-b-A]"), (4, b"[a-b-]"), (4, b"["), (4, b"[]"), (4, b"[!"), (4, b"[a"),
    (4, b"\\"), (0, b"\\"), (0, b"a\\b"), (4, b"a\\b"), (4, b"\\*\\?"), (4, b"a\\/**"), (4, b"\\/**/a"), (5, b"A.B"), (5, b"*.A"),
    (4, b"?"), (6, b"?"), (6, b"*"), (6, b"a/*"), (6, b"*/a"), (4, b"*/a"), (4, b"/**/a"), (4, b"**/"), (4, b"/"), (4, b"a/"),
    (4, b"*/"), (4, b"**/*/"), (4, b"**//a"), (4, b"a//**"), (4, b"***"), (4, b"***/a"), (4, b"a/***"), (4, b"*.."), (4, b"*.a."),
    (6, b"ab/*"), (6, b"a/b/*"), (6, b"/a/*"), (6, b"**/a/*"), (6, b"a/*/*"), (6, b"a/?"), (6, b"a/*b"), (6, b"a*/*"), (6, b"a/**/*"),
    (6, b"a/b*"), (6, b"*/*"), (6, b"a/[ab]*"), (7, b"a/*"), (14, b"a/*"), (6, b"a.b/*"),
    (4, b"*.a/b"), (4, b"**/a*"), (6, b"**/a*"), (6, b"**/a?b"), (6, b"**/?"), (4, b"a,b"), (4, b"{a,b},c"), (4, b"-"), (4, b"**/-"),
]


# ----------------------------------------------------------------------------- helpers

def unpack(bits, n):
    out = []
    for i in range(n):
        byte = bits[i >> 3] if (i >> 3) < len(bits) else 0
        out.append((byte >> (i & 7)) & 1)
    return out


def all_paths(L):
    res = [b""]
    level = [b""]
    for _ in range(L):
        nxt = [bytes([c]) + p for c in ALPH for p in level]
        res += nxt
        level = nxt
    return res


def bitsval(v):
    return v if isinstance(v, bytes) else b""


def first_diff(a, b, n, paths=None):
    """first differing path; a well-formed relative path (no empty component) is preferred as the witness"""
    if a == b:
        return None
    ua, ub = unpack(a, n), unpack(b, n)
    first = None
    for i in range(n):
        if ua[i] != ub[i]:
            if paths is None or clean(paths[i]):
                return i, ua[i], ub[i]
            if first is None:
                first = (i, ua[i], ub[i])
    return first


_seen = {}
_pending = []     # correspondence-only reports (no failing input): emitted only when no concrete violation was found


def viol(ctx, what, rep, nfi=False):
    """at most 3 replays per kind of disagreement (a real defect shows on thousands of paths); the message names
    the witness (options, glob, path).  Reports without a failing input are held back until the end of the run and
    dropped when the same run produced a concrete violation (the concrete one is the better report)."""
    _seen[what] = _seen.get(what, 0) + 1
    if _seen[what] > 3:
        return
    def u8(x):
        """replay files keep bytes as latin-1 text; show valid UTF-8 as such in the message"""
        if isinstance(x, str):
            try:
                return x.encode("latin1").decode("utf-8")
            except (UnicodeDecodeError, UnicodeEncodeError):
                return x
        if isinstance(x, (list, tuple)):
            return type(x)(u8(y) for y in x)
        return x
    wit = ""
    if "glob" in rep:
        wit = " [opts=%s glob=%r%s]" % (rep.get("opts"), u8(rep.get("glob")),
                                        (" path=%r" % u8(rep["path"])) if "path" in rep else "")
    elif "globs" in rep:
        wit = " [globs=%r%s]" % (u8(rep["globs"]), (" path=%r" % u8(rep["path"])) if "path" in rep else "")
    if nfi:
        _pending.append((what + wit, rep))
    else:
        ctx.violation(what + wit, rep, nfi=False)


def flush_pending(ctx):
    if not [v for v in ctx.violations if not v[1]]:
        for what, rep in _pending:
            ctx.violation(what, rep, nfi=True)
    del _pending[:]


def clean(p):
    return p != b"" and b"//" not in p and not p.startswith(b"/") and not p.endswith(b"/")


def bad(o):
    return o in ("PANIC", "MISSING", "STACKOVERFLOW") or o.startswith("PARSEFAIL")


# ----------------------------------------------------------------------------- checks

def check_parse(ctx, cases):
    """kind 1201: tokens, strategy, error kind — model vs code"""
    lines = [vlist([str(o), vbytes(g)]) for o, g in cases]
    mo = vlib.model(1201, lines)
    co = vlib.code(1201, lines)
    stats = ctx.cov.setdefault("strategy_counts", {})
    for (o, g), line, m, c in zip(cases, lines, mo, co):
        v = parse_val(c) if not bad(c) else None
        key = "harness-failure"
        if v is not None:
            key = "error-%d" % v[1] if v[0] == 1 else "strategy-%d" % v[2][0]
        stats[key] = stats.get(key, 0) + 1
        ctx.note_case(line, v is not None and v[0] == 0 and len(g) > 1)
        if bad(c):
            viol(ctx, "globset panicked or harness failed while parsing a glob: %s" % c,
                          dict(kind=1201, opts=o, glob=g.decode("latin1"), line=line, code=c, model=m))
        elif m != c:
            viol(ctx, "glob parser/strategy: model and code disagree (tokens, strategy or error kind; theorems "
                          "parse_never_panics / strategy_eq_regex no longer describe the code)",
                          dict(kind=1201, opts=o, glob=g.decode("latin1"), line=line, model=m, code=c), nfi=True)


def check_glob(ctx, cases, L, extras):
    """kind 1202: one glob, all paths up to length L + extras.
       model: tmatch bits, strategy bits; code: matcher bits, one-glob-set is_match bits, set.matches bits, oracle"""
    paths = all_paths(L) + extras
    n = len(paths)
    ex = vlist([vbytes(p) for p in extras])
    lines = [vlist([str(o), vbytes(g), str(L), ex]) for o, g in cases]
    mo = vlib.model(1202, lines)
    co = vlib.code(1202, lines)
    for (o, g), line, m, c in zip(cases, lines, mo, co):
        rep = dict(kind=1202, opts=o, glob=g.decode("latin1"), L=L, extras=[p.hex() for p in extras], line=line)
        if bad(c) or bad(m):
            viol(ctx, "harness/model failure on a glob case: code=%s model=%s" % (c[:20], m[:20]), rep)
            continue
        mv, cv = parse_val(m), parse_val(c)
        if mv[0] != cv[0]:
            viol(ctx, "glob accepted by one of model/code and rejected by the other", dict(rep, model=m[:40], code=c[:40]),
                          nfi=True)
            continue
        if cv[0] == 1:
            ctx.note_case(line, False)
            ctx.cov["rejected_globs"] = ctx.cov.get("rejected_globs", 0) + 1
            if alt_stats(g, o & 4)[1] >= 2:
                ctx.cov["glob_cases_nested_alternates_rejected"] = ctx.cov.get("glob_cases_nested_alternates_rejected", 0) + 1
            continue
        m_re, m_st = bitsval(mv[1]), bitsval(mv[2])
        c_re, c_set, c_setm = bitsval(cv[1]), bitsval(cv[2]), bitsval(cv[3])
        oracle = bitsval(cv[4][0]) if cv[4] else None
        nm = sum(unpack(c_re, n))
        ctx.note_case(line, 0 < nm < n)
        ctx.cov["path_evaluations"] = ctx.cov.get("path_evaluations", 0) + n
        if alt_stats(g, o & 4)[0]:
            ctx.cov["accepted_globs_with_alternates"] = ctx.cov.get("accepted_globs_with_alternates", 0) + 1
        if 0 < nm < n:
            ctx.sample(dict(opts=o, glob=g.decode("latin1"), matching_paths=nm, of=n,
                            example=next(paths[i].decode("latin1") for i, b in enumerate(unpack(c_re, n)) if b)))

        def where(d):
            i, x, y = d
            return dict(rep, path=paths[i].decode("latin1"), path_hex=paths[i].hex(), first=x, second=y)
        # the property on the code itself: set (strategies) = matcher (regex), for every path
        d = first_diff(c_set, c_re, n, paths) or first_diff(c_setm, c_re, n, paths)
        if d:
            viol(ctx, "GlobSet of one glob answers differently from the glob's own matcher (strategy != regex)",
                          where(d))
        # link 2: model vs code
        d = first_diff(m_re, c_re, n, paths)
        if d:
            od = oracle is not None and first_diff(oracle, c_re, n) is None
            viol(ctx, "tmatch (meaning of the emitted regex) differs from GlobMatcher::is_match "
                          "(theorem strategy_eq_regex no longer describes the code)", where(d), nfi=od)
        d = first_diff(m_st, c_set, n, paths)
        if d:
            viol(ctx, "model strategy answer differs from GlobSet::is_match of the one-glob set", where(d),
                          nfi=first_diff(c_set, c_re, n) is None)
        # the documented syntax: independent oracle vs code
        if oracle is not None:
            ctx.cov["oracle_globs"] = ctx.cov.get("oracle_globs", 0) + 1
            groups, depth = alt_stats(g, o & 4)
            if groups:
                ctx.cov["oracle_globs_with_alternates"] = ctx.cov.get("oracle_globs_with_alternates", 0) + 1
            if groups >= 2:
                ctx.cov["oracle_globs_with_two_or_more_alternations"] = ctx.cov.get("oracle_globs_with_two_or_more_alternations", 0) + 1
            if depth >= 2:   # cannot happen: nesting is an error of the parser (NestedAlternates), kept as a tripwire
                ctx.cov["oracle_globs_with_nested_alternates"] = ctx.cov.get("oracle_globs_with_nested_alternates", 0) + 1
            d = first_diff(oracle, c_re, n, paths)
            if d:
                viol(ctx, "glob does not mean what the documented syntax says (independent matcher disagrees "
                              "with GlobMatcher::is_match)", where(d))


def check_set(ctx, cases, L, extras):
    """kind 1203: glob sets. model set_matches / is_match vs GlobSet::matches / is_match vs per-glob matchers"""
    paths = all_paths(L) + extras
    n = len(paths)
    ex = vlist([vbytes(p) for p in extras])
    lines = [vlist([vlist([vlist([str(o), vbytes(g)]) for o, g in gs]), str(L), ex]) for gs in cases]
    mo = vlib.model(1203, lines)
    co = vlib.code(1203, lines)
    for gs, line, m, c in zip(cases, lines, mo, co):
        rep = dict(kind=1203, globs=[(o, g.decode("latin1")) for o, g in gs], L=L, extras=[p.hex() for p in extras],
                   line=line)
        if bad(c) or bad(m):
            viol(ctx, "harness/model failure on a glob set case: code=%s model=%s" % (c[:20], m[:20]), rep)
            continue
        mv, cv = parse_val(m), parse_val(c)
        if mv[0] != cv[0] or cv[0] == 1:
            if mv[0] != cv[0]:
                viol(ctx, "glob set accepted by one of model/code only", rep, nfi=True)
            continue
        c_m, c_is, c_f = cv[1], bitsval(cv[2]), cv[3]
        m_m, m_is = mv[1], bitsval(mv[2])
        multi = sum(1 for i in range(n) if len(c_f[i]) > 1)
        order = [i for i in range(n) if clean(paths[i])] + [i for i in range(n) if not clean(paths[i])]

        def w_at(i):
            return dict(rep, path=paths[i].decode("latin1"), path_hex=paths[i].hex(), set_matches=list(c_m[i]),
                        member_matches=list(c_f[i]), model=list(m_m[i]))
        # the property's own statement on the code: set = members (well-formed paths first as witnesses)
        i = next((i for i in order if list(c_m[i]) != list(c_f[i])), None)
        if i is not None:
            viol(ctx, "GlobSet::matches is not the ascending list of the individually matching globs", w_at(i))
        else:
            i = next((i for i in order if list(m_m[i]) != list(c_m[i])), None)
            if i is not None:
                viol(ctx, "model set_matches differs from GlobSet::matches (theorem set_eq_members no longer "
                          "describes the code)", w_at(i), nfi=True)
        ci = unpack(c_is, n)
        i = next((i for i in order if ci[i] != (1 if len(c_f[i]) else 0)), None)
        if i is not None:
            viol(ctx, "GlobSet::is_match differs from 'some member glob matches'", w_at(i))
        if first_diff(m_is, c_is, n):
            viol(ctx, "model set_is_match differs from GlobSet::is_match", rep, nfi=True)
        ctx.note_case(line, multi > 0)
        ctx.cov["set_path_evaluations"] = ctx.cov.get("set_path_evaluations", 0) + n
        ctx.cov["sets_with_multi_match_paths"] = ctx.cov.get("sets_with_multi_match_paths", 0) + (1 if multi else 0)


def d3_replay(ctx):
    """defect D3 (repaired by a fix: commit): on the repaired tree the real rg lists `foo.` for -g 'foo.'"""
    import os
    import subprocess
    import tempfile
    with tempfile.TemporaryDirectory(dir=vlib.CACHE) as d:
        for name in ("foo.", "bar", "x.a"):
            open(os.path.join(d, name), "w").write("x\n")
        for glob, want in (("foo.", ["foo."]), ("*.", ["foo."]), ("[f]oo.", ["foo."]), ("*.a", ["x.a"])):
            p = subprocess.run([vlib.RG, "--no-config", "--files", "-g", glob], cwd=d, stdin=subprocess.DEVNULL,
                               stdout=subprocess.PIPE, stderr=subprocess.PIPE)
            got = sorted(p.stdout.decode().split())
            ctx.cov["cli_runs"] = ctx.cov.get("cli_runs", 0) + 1
            if got != want:
                viol(ctx, "rg --files -g %r lists %r, expected %r (defect D3: file names ending in '.')"
                              % (glob, got, want), dict(kind="cli-d3", glob=glob, got=got, want=want))


def run(ctx):
    rng = ctx.rng
    ctx.cov["rule"] = ("parse cases: every string over the 13-character source alphabet up to length 3 (4 in thorough) "
                       "x option sets + generated globs; glob cases: corpus + generated globs (strategy-directed shapes, "
                       "token-grammar pieces, malformed stream) x random option set x ALL paths over {a,b,.,/,-,A} of "
                       "length <= 5 (9331) + random long/non-UTF-8 paths; set cases: 2-6 globs x all paths of length "
                       "<= 4. non-trivial = accepted glob that matches some but not all paths (glob), a set with a path "
                       "matched by >= 2 members (set); distinct by case text.")
    d3_replay(ctx)
    # --- 1201: exhaustive short globs, all 16 option sets sampled
    short = [bytes(t) for k in range(0, (4 if ctx.quick() else 5)) for t in itertools.product(SRC, repeat=k)]
    cases = [(rng.choice([4, 6, 0, 12, 5, 7, 14, 15]), g) for g in short]
    cases += [(o, g) for o, g in CORPUS]
    cases += [(gen_opts(rng), gen_glob(rng)) for _ in range(ctx.count(3000))]
    check_parse(ctx, cases)
    # --- 1202: corpus on every option set, then generated
    extras = DEEP_PATHS + [gen_long_path(rng) for _ in range(40)]
    corpus = [(o2, g) for o, g in CORPUS for o2 in sorted({o, o ^ 2, o | 1, o ^ 8})]
    check_glob(ctx, corpus, 4, extras)
    gen = [(gen_opts(rng), gen_glob(rng)) for _ in range(ctx.count(900))]
    check_glob(ctx, gen, 5, extras)
    # --- 1204: trees of the documented syntax with alternates (the statement of parse_documented_syntax_alt)
    trees = [(o, g) for g in SYNTAX_CORPUS for o in (4, 6, 12, 15)]
    trees += [(rng.choice([4, 6, 6, 12, 14, 5, 15]), gen_aglob(rng)) for _ in range(ctx.count(600))]
    for k in ("oracle_globs_with_alternates", "oracle_globs_with_two_or_more_alternations",
              "oracle_globs_with_nested_alternates", "glob_cases_nested_alternates_rejected"):
        ctx.cov.setdefault(k, 0)
    check_syntax(ctx, trees)
    # --- 1203: sets
    sets = []
    for _ in range(ctx.count(250)):
        k = rng.randint(2, 6)
        gs = []
        while len(gs) < k:
            g = rng.choice(SHAPES)(rng) if rng.random() < 0.7 else gen_glob(rng)
            o = gen_opts(rng) if rng.random() < 0.4 else rng.choice([4, 6, 6])
            gs.append((o, g))
            if rng.random() < 0.25:
                gs.append(rng.choice(gs))          # duplicates: the same literal registered twice
        sets.append(gs)
    check_set(ctx, sets, 4, extras)
    # --- 1203: directed sets for the shared prefix / suffix tables (different literal lengths, both orders)
    msets, mpaths = [], []
    for _ in range(ctx.count(120)):
        gs, ps = gen_multi_literal_set(rng)
        msets.append(gs)
        mpaths += ps
    mpaths = sorted(set(mpaths))
    ctx.cov["multi_literal_sets"] = len(msets)
    ctx.cov["multi_literal_paths"] = len(mpaths)
    check_set(ctx, MULTI_CORPUS + msets, 3, DEEP_PATHS + mpaths)
    # --- required-extension buckets: several globs with the same trailing extension matching the same path
    rsets, rpaths = [], []
    for _ in range(ctx.count(60)):
        gs, ps = gen_reqext_set(rng)
        rsets.append(gs)
        rpaths += ps
    ctx.cov["required_ext_sets"] = len(rsets)
    check_set(ctx, REQEXT_CORPUS + rsets, 2, sorted(set(rpaths)))
    # --- non-ASCII stream: multi-byte UTF-8 literals (set = members on the code; model byte-wise)
    nsets, npaths = [], []
    for _ in range(ctx.count(60)):
        gs, ps = gen_nonascii_set(rng)
        nsets.append(gs)
        npaths += ps
    npaths = sorted(set(npaths))
    ctx.cov["nonascii_sets"] = len(nsets)
    ctx.cov["nonascii_paths"] = len(npaths)
    check_set(ctx, NA_CORPUS + nsets, 2, npaths + [b"dir/caf\xc3\xa9.txt", b"x/dir/caf\xc3\xa9.txt", b"\xc3\xbcber/a/b"])
    check_glob(ctx, [g for gs in NA_CORPUS + nsets[:ctx.count(20)] for g in gs], 2, npaths)
    flush_pending(ctx)
    ctx.assumptions += [
        "regex-automata implements the meaning tmatch gives to the regex text globset emits (compared on every "
        "generated glob and every enumerated path)",
        "aho-corasick's find_overlapping_iter reports every occurrence; fnv HashMap behaves as a map",
        "glob text is ASCII; paths are arbitrary bytes; unix path separator only",
    ]


def replay(ctx, data):
    r = data["replay"]
    k = r.get("kind")
    if k == 1201:
        check_parse(ctx, [(r["opts"], r["glob"].encode("latin1"))])
    elif k == 1202:
        check_glob(ctx, [(r["opts"], r["glob"].encode("latin1"))], r["L"], [bytes.fromhex(x) for x in r["extras"]])
    elif k == 1204:
        check_syntax(ctx, [(r["opts"], r["tree"])])
    elif k == 1203:
        check_set(ctx, [[(o, g.encode("latin1")) for o, g in r["globs"]]], r["L"], [bytes.fromhex(x) for x in r["extras"]])
    elif k == "cli-d3":
        d3_replay(ctx)
    flush_pending(ctx)
