"""C01 — a line is reported iff the pattern matches that line."""
import os
import subprocess
import tempfile

import vlib
from vlib import vbytes, vlist, vbool, parse_val
from props import C11 as R

NEED_RG = True
MANIFEST = dict(
    text="Coq, unbounded: c01_lines_reported_iff_content_matches — for every final HIR with local look-around (LF line "
         "anchors, ASCII word assertions) that build_many accepts with the \\n terminator advertised, every input and every "
         "searcher configuration without binary detection, the run of SliceByLine::run (fast or slow path, whichever "
         "is_line_by_line_fast selects) equals the grep reference whose line test is 'the final HIR has a match in the "
         "line's content', i.e. a line is delivered as a match iff its content matches xor invert (composition of "
         "Props/C03.v slice_eq_ref_from_candidate_contract with regex_matcher_meets_candidate_contract: the RegexMatcher "
         "model — is_match by the HIR semantics, find_candidate_line = leftmost fast-line literal (Candidate) or the "
         "engine's span (Confirmed) — obeys the candidate contract, proved from line_locality_partial, C11's "
         "build_line_terminator_promise and candidate_never_skips). The same statement is proved for the CRLF terminator "
         "(c01_lines_reported_iff_content_matches_crlf, local look-around = CRLF line anchors + ASCII word assertions, "
         "after the D1/D9 repairs; line_locality_crlf), for the incremental reader with any buffer capacity and read "
         "fragmentation (c01_reader_lines_reported_iff_content_matches(_crlf), via Props/C02.v), and for --null-data "
         "with no hypothesis on the pattern at all (c01_null_data_slice/_reader: a matcher advertising NUL always takes "
         "the slow path). The only non-structural hypothesis is span_ok (the regex engine "
         "reports a leftmost match; regex-automata's search is not modelled; satisfiable: span_ok_satisfiable); that the "
         "fast-line literals are non-empty and free of the terminator is proved (literals_free_of_terminator: strip leaves "
         "no leaf producing it, the extractor only rearranges leaf bytes). Also line_locality_partial, "
         "path_selection_safe, strip_invisible_on_content, without_terminator_fixed_crlf; refuted with witnesses: D9, D1 "
         "(repaired), D17 (known). NOT covered by the theorem (tested only): Unicode word boundaries incl. -w in Unicode "
         "mode (false in general: D17), LF anchors under --crlf, read errors / binary detection. Tie to the code: "
         "end-to-end oracle — patterns (grammar, counted repetitions, case pairs), flags -i -S -s -w -x -F --crlf "
         "--null-data -v, several -e/-f, inputs with invalid UTF-8, bare CR, empty lines, missing final terminator — "
         "through real rg, the library searcher (slice, fragmented reader, passthru) and a reference built with "
         "regex-syntax directly and evaluated per stripped line by the extracted Coq semantics; the literal-search model "
         "(find_lit) is compared with find_candidate_line in C11. Smart case (-S): Model/SmartCase.v mirrors AstAnalysis "
         "(ast.rs) and Config::is_case_insensitive over literals, classes, ranges, nested/negated classes, unions, set "
         "operations; smart_case_decision_meets_doc proves it equal to the documented rule (insensitive iff -i, or -S and the "
         "pattern has a literal and no uppercase literal, where both ends of a class range are literals) for every "
         "is_uppercase predicate; kind 102 compares the case mode the real RegexMatcherBuilder chose (read off the HIR it "
         "translates) with the model and with an independent walk of the regex-syntax AST; the end-to-end generator draws "
         "class ranges with ends of mixed kinds (digit/punctuation/upper/lower/non-ASCII, hex escapes, negated, nested, set "
         "operations) with lines differing only by case.",
    note="partial: the full-strength theorems need local_looks / local_looks_crlf (exclude Unicode \\b/\\B/-w) and the LF or "
         "CRLF terminator; span_ok is a hypothesis; regex-syntax translation and regex-automata trusted (differentially tested)",
    technique="Coq proof over executable semantics + end-to-end differential oracle (rg, library, reference HIR)",
    design="§7 C01, A.3, §8 D1 D9")
KNOWN_D17 = "UnicodeLookBehindAcrossLineStart"

FLAG_NAMES = ["icase", "smart", "word", "line", "fixed", "crlf", "null", "invert"]


def gen_flags(rng):
    f = dict.fromkeys(FLAG_NAMES, False)
    c = rng.random()
    if c < 0.15:
        f["icase"] = True
    elif c < 0.3:
        f["smart"] = True
    if rng.random() < 0.2:
        f["word"] = True
    if rng.random() < 0.12:
        f["line"] = True
    if rng.random() < 0.12:
        f["fixed"] = True
    m = rng.random()
    if m < 0.3:
        f["crlf"] = True
    elif m < 0.4:
        f["null"] = True
    if rng.random() < 0.2:
        f["invert"] = True
    return f


def gen_pats(rng, f):
    n = 1 if rng.random() < 0.8 else rng.randint(2, 3)
    pats = []
    for _ in range(n):
        if f["fixed"]:
            pats.append("".join(rng.choice(["a", "b", ".", "*", "(", "foo", "[", " ", "é", "A", "\\", "$", "^", "+"])
                                for _ in range(rng.randint(1, 3))))
        else:
            for _ in range(20):
                p = R.gen_pattern(rng, 2)
                if "\\A" not in p and "\\z" not in p:
                    break
            else:
                p = "a"
            if rng.random() < 0.15:
                p = p.replace("a", "A", 1)
            pats.append(p)
    return pats


def term(f):
    return b"\r\n" if f["crlf"] else (b"\x00" if f["null"] else b"\n")


def gen_input(rng, pats, f):
    al = sorted(R.pattern_alphabet(pats) | {97, 98, 32, 45, 65})
    extra = [b"\r", b"\xc3\xa9", b"\xff", b"\xa9", b"\xa9\xa9", b"\xe6\x97\xa5", b"_", b"\t", b"foo", b"ab", b"\xce\xb2"]
    if f["null"]:
        extra += [b"\n", b"\n"]
    if f["crlf"]:
        extra += [b"\r", b"\r"]
    lines = []
    for _ in range(rng.randint(1, 6)):
        ln = b""
        for _ in range(rng.choice([0, 0, 1, 2, 3, 4, 5, 7])):
            ln += rng.choice(extra) if rng.random() < 0.25 else bytes([rng.choice(al)])
        lines.append(ln)
    out = b""
    for i, ln in enumerate(lines):
        out += ln
        if i + 1 < len(lines) or rng.random() < 0.75:
            if f["crlf"]:
                out += b"\r\n" if rng.random() < 0.7 else b"\n"
            else:
                out += term(f)
    return out


def split_lines(data, f):
    """(content, raw) per line: byte terminators end a line after the byte; CRLF: a line ends after every \\n and the
    content drops that \\n and a \\r right before it"""
    tb = 0 if f["null"] and not f["crlf"] else 10
    res, start = [], 0
    for i, b in enumerate(data):
        if b == tb:
            res.append(data[start:i + 1])
            start = i + 1
    if start < len(data):
        res.append(data[start:])
    out = []
    for raw in res:
        c = raw
        if c.endswith(bytes([tb])):
            c = c[:-1]
            if f["crlf"] and c.endswith(b"\r"):
                c = c[:-1]
        out.append((c, raw))
    return out


def flags_val(f):
    return vlist([vbool(f[k]) for k in FLAG_NAMES])


def cli_lines(pats, f, data, via_file=False):
    with tempfile.TemporaryDirectory(dir=vlib.CACHE) as d:
        p = os.path.join(d, "in")
        open(p, "wb").write(data)
        cmd = [vlib.RG, "--no-config", "--color", "never", "-n", "--no-heading", "--no-filename", "-a", "--no-mmap"]
        for k, fl in (("icase", "-i"), ("smart", "-S"), ("word", "-w"), ("line", "-x"), ("fixed", "-F"), ("crlf", "--crlf"),
                      ("null", "--null-data"), ("invert", "-v")):
            if f[k]:
                cmd.append(fl)
        if not f["icase"] and not f["smart"]:
            cmd.append("-s")
        if via_file:
            pf = os.path.join(d, "pats")
            open(pf, "w", encoding="utf-8").write("".join(pt + "\n" for pt in pats))
            cmd += ["-f", pf]
        else:
            for pt in pats:
                cmd += ["-e", pt]
        cmd.append(p)
        r = subprocess.run(cmd, stdin=subprocess.DEVNULL, stdout=subprocess.PIPE, stderr=subprocess.PIPE)
        if r.returncode == 2:
            return None
        tb = b"\x00" if f["null"] and not f["crlf"] else b"\n"
        res = []
        for rec in r.stdout.split(tb):
            i = 0
            while i < len(rec) and 48 <= rec[i] <= 57:
                i += 1
            if i > 0 and i < len(rec) and rec[i] == 58:
                res.append(int(rec[:i]))
        return res


def has_look(hv, kinds):
    v = R.L(hv)
    if not v:
        return False
    t = v[0]
    if t == 4:
        return v[1] in kinds
    if t == 5:
        return has_look(v[4], kinds)
    if t == 6:
        return has_look(v[1], kinds)
    if t in (7, 8):
        return any(has_look(x, kinds) for x in R.L(v[1]))
    return False


def check_cases(ctx, cases, stats, cli_every=0):
    lines = [vlist([vlist([vbytes(p) for p in c["pats"]]), flags_val(c["flags"]), vbytes(c["input"])]) for c in cases]
    co = vlib.code(101, lines)
    m_in, idx, parsed = [], [], {}
    for i, o in enumerate(co):
        c = cases[i]
        if o in ("PANIC", "MISSING") or o.startswith("PARSEFAIL"):
            ctx.violation("harness %s on C01 case" % o, dict(kind=101, case=repr(c), line=lines[i]))
            continue
        v = R.L(parse_val(o))
        if v[0] != 0:
            stats["rejected"] = stats.get("rejected", 0) + 1
            continue
        ref = R.L(v[1])
        if not ref:
            stats["no_reference"] = stats.get("no_reference", 0) + 1
            continue
        parsed[i] = v
        sl = split_lines(c["input"], c["flags"])
        m_in.append(vlist([R.unparse(ref[0]), vlist([vbytes(cn) for cn, _ in sl])]))
        idx.append((i, sl))
    mo = vlib.model(1103, m_in)
    want_cli = [i for i, _ in idx if cases[i].get("cli") or (cli_every and i % cli_every == 0)]
    from concurrent.futures import ThreadPoolExecutor
    with ThreadPoolExecutor(8) as ex:
        cli_res = dict(zip(want_cli, ex.map(
            lambda i: cli_lines(cases[i]["pats"], cases[i]["flags"], cases[i]["input"], cases[i].get("via_file", False)),
            want_cli)))
    for k, (i, sl) in enumerate(idx):
        c, f, v = cases[i], cases[i]["flags"], parsed[i]
        rep = dict(kind=101, pats=c["pats"], flags={x: y for x, y in f.items() if y}, input=c["input"].hex(), line=lines[i],
                   via_file=c.get("via_file", False))
        if mo[k].startswith(("MISSING", "STACK", "PARSEFAIL")):
            ctx.violation("reference evaluation failed: %s" % mo[k][:40], rep, nfi=True)
            continue
        smv = R.L(parse_val(mo[k]))
        tset = {13, 10} if f["crlf"] else ({0} if f["null"] else {10})
        expected = []
        anym = False
        for li, (content, raw) in enumerate(sl):
            sem = R.sem_matches(smv[li])
            hit = any(not any(x in tset for x in content[a:b]) for a, b in sem)
            anym = anym or hit
            if hit != f["invert"]:
                expected.append(li + 1)
        got = dict(slice=list(R.L(v[2])), reader=list(R.L(v[3])), passthru=list(R.L(v[4])))
        key = "crlf" if f["crlf"] else ("null" if f["null"] else "lf")
        stats["cases_" + key] = stats.get("cases_" + key, 0) + 1
        if f["crlf"] and any(b"\r" in cn for cn, _ in sl):
            stats["crlf_bare_cr_cases"] = stats.get("crlf_bare_cr_cases", 0) + 1
        for fl in FLAG_NAMES:
            if f[fl]:
                stats["flag_" + fl] = stats.get("flag_" + fl, 0) + 1
        if len(c["pats"]) > 1:
            stats["multi_e"] = stats.get("multi_e", 0) + 1
        ctx.note_case(lines[i], anym and len(sl) > 1)
        if anym and len(sl) > 1:
            ctx.sample(dict(pats=c["pats"], flags=rep["flags"], input=repr(c["input"]), reported=expected))
        if i in cli_res:
            cl = cli_res[i]
            stats["cli_runs"] = stats.get("cli_runs", 0) + 1
            if c.get("via_file"):
                stats["cli_pattern_file"] = stats.get("cli_pattern_file", 0) + 1
            if cl is not None:
                got["rg -f" if c.get("via_file") else "rg"] = cl
        for name, lst in got.items():
            if lst == expected:
                continue
            diff = sorted(set(lst) ^ set(expected))
            # the known class D17: fast path (slice, reader, rg — everything but the passthru run), a Unicode \B /
            # start-half assertion (incl. the -w wrapper) in the final HIR, and every differing line starts with UTF-8
            # continuation bytes (decode_last can cross the line start only over a prefix of <= 3 continuation bytes)
            if name != "passthru" and has_look(v[5], (9, 16)) and all(
                    0x80 <= (sl[d - 1][0][:1] or b"\x00")[0] <= 0xbf for d in diff if d - 1 < len(sl)):
                ctx.known(KNOWN_D17, "pats=%r flags=%r input=%r: %s reports %s, per-line semantics %s"
                          % (c["pats"], rep["flags"], c["input"], name, lst, expected))
                continue
            ctx.violation("%s reports lines %s but the pattern matches exactly lines %s of the input (differs at %s)"
                          % (name, lst, expected, diff), dict(rep, observed=got, expected=expected))
            break


CASE_PAIRS = [("\\d", "\\D"), ("\\w", "\\W"), ("\\s", "\\S"), ("\\pL", "\\PL"), ("a", "A"), ("[a-z]", "[A-Z]"),
              ("\\bx", "\\Bx"), ("foo", "FOO"), ("\\p{Greek}", "\\P{Greek}"), ("é", "É")]


def gen_multi_case(rng):
    """2-3 patterns given together (-e or -f), often differing only in case, under -i / -S / -s: the reported lines
    must be the union of what each pattern matches under the flags"""
    a, b = rng.choice(CASE_PAIRS)
    pats = [a, b] if rng.random() < 0.5 else [b, a]
    if rng.random() < 0.4:
        pats.insert(rng.randint(0, 2), rng.choice(["q", "Z", "\\d", "\\S", "[0-9]x", a, b.lower(), a.upper()]))
    f = dict.fromkeys(FLAG_NAMES, False)
    c = rng.random()
    if c < 0.45:
        f["icase"] = True
    elif c < 0.7:
        f["smart"] = True
    if rng.random() < 0.15:
        f["invert"] = True
    if rng.random() < 0.1:
        f["word"] = True
    if rng.random() < 0.1:
        f["crlf"] = True
    pool = [b"a", b"A", b"1", b" ", b"-", b"x", b"X", b"foo", b"FOO", b"\xc3\xa9", b"\xc3\x89", b"\xce\xb2", b"\xff", b"_", b"\t", b"Z", b"q", b"9x"]
    lines = [b"".join(rng.choice(pool) for _ in range(rng.choice([0, 1, 1, 1, 2, 3]))) for _ in range(rng.randint(3, 8))]
    lines += [b"", b"7", b" ", b"a"][:rng.randint(0, 4)]
    data = term(f).join(lines) + (term(f) if rng.random() < 0.8 else b"")
    return dict(pats=pats, flags=f, input=data, cli=True, via_file=rng.random() < 0.4)


SMART_RANGE = ["foo[A-z]", "x[B-b]", "[A-z]bar", "[Q-q]+x", "[a-zA]b", "a[^A-z]", "[[A-z]&&[^_]]k", "\\x41b", "a\\x{5a}",
               "ab[a-z]", "\\pLx", "\\Wb", "[[:upper:]]a", "(?i:A)b", "a|[K-k]", "é[À-ü]"]


def gen_smart_case(rng):
    """-S with the only uppercase letters inside class ranges / hex escapes (or none at all: escapes such as \\W \\pL and
    POSIX classes do not count); inputs differ only in case"""
    pat = rng.choice(SMART_RANGE)
    pats = [pat] if rng.random() < 0.8 else [pat, rng.choice(["q", "Zz", "[B-b]"])]
    f = dict.fromkeys(FLAG_NAMES, False)
    f["smart"] = True
    if rng.random() < 0.15:
        f["invert"] = True
    if rng.random() < 0.1:
        f["word"] = True
    base = [b"fooa", b"FOOA", b"fooZ", b"FOO_", b"xb", b"XB", b"Xb", b"abar", b"ABAR", b"Zbar", b"qx", b"QX", b"ab", b"AB", b"aB",
            b"Ab", b"a1", b"A!", b"_k", b"zK", b"az", b"AZ", b"abq", b"ABQ", b"\xc3\xa9\xc3\xa0", b"\xc3\x89\xc3\x80", b"ak", b"aK", b"x-b",
            b"X b", b"Ba", b"ba"]
    lines = rng.sample(base, rng.randint(4, 9))
    data = term(f).join(lines) + term(f)
    return dict(pats=pats, flags=f, input=data, cli=rng.random() < 0.4)


# ---- smart case: class ranges with ends of mixed kinds ------------------------------------------------------------
# The documented rule counts EVERY literal of the pattern, so an uppercase letter that is only the end (or only the
# start) of a class range, possibly in a nested / negated class, a set operation, or spelled as a hex escape, makes -S
# case sensitive.  Kinds of range ends, in code point order:
MIX_KINDS = dict(
    digit="0123456789", plow="!#%+,:;<=@", upper="ABCDKQZ", pmid="_`", lower="abcdkqz", phigh="{}",
    uhi="ÀÜΑΩА", lhi="àüαωа")
MIX_PAIRS = [("digit", "upper"), ("plow", "upper"), ("digit", "upper"), ("plow", "upper"), ("upper", "lower"), ("upper", "pmid"),
             ("digit", "lower"), ("plow", "pmid"), ("digit", "digit"), ("lower", "lower"), ("upper", "upper"), ("pmid", "lower"),
             ("lower", "phigh"), ("digit", "uhi"), ("plow", "uhi"), ("upper", "uhi"), ("lower", "lhi"), ("lower", "uhi"),
             ("pmid", "lhi"), ("uhi", "lhi"), ("uhi", "uhi"), ("lower", "upper")]   # the last one is an invalid range


def spell(rng, ch):
    """a literal character written plainly or as an escape that still is a literal (\\x41, \\x{5a}, \\u0041)"""
    r = rng.random()
    o = ord(ch)
    if r < 0.8:
        return ch
    if r < 0.87 and o < 256:
        return "\\x%02X" % o
    if r < 0.94:
        return "\\x{%x}" % o
    return "\\u%04X" % o


def gen_mixed_items(rng, depth, chars):
    """the inside of a bracketed class; `chars` collects the literal characters written"""
    items = []
    for _ in range(rng.choice([1, 1, 1, 2, 2, 3])):
        r = rng.random()
        if r < 0.62:
            ka, kb = rng.choice(MIX_PAIRS)
            a, b = rng.choice(MIX_KINDS[ka]), rng.choice(MIX_KINDS[kb])
            if (ka, kb) != ("lower", "upper") and a > b:
                a, b = b, a
            chars += [a, b]
            items.append(spell(rng, a) + "-" + spell(rng, b))
        elif r < 0.76:
            c = rng.choice(MIX_KINDS[rng.choice(["digit", "lower", "lower", "upper", "pmid", "lhi", "uhi"])])
            chars.append(c)
            items.append(spell(rng, c))
        elif r < 0.88 or depth <= 0:
            items.append(rng.choice(["\\d", "\\w", "[:upper:]", "[:alpha:]", "\\pL", "\\p{Lu}", "\\p{Greek}", "\\s", "[:^lower:]"]))
        else:
            items.append("[" + ("^" if rng.random() < 0.35 else "") + gen_mixed_set(rng, depth - 1, chars) + "]")
    return "".join(items)


def gen_mixed_set(rng, depth, chars):
    a = gen_mixed_items(rng, depth, chars)
    if depth > 0 and rng.random() < 0.18:
        b = "[" + ("^" if rng.random() < 0.5 else "") + gen_mixed_items(rng, depth - 1, chars) + "]"
        return "[" + a + "]" + rng.choice(["&&", "--", "~~"]) + b
    return a


MIX_PREFIX = [("", ""), ("x", "x"), ("x", "x"), ("key=", "key="), ("é", "é"), ("7", "7"), ("\\w", "q"), ("\\pL", "q"),
              ("X", "X"), ("foo|x", "x"), ("(?:b|x)", "x"), ("(x)", "x"), ("\\x78", "x")]
MIX_SUFFIX = [("", ""), ("", ""), ("k", "k"), ("\\d", "5"), ("$", ""), ("+y", "y"), ("{2}", None), ("?z", "z"), ("|zq", "")]


def swapcases(b):
    try:
        t = b.decode("utf-8")
    except UnicodeDecodeError:
        return [b]
    return [x.encode("utf-8") for x in (t, t.swapcase(), t.upper(), t.lower())]


def gen_mixed_pattern(rng):
    chars = []
    neg = rng.random() < 0.3
    cls = "[" + ("^" if neg else "") + gen_mixed_set(rng, 2, chars) + "]"
    (pp, pt), (sp, st) = rng.choice(MIX_PREFIX), rng.choice(MIX_SUFFIX)
    return pp + cls + sp, pt, st, chars


def gen_smart_mixed_case(rng):
    """-S (sometimes -i / -s as controls) with class ranges whose ends are of mixed kinds; the lines are near misses that
    differ only by letter case (each candidate line together with its swapcase / upper / lower forms)"""
    pat, pt, st, chars = gen_mixed_pattern(rng)
    pats = [pat]
    if rng.random() < 0.15:
        pats.insert(rng.randint(0, 1), rng.choice(["q7", "zz", "\\d\\d", "[0-9]k", gen_mixed_pattern(rng)[0]]))
    f = dict.fromkeys(FLAG_NAMES, False)
    c = rng.random()
    if c < 0.86:
        f["smart"] = True
    elif c < 0.93:
        f["icase"] = True
    if rng.random() < 0.15:
        f["invert"] = True
    r = rng.random()
    if r < 0.08:
        f["word"] = True
    elif r < 0.16:
        f["line"] = True
    if rng.random() < 0.1:
        f["crlf"] = True
    mids = []
    for ch in chars:
        mids += [ch, ch.swapcase()]
    mids += rng.sample("aqzAQZ05_!~éÉβΒ", 4)
    lines = []
    for m in rng.sample(mids, min(len(mids), rng.randint(2, 5))):
        body = m * 2 if st is None else m
        for v in swapcases((pt + body + (st or "")).encode("utf-8")):
            if v not in lines:
                lines.append(v)
    lines += rng.sample([b"", b"x", b"key=", b"zq", b"ZQ", b"q7", b"Q7", b"x5k", b"X5K"], rng.randint(0, 3))
    rng.shuffle(lines)
    lines = lines[:12]
    data = term(f).join(lines) + (term(f) if rng.random() < 0.85 else b"")
    return dict(pats=pats, flags=f, input=data, cli=rng.random() < 0.25, via_file=rng.random() < 0.2)


SMART_FIXED = ["x[0-Z]", "key=[0-Q]", "key=[^!-Z]", "x[0-9A-Z]", "foo|x[0-Z]", "x[a-z]", "x[0-9]", "[!-Z]k", "x[[0-Z]&&[^5]]",
               "x[^[0-Z]]", "x[_-Ω]", "x[\\x30-\\x5A]", "x[0-\\x{5a}]k", "[0-Z]+", "x[0-9[:upper:]]", "x[5\\p{Lu}]", "\\pLx", "\\p{Lu}",
               "x[a-Ü]", "x[0-9--5]", "(?i:x[0-Z])", "x[%-@]", "x[%-A]", "a|[!-K]"]


def check_smart_decision(ctx, triples, stats):
    """kind 102: the case mode the real RegexMatcherBuilder chooses (read off the HIR it translates) against
    (a) Model/SmartCase.v run on the AST of the same pattern and (b) the documented rule evaluated by the harness's own
    AST walk; model and documented rule are proved equal (smart_case_decision_meets_doc)"""
    lines = [vlist([vlist([vbytes(p) for p in pats]), vbool(ic), vbool(sm)]) for pats, ic, sm in triples]
    co = vlib.code(102, lines)
    m_in, idx = [], []
    for i, o in enumerate(co):
        pats, ic, sm = triples[i]
        rep = dict(kind=102, pats=pats, icase=ic, smart=sm, line=lines[i])
        if o in ("PANIC", "MISSING") or o.startswith("PARSEFAIL"):
            ctx.violation("harness %s on smart-case decision case" % o, rep, nfi=True)
            continue
        v = R.L(parse_val(o))
        if v[0] == 2:
            stats["smart_decision_rejected"] = stats.get("smart_decision_rejected", 0) + 1
            continue
        if v[0] != 0:
            ctx.violation("builder accepted %r but its case decision cannot be read (status %s)" % (pats, v[0]), rep, nfi=True)
            continue
        m_in.append(vlist([R.unparse(v[2]), vbool(ic), vbool(sm), R.unparse(v[1])]))
        idx.append((i, v, rep))
    mo = vlib.model(102, m_in)
    for k, (i, v, rep) in enumerate(idx):
        pats, ic, sm = triples[i]
        if mo[k].startswith(("MISSING", "STACK", "PARSEFAIL")):
            ctx.violation("smart-case model evaluation failed: %s" % mo[k][:40], rep, nfi=True)
            continue
        mu, ml, mci = [bool(x) for x in R.L(parse_val(mo[k]))]
        obs, ol, ou = v[3], bool(v[4]), bool(v[5])
        oci = ic or (sm and ol and not ou)
        mode = "-i" if ic else "-S"
        ctx.note_case(lines_key(rep), obs in (0, 1) and sm and not ic)
        stats["smart_decision_cases"] = stats.get("smart_decision_cases", 0) + 1
        if obs == 2:
            stats["smart_decision_unobservable"] = stats.get("smart_decision_unobservable", 0) + 1
        if (mu, ml, mci) != (ou, ol, oci):
            ctx.violation("Model/SmartCase.v gives any_uppercase=%s any_literal=%s insensitive=%s for %r (%s) but the documented "
                          "rule gives %s %s %s" % (mu, ml, mci, pats, mode, ou, ol, oci), rep, nfi=True)
        elif obs == 3:
            ctx.violation("the HIR RegexMatcherBuilder translates for %r (%s) is neither the case-sensitive nor the "
                          "case-insensitive translation" % (pats, mode), rep, nfi=True)
        elif obs in (0, 1) and bool(obs) != oci:
            ctx.violation("smart case: RegexMatcherBuilder searches %r (%s) case-%s, but by the documented rule (literals: "
                          "any=%s, uppercase=%s) it must be case-%s"
                          % (pats, mode, "insensitively" if obs else "sensitively", ol, ou,
                             "insensitive" if oci else "sensitive"), rep)


def lines_key(rep):
    return rep["line"]


CTRL_PIECES = ["a", "b", "foo", "\r", "\n", "\r\n", " ", "x", "\r"]


def gen_control_literal_case(rng):
    """plain literal patterns with raw CR / LF under the three terminators (rejected, or matched only inside a line's
    content), via -e, -F"""
    pats = ["".join(rng.choice(CTRL_PIECES) for _ in range(rng.randint(1, 3))) for _ in range(rng.choice([1, 1, 2]))]
    f = dict.fromkeys(FLAG_NAMES, False)
    m = rng.random()
    if m < 0.5:
        f["crlf"] = True
    elif m < 0.65:
        f["null"] = True
    if rng.random() < 0.4:
        f["fixed"] = True
    if rng.random() < 0.15:
        f["invert"] = True
    lines = []
    for p in pats:
        b = p.encode()
        lines += [b, b"z" + b + b"q"]
    lines += [b"ab", b"a", b"foo b"]
    rng.shuffle(lines)
    data = term(f).join(lines) + term(f)
    return dict(pats=pats, flags=f, input=data, cli=rng.random() < 0.5)


def gen_nested_case(rng):
    pat, lines = R.gen_nested_literal(rng)
    f = dict.fromkeys(FLAG_NAMES, False)
    if rng.random() < 0.5:
        f["word"] = True
    if rng.random() < 0.25:
        f["invert"] = True
    if rng.random() < 0.1:
        f["crlf"] = True
    data = term(f).join(lines) + (term(f) if rng.random() < 0.8 else b"")
    return dict(pats=[pat], flags=f, input=data, cli=rng.random() < 0.3)


def gen_word_and_line_case(rng):
    """both -w and -x requested (library level: both builder options set): whole_line must win"""
    pat = rng.choice(["foo", "a+", "[a-z]+", "fo?o", "b|foo", "\\w+", "x*"])
    f = dict.fromkeys(FLAG_NAMES, False)
    f["word"] = f["line"] = True
    if rng.random() < 0.2:
        f["invert"] = True
    if rng.random() < 0.15:
        f["crlf"] = True
    if rng.random() < 0.1:
        f["icase"] = True
    pool = [b"foo", b"x foo y", b"foo bar", b" foo", b"aa", b"b aa", b"b", b"", b"fo", b"foo-", b"(foo)", b"FOO", b"a a"]
    lines = [rng.choice(pool) for _ in range(rng.randint(3, 7))]
    return dict(pats=[pat], flags=f, input=term(f).join(lines) + term(f), cli=rng.random() < 0.3)


def gen_counted_case(rng):
    pat, lines = R.gen_counted(rng)
    f = dict.fromkeys(FLAG_NAMES, False)
    if rng.random() < 0.3:
        f["word"] = True
    if rng.random() < 0.25:
        f["invert"] = True
    if rng.random() < 0.1:
        f["icase"] = True
    if rng.random() < 0.12:
        f["crlf"] = True
    data = term(f).join(lines) + (term(f) if rng.random() < 0.8 else b"")
    return dict(pats=[pat], flags=f, input=data, cli=rng.random() < 0.3)


CORPUS = [
    (["\\B"], dict(crlf=True), b"a\r\nbb\r\n"),                 # D1
    (["^$"], dict(crlf=True), b"abc\nxyz\r\n"),                 # D9
    (["a*"], dict(crlf=True, word=True), b"x\tc\r\n"),
    (["$"], dict(crlf=True), b"a\r\n\r\nb\n"),
    (["\\W"], dict(crlf=True), b"\rabx\n"),                      # interpretation: bare CR cannot be matched
    (["a\\s"], dict(crlf=True), b"a\r\na \r\n"),
    (["^"], dict(null=True), b"a\nb\x00c\x00"),
    (["a$"], dict(null=True), b"a\nb\x00ba\x00"),
    (["foo"], dict(word=True), b"foo\nxfoo\nfoo_\n foo.\n"),
    (["foo"], dict(line=True), b"foo\nfoo \nfoo"),
    (["foo"], dict(line=True, word=True), b"foo\nx foo y\nfoo bar\n"), (["a+"], dict(line=True, word=True, invert=True), b"aa\nb aa\n"),
    (["a.b", "c"], dict(fixed=True), b"a.b\naxb\nc\n"),
    (["abc"], dict(smart=True), b"ABC\nabc\n"),
    (["Abc"], dict(smart=True), b"ABC\nAbc\n"),
    (["\\S+"], dict(invert=True), b"\n \nx\n\t"),
    (["é"], dict(icase=True), b"\xc3\x89\n\xc3\xa9\n\xc3\n"),
    (["\\B "], {}, b"x\n\xa9\xa9 \n"),                           # D17
    (["x*"], {}, b"\n\nabc"),
    (["(?-u:\\xff)"], {}, b"a\xffb\n\xfe\n"),
    (["\\b[A-Z]x:(ab){12};z"], {}, b"foo Qx:" + b"ab" * 12 + b";z bar\nfoo Qx:" + b"ab" * 11 + b";z bar\nfoo Qx:" + b"ab" * 13 + b";z\n"),
    ([":(ab){12};"], dict(word=True), b"foo Qx :" + b"ab" * 12 + b"; z bar\nQ:" + b"ab" * 10 + b";\n"),
    (["foo(\\w+bar)baz"], dict(word=True), b"fooxbarbaz\nfoobaz\nx fooxbarbaz y\n"),
    (["\\s+([A-Z]foo(\\d+bar)baz|Moriarty)\\s+"], {}, b" Qfoo1barbaz \n Qfoobaz \n Moriarty \n"),
    (["foo[A-z]"], dict(smart=True), b"fooa\nFOOA\nFOO_\n"), (["x[B-b]"], dict(smart=True), b"xb\nXB\nXb\n"),
    (["a\rb"], dict(crlf=True), b"a\rb\r\nab\r\n"), (["a\rb"], dict(crlf=True, fixed=True), b"za\rbq\r\n"),
    (["x[0-Z]"], dict(smart=True), b"xa\nxA\nx5\nXa\nx_\n"), (["key=[^!-Z]"], dict(smart=True), b"key=q\nkey=Q\nkey=7\n"),
    (["x[0-Z]"], dict(smart=True, invert=True), b"xa\nxA\nx5\n"), (["key=[0-Q]"], dict(smart=True), b"key=q\nkey=Q\nKEY=7\n"),
    (["foo|x[0-Z]"], dict(smart=True), b"FOO\nfoo\nxa\nxZ\n"), (["x[0-9]"], dict(smart=True), b"X5\nx5\n"),
    (["x[[!-K]&&[^5]]"], dict(smart=True, line=True), b"xk\nxK\nx5\nXK\n"), (["x[\\x30-\\x5A]"], dict(smart=True), b"xq\nxQ\n"),
    (["\\d", "\\D"], dict(icase=True), b"1\na\n\n"),
    (["\\S", "\\s"], dict(icase=True), b" \nx\n"),
]


def run(ctx):
    rng = ctx.rng
    stats = {}
    ctx.cov["rule"] = ("case = (1-3 patterns from the C11 grammar without \\A/\\z or -F strings, flag set, 1-6 lines over the "
                       "patterns' alphabet + CR, invalid UTF-8, multi-byte, NUL-separated/CRLF/mixed endings, optional missing "
                       "final terminator); non-trivial = at least two lines and at least one line matches; distinct by text")
    cases = []
    for pats, kw, inp in CORPUS:
        f = dict.fromkeys(FLAG_NAMES, False)
        f.update(kw)
        cases.append(dict(pats=pats, flags=f, input=inp))
    check_cases(ctx, cases, stats, cli_every=1)
    # the smart-case decision itself (kind 102): fixed patterns, the generators' patterns, the general grammar
    dec = [([p], False, True) for p in SMART_FIXED + SMART_RANGE] + [([a, b], False, True) for a, b in CASE_PAIRS]
    for _ in range(ctx.count(900)):
        r = rng.random()
        if r < 0.7:
            pats = [gen_mixed_pattern(rng)[0]]
            if rng.random() < 0.1:
                pats.append(gen_mixed_pattern(rng)[0])
        elif r < 0.85:
            pats = gen_pats(rng, dict(fixed=False))
        else:
            pats = [rng.choice(SMART_FIXED + SMART_RANGE)]
        m = rng.random()
        dec.append((pats, m > 0.85, m < 0.95))
    check_smart_decision(ctx, dec, stats)
    special = [gen_multi_case(rng) for _ in range(ctx.count(220))] + [gen_counted_case(rng) for _ in range(ctx.count(200))] + \
        [gen_word_and_line_case(rng) for _ in range(ctx.count(100))] + [gen_nested_case(rng) for _ in range(ctx.count(200))] + [gen_smart_case(rng) for _ in range(ctx.count(200))] + [gen_control_literal_case(rng) for _ in range(ctx.count(200))]
    stats["smart_case_range_cases"] = ctx.count(200)
    mixed = [gen_smart_mixed_case(rng) for _ in range(ctx.count(500))]
    stats["smart_case_mixed_range_cases"] = len(mixed)
    special += mixed
    stats["control_literal_cases"] = ctx.count(200)
    stats["multi_pattern_case_pairs"] = ctx.count(220)
    stats["counted_repetition_cases"] = ctx.count(200)
    check_cases(ctx, special, stats)
    gen = []
    for _ in range(ctx.count(3800)):
        f = gen_flags(rng)
        pats = gen_pats(rng, f)
        gen.append(dict(pats=pats, flags=f, input=gen_input(rng, pats, f)))
    check_cases(ctx, gen, stats, cli_every=max(1, len(gen) // 250))
    ctx.cov["stats"] = dict(sorted(stats.items()))
    ctx.assumptions += [
        "reference = regex-syntax parser/translator with the documented meaning of each flag (harness c01.rs "
        "reference_hir, independent of config.rs), evaluated per stripped line by the extracted Spec/RegexSem.v `ends`; "
        "a match counts only if it contains no terminator byte (CRLF: neither \\r nor \\n — DESIGN §7 C01 interpretation)",
        "haystack anchors \\A \\z are excluded (documented as unsettled in line mode)",
        "-a is passed to rg (binary detection is not part of this property)",
    ]


def replay(ctx, data):
    r = data["replay"]
    if r.get("kind") == 102:
        check_smart_decision(ctx, [(r["pats"], r["icase"], r["smart"])], {})
        return
    if "pats" in r:
        f = dict.fromkeys(FLAG_NAMES, False)
        f.update(r.get("flags", {}))
        check_cases(ctx, [dict(pats=r["pats"], flags=f, input=bytes.fromhex(r["input"]))], {}, cli_every=1)
