"""C05 — which files are searched follows the documented precedence of filters."""
import os
import shutil
import subprocess
import tempfile

import vlib
from vlib import vbytes, vlist, vopt, vbool, parse_val

NEED_RG = True
MANIFEST = dict(
    text="Coq theorems over all directory chains, all per-(directory,source) matchers (abstract functions) and all "
         "option records: Ignore::matched_dir_entry = the documented fold overrides > (rgignore > ignore > gitignore > "
         "exclude > global > explicit) > types > hidden with repository and parent gating (matched_eq_spec); the "
         "flag-to-builder mapping composed with it = the same fold on the world's rule files (decide_eq_world); one "
         "lemma per flag (--hidden, --no-ignore-dot/-vcs/-exclude/-global/-parent/-files, --no-ignore, -u/-uu/-uuu) that "
         "it removes exactly its own source; an explicitly named file is always listed; file_name = last path component "
         "(D4 refuted on the pinned text, repaired by a fix: commit); add_parents and add_child_path agree on what a "
         "repository root is for every kind of .git entry, directory or gitfile (repo_root_test_uniform). Tie to the code: extracted model vs `rg --files` "
         "and vs ignore::WalkBuilder on generated trees, plus an independent Python statement of the documented rules, "
         "plus real `git worktree add` trees compared with `git ls-files -o --exclude-standard`.",
    note="trusted: Coq kernel, extraction, OCaml driver, Rust harness, Python oracle. Each compiled ignore file is an "
         "abstract matcher in the theorems (literal-name rules in the generated cases). The path re-basing for "
         "directories above the search root is modelled byte for byte and tested, not proved correct: it is wrong for "
         "root '.' with dot-names and for anchored patterns below depth 1 (known finding ParentRuleRebase). The "
         "`compiled` cache of add_parents is not modelled. GitlinkExcludeNoRequire (exclude file of a linked worktree not "
         "read under --no-require-git) is repaired by a fix: commit; its witness runs first as a regression case.",
    technique="Coq proof over executable model + extracted-model/rg correspondence + independent rule oracle",
    design="§7 C05")
KNOWN_REBASE = "ParentRuleRebase"

FILE_LIKE = ("f", "fifo", "rlf", "chr")        # command-line paths that are not directories
SRC = ["rg", "ig", "gi", "ex"]                      # per-directory sources, in precedence order
SRC_FILE = {"rg": ".rgignore", "ig": ".ignore", "gi": ".gitignore"}
FILE_NAMES = ["a", "b", "x.rs", "y.py", "a.rs", "b.txt", ".h", ".hid.", "c.", "n.rs.", "..x", "d", ".e.py"]
DIR_NAMES = ["d", "e", "sub", ".sd", "a", "b.", "t.rs"]
# rule names never end in '.': a glob naming such a file is defect D3 (globset file_name), property C12's finding
RULE_NAMES = [n for n in FILE_NAMES + DIR_NAMES if not n.endswith(".")] + [".git", ".gitignore", "info", "zz"]
EXTS = ["rs", "py", "txt"]


# ----------------------------------------------------------------------------- rules
def gen_rule(rng, names, anchored_names=()):
    neg = rng.random() < 0.35
    if anchored_names and rng.random() < 0.25:
        return dict(neg=neg, dironly=rng.random() < 0.15, anch=True, name=rng.choice(list(anchored_names)))
    return dict(neg=neg, dironly=rng.random() < 0.2, anch=False, name=rng.choice(names))


def rule_text(r):
    t = r["name"]
    if r["anch"] and "/" not in t:
        t = "/" + t
    return ("!" if r["neg"] else "") + t + ("/" if r["dironly"] else "")


def rules_text(rules):
    return "".join(rule_text(r) + "\n" for r in rules)


def gen_rules(rng, p, names, anchored_names=()):
    if rng.random() >= p:
        return []
    return [gen_rule(rng, names, anchored_names) for _ in range(rng.randint(1, 3))]


# ----------------------------------------------------------------------------- trees
def gen_dir(rng, name, depth, budget, p_src, p_git):
    """a directory node: kids are files/dirs; rule files and .git are ordinary kids"""
    kids = []
    names = set()
    nfiles = rng.randint(0, 4)
    for _ in range(nfiles):
        n = rng.choice(FILE_NAMES)
        if n not in names and budget[0] > 0:
            names.add(n)
            budget[0] -= 1
            kids.append(dict(name=n, kind="f"))
    if depth < 3:
        for _ in range(rng.randint(0, 2)):
            n = rng.choice(DIR_NAMES)
            if n not in names and budget[0] > 0:
                names.add(n)
                budget[0] -= 1
                kids.append(gen_dir(rng, n, depth + 1, budget, p_src, p_git))
    node = dict(name=name, kind="d", kids=kids)
    # anchored rule names: relative paths of some entries below
    rel = []
    for k in kids:
        rel.append(k["name"])
        if k["kind"] == "d":
            rel += [k["name"] + "/" + kk["name"] for kk in k["kids"]]
    rel = [x for x in rel if not x.endswith(".")]
    rules = {}
    for s in SRC:
        rules[s] = gen_rules(rng, p_src, RULE_NAMES, rel)
    attach_sources(node, rules, gen_git_kind(rng, p_git))
    return node


def gen_git_kind(rng, p_git):
    """what marks a repository root: a `.git` directory, or a `.git` file `gitdir: <path>` (gitrepository-layout(5):
       linked worktrees and submodules); None = not a repository root"""
    if rng.random() >= p_git:
        return None
    return "file" if rng.random() < 0.45 else "dir"


def attach_sources(node, rules, has_git):
    """materialise rule files and .git as kids; keeps node['rules'] / node['has_git'] / node['git_kind'] for reference
       only.  has_git: None/False = no .git, True/"dir" = a .git directory, "file" = a .git file (gitlink)"""
    node["kids"] = [k for k in node["kids"] if k["name"] not in (".rgignore", ".ignore", ".gitignore", ".git")]
    for s in ("rg", "ig", "gi"):
        if rules.get(s):
            node["kids"].append(dict(name=SRC_FILE[s], kind="f", content=rules_text(rules[s])))
    kind = None
    if has_git == "file":
        kind = "file"
    elif has_git or rules.get("ex"):
        kind = "dir"        # an exclude file needs a repository; then the directory is a repository root
    if kind == "dir":
        norules = {s: [] for s in SRC}
        info = dict(name="info", kind="d", kids=[], rules=dict(norules), has_git=False)
        if rules.get("ex"):
            info["kids"].append(dict(name="exclude", kind="f", content=rules_text(rules["ex"])))
        node["kids"].append(dict(name=".git", kind="d", kids=[info], rules=dict(norules), has_git=False))
    elif kind == "file":
        # a gitlink as `git worktree add` writes it: the file names the worktree's private git directory, whose
        # `commondir` names the shared one, which holds info/exclude.  Both live outside the searched tree; the
        # file's text is written by materialise (it needs the absolute location).  In the tree it is a (hidden) file.
        node["kids"].append(dict(name=".git", kind="f", content=None, gitfile=True, ex=list(rules.get("ex") or [])))
    node["rules"] = {s: (rules.get(s) or []) for s in SRC}
    if kind is None:
        node["rules"]["ex"] = []
    node["has_git"] = kind is not None
    node["git_kind"] = kind


def git_kind_of(node):
    """None / 'dir' / 'file' (cases recorded before the kind existed have only has_git = a directory)"""
    if "git_kind" in node:
        return node["git_kind"]
    return "dir" if node.get("has_git") else None


def eff(node):
    """what the walker sees with --follow: a link to a directory is a directory with the target's content (and rule
       files), a link to a file is a file"""
    if node["kind"] == "ld":
        t = node["target"]
        return dict(name=node["name"], kind="d", kids=t["kids"], rules=t["rules"], has_git=t["has_git"],
                    git_kind=git_kind_of(t))
    if node["kind"] == "lf":
        return dict(name=node["name"], kind="f")
    return node


def add_links(rng, root):
    """insert 1-2 symbolic links (to a directory or a file of the same root) into directories of the tree; a link to a
       directory points to a subtree that contains no link and is not an ancestor of the link, so nothing is cyclic"""
    dirs = []

    def walk(n, comps, ancs):
        dirs.append((comps, n, ancs))
        for k in n["kids"]:
            if k["kind"] == "d" and k["name"] not in (".git",):
                walk(k, comps + [k["name"]], ancs + [n])
    walk(root, [], [])
    made = 0
    for _ in range(rng.randint(1, 2)):
        hc, host, hanc = rng.choice(dirs)
        cands = [(tc, t) for tc, t, _ in dirs if t is not host and all(t is not a for a in hanc) and not t.get("haslink") and tc]
        name = rng.choice(["build", "lnk", "l.rs", "x.rs", ".hl", "d"])
        if any(k["name"] == name for k in host["kids"]):
            continue
        rel_up = [".."] * len(hc)
        if cands and rng.random() < 0.75:
            tc, t = rng.choice(cands)
            host["kids"].append(dict(name=name, kind="ld", target=t, target_rel="/".join(rel_up + tc)))
            if rng.random() < 0.4 and not name.endswith("."):
                # a directory-only rule naming the link, in one of the host's rule files
                rules = {k: list(v) for k, v in host["rules"].items()}
                rules[rng.choice(["rg", "ig", "gi"])].append(dict(neg=rng.random() < 0.2, dironly=True, anch=False, name=name))
                attach_sources(host, rules, git_kind_of(host))
        else:
            files = [(fc, k) for fc, d, _ in dirs for k in d["kids"] if k["kind"] == "f" and "content" not in k for fc in [fc]]
            if not files:
                continue
            fc, k = rng.choice(files)
            host["kids"].append(dict(name=name, kind="lf", target_rel="/".join(rel_up + fc + [k["name"]])))
        host["haslink"] = True
        for a in hanc:
            a["haslink"] = True
        made += 1
    return made


def materialise(path, node, store):
    """store = [directory outside every searched tree that receives the git directories of gitlinks, counter]"""
    if node["kind"] in ("ld", "lf"):
        os.symlink(node["target_rel"], path)
        return
    if node.get("gitfile"):
        write_gitlink(path, node, store)
        return
    if node["kind"] == "f":
        with open(path, "w") as f:
            f.write(node.get("content") or "")
        return
    os.makedirs(path, exist_ok=True)
    for k in node["kids"]:
        materialise(os.path.join(path, k["name"]), k, store)


def write_gitlink(path, node, store):
    """the layout `git worktree add` produces (validated against the installed git by git_worktree_check):
         <dir>/.git                       file   "gitdir: <store>/main<i>/.git/worktrees/w"
         <store>/main<i>/.git/worktrees/w/commondir   "../.."  (or the absolute path)
         <store>/main<i>/.git/info/exclude            the repository's exclude rules"""
    store[1] += 1
    common = os.path.join(store[0], "main%d" % store[1], ".git")
    priv = os.path.join(common, "worktrees", "w")
    os.makedirs(priv, exist_ok=True)
    os.makedirs(os.path.join(common, "info"), exist_ok=True)
    with open(os.path.join(priv, "commondir"), "w") as f:
        f.write(("../..", common)[store[1] % 2] + "\n")
    with open(os.path.join(priv, "gitdir"), "w") as f:
        f.write(path + "\n")
    with open(os.path.join(priv, "HEAD"), "w") as f:
        f.write("ref: refs/heads/w\n")
    with open(os.path.join(common, "HEAD"), "w") as f:
        f.write("ref: refs/heads/master\n")
    if node.get("ex"):
        with open(os.path.join(common, "info", "exclude"), "w") as f:
            f.write(rules_text(node["ex"]))
    with open(path, "w") as f:
        f.write("gitdir: %s\n" % priv)


# ----------------------------------------------------------------------------- a case
def gen_case(rng, idx):
    budget = [rng.choice([6, 12, 24])]
    p_src = rng.choice([0.15, 0.35, 0.6])
    p_git = rng.choice([0.0, 0.15, 0.3])
    c = {}
    # above the root: case/up1/up0; rule names only (no anchored patterns above the root)
    above = []
    for n in ("up1", "up0"):
        d = dict(name=n, kind="d", kids=[])
        rules = {s: gen_rules(rng, p_src, RULE_NAMES) for s in SRC}
        attach_sources(d, rules, gen_git_kind(rng, p_git))
        above.append(d)
    c["above"] = above
    roots = [gen_dir(rng, "r", 1, budget, p_src, p_git)]
    layout = rng.choice(["in", "in", "up0", "up0", "up0", "case", "abs", "multi", "multi"])
    if layout == "multi":
        b2 = [6]
        roots.append(gen_dir(rng, "r2", 1, b2, p_src, p_git))
        if rng.random() < 0.7:
            roots.append(dict(name=rng.choice(["f0", ".f0", "f0.rs"]), kind="f"))
        # explicitly named paths of other kinds, with names that rules / hidden / type filters would exclude
        if rng.random() < 0.6:
            for kind in rng.sample(["fifo", "rlf", "rld", "chr"], rng.randint(1, 2)):
                nm = rng.choice([".p", "p.rs", "q.py", "a", "b.txt", "zz"])
                if any(r["name"] == nm for r in roots):
                    continue
                if kind == "fifo":
                    roots.append(dict(name=nm, kind="fifo"))
                elif kind == "rlf":
                    roots.append(dict(name=nm, kind="rlf", target_rel="tgt-" + nm.strip(".") + ".txt"))
                elif kind == "rld":
                    roots.append(dict(name=nm, kind="rld", target=gen_dir(rng, "r3-" + nm.strip("."), 1, [5], p_src, p_git)))
                else:
                    roots.append(dict(name="/dev/null", kind="chr"))
    if rng.random() < 0.12:
        # repository roots above the search root marked by a gitlink, made decisive: git rules of the directories above
        # name entries that exist in the first root
        names = [k["name"] for k in roots[0]["kids"] if "content" not in k and k["name"] != ".git" and not k["name"].endswith(".")]
        which = rng.choice([0, 1, 1, 2])
        for i, d in enumerate(above):
            kind = git_kind_of(d)
            if which in (2, i):
                kind = "file" if rng.random() < 0.8 else "dir"
            rules = {s: list(d["rules"][s]) for s in SRC}
            if names and rng.random() < 0.8:
                rules[rng.choice(["gi", "gi", "ex"])].append(dict(neg=False, dironly=False, anch=False, name=rng.choice(names)))
            attach_sources(d, rules, kind)
        if layout != "multi":
            layout = rng.choice(["in", "in", "up0", "abs"])
    c["roots"] = roots
    c["layout"] = layout
    if layout == "in":
        c["cwd"] = "up1/up0/r"
        c["spell"] = [rng.choice([None, None, ".", "./"])]
    elif layout in ("up0", "multi"):
        c["cwd"] = "up1/up0"
        c["spell"] = [rng.choice(["%s", "./%s", "%s/"]) % r["name"] if r["kind"] in ("d", "rld") else
                      (r["name"] if r["kind"] == "chr" else rng.choice(["%s", "./%s"]) % r["name"]) for r in roots]
    elif layout == "case":
        c["cwd"] = "."
        c["spell"] = ["up1/up0/r"]
    else:
        c["cwd"] = rng.choice([".", "up1/up0", "xdg"])
        c["spell"] = ["ABS/up1/up0/r"]
    # flags
    fl = dict(hidden=False, dot=False, exclude=False, files=False, glob=False, parent=False, vcs=False, norequire=False, u=0)
    k = rng.random()
    if k < 0.25:
        pass
    elif k < 0.75:
        for name in rng.sample(["hidden", "dot", "exclude", "files", "glob", "parent", "vcs", "norequire"], rng.randint(1, 2)):
            fl[name] = True
    else:
        for name in ("hidden", "dot", "exclude", "files", "glob", "parent", "vcs", "norequire"):
            fl[name] = rng.random() < 0.3
    if rng.random() < 0.12:
        fl["u"] = rng.randint(1, 3)
    c["flags"] = fl
    c["no_ignore"] = rng.random() < 0.06          # --no-ignore spelled out
    c["globs"] = gen_rules(rng, 0.3, RULE_NAMES)
    c["types"] = [(rng.choice(EXTS), rng.random() < 0.35) for _ in range(rng.randint(1, 2))] if rng.random() < 0.3 else []
    c["ignore_files"] = [gen_rules(rng, 1.0, RULE_NAMES) for _ in range(rng.randint(1, 2))] if rng.random() < 0.35 else []
    # where git finds its global ignore file: core.excludesFile of ~/.gitconfig, else of $XDG_CONFIG_HOME/git/config
    # (~/.config/git/config without XDG_CONFIG_HOME), else the default $XDG_CONFIG_HOME/git/ignore.  Each candidate file
    # gets its own rules, so choosing the wrong one shows.
    c["genv"] = dict(home=rng.choice([None, None, "noexcl", "excl"]), xdg=rng.choice([None, None, "noexcl", "excl"]),
                     xdg_set=rng.random() < 0.75, default_present=rng.random() < 0.8)
    p_glob = rng.choice([0.0, 0.5, 1.0, 1.0])
    c["global_files"] = {k: gen_rules(rng, p_glob, RULE_NAMES) for k in ("home", "xdg", "default")}
    if rng.random() < 0.15:
        # a share of the cases makes the choice of the global file decisive: git rules heard everywhere, every
        # candidate file hides different entries that exist in the first root
        names = [k["name"] for k in roots[0]["kids"] if "content" not in k and k["name"] != ".git" and not k["name"].endswith(".")]
        for k in c["global_files"]:
            if names:
                c["global_files"][k] = [dict(neg=False, dironly=False, anch=False, name=n)
                                        for n in rng.sample(names, min(len(names), rng.randint(1, 2)))]
        c["genv"]["home"] = rng.choice([None, "noexcl", "noexcl", "excl"])
        c["genv"]["xdg"] = rng.choice(["noexcl", "excl", "excl"])
        c["flags"].update(vcs=False, glob=False, norequire=True, u=0)
        c["no_ignore"] = False
    c["global"] = effective_global(c)
    c["max_depth"] = rng.choice([None, None, None, None, 0, 1, 2, 3])
    c["threads"] = rng.choice([1, 1, 3])
    # a share of the cases follows symbolic links (-L): links to directories and files inside the first root
    c["follow"] = False
    if rng.random() < 0.3:
        if add_links(rng, roots[0]):
            c["follow"] = True
            c["threads"] = rng.choice([1, 3, 3])
            # make the interesting combinations frequent: a selection by type / glob, a dir-only rule naming a link
            if not c["types"] and not c["globs"] and rng.random() < 0.6:
                if rng.random() < 0.5:
                    c["types"] = [(rng.choice(EXTS), False)]
                else:
                    c["globs"] = [dict(neg=False, dironly=False, anch=False, name=rng.choice(["x.rs", "a.rs", "a", "y.py"]))]
    return c


def genv_of(c):
    return c.get("genv") or dict(home=None, xdg=None, xdg_set=True, default_present=True)


def effective_global(c):
    """git's documented order (git-config core.excludesFile, gitignore(5)): ~/.gitconfig's value wins over the XDG
       config's; if neither sets it, the default $XDG_CONFIG_HOME/git/ignore (or ~/.config/git/ignore)"""
    g = genv_of(c)
    files = c.get("global_files") or dict(home=[], xdg=[], default=c.get("global", []))
    if g["home"] == "excl":
        return files["home"]
    if g["xdg"] == "excl":
        return files["xdg"]
    return files["default"] if g["default_present"] else []


def write_global_env(c, base):
    """materialise HOME and the XDG directory of the case; returns (HOME, XDG_CONFIG_HOME or None)"""
    g = genv_of(c)
    files = c.get("global_files") or dict(home=[], xdg=[], default=c.get("global", []))
    home = os.path.join(base, "home")
    xdgdir = os.path.join(base, "xdg") if g["xdg_set"] else os.path.join(home, ".config")
    os.makedirs(os.path.join(xdgdir, "git"), exist_ok=True)
    os.makedirs(home, exist_ok=True)
    os.makedirs(os.path.join(base, "xdg"), exist_ok=True)      # also a possible working directory
    for key, cfg, target in (("home", os.path.join(home, ".gitconfig"), os.path.join(base, "excl-home")),
                             ("xdg", os.path.join(xdgdir, "git", "config"), os.path.join(base, "excl-xdg"))):
        if g[key] is None:
            continue
        with open(cfg, "w") as f:
            f.write("[user]\n\tname = nobody\n[core]\n\tautocrlf = false\n")
            if g[key] == "excl":
                f.write("\texcludesFile = %s\n" % target)
        with open(target, "w") as f:
            f.write(rules_text(files[key]))
    if g["default_present"]:
        with open(os.path.join(xdgdir, "git", "ignore"), "w") as f:
            f.write(rules_text(files["default"]))
    return home, (xdgdir if g["xdg_set"] else None)


def vrule(r):
    return vlist([vbool(r["neg"]), vbool(r["dironly"]), vbool(r["anch"]), vbytes(r["name"])])


def vrulefile(root, rules):
    return vlist([vbytes(root), vlist([vrule(r) for r in rules])])


def vdirinfo(path, node):
    return vlist([vbytes(path)] + [vrulefile(path, node["rules"][s]) for s in SRC]
                 + [{None: "0", "dir": "1", "file": "2"}[git_kind_of(node)]])


def join(d, n):
    return d + n if d.endswith("/") else d + "/" + n


def vtnode(path, node):
    node = eff(node)
    if node["kind"] == "f":
        return vlist(["0", vbytes(node["name"])])
    return vlist(["1", vbytes(node["name"]), vdirinfo(path, node),
                  vlist([vtnode(join(path, k["name"]), k) for k in node["kids"]])])


def eff_flags(c):
    """the flag bits as given on the command line (before -u / --no-ignore expansion, which the model does)"""
    return c["flags"]


def model_line(c, base):
    fl = c["flags"]
    u = fl["u"]
    # --no-ignore spelled out = its five documented implications given explicitly to the model
    ni = c["no_ignore"]
    flags = vlist([vbool(fl["hidden"]), vbool(fl["dot"] or ni), vbool(fl["exclude"] or ni), vbool(fl["files"]),
                   vbool(fl["glob"] or ni), vbool(fl["parent"] or ni), vbool(fl["vcs"] or ni), vbool(fl["norequire"]), str(u)])
    cwd_abs = os.path.normpath(os.path.join(base, c["cwd"]))
    cmd = vlist([vrulefile(cwd_abs, c["globs"]),
                 vlist([vlist([vbytes(e), vbool(n)]) for e, n in c["types"]]),
                 vlist([vrulefile("", rf) for rf in c["ignore_files"]]),
                 vrulefile("", effective_global(c))])
    roots = []
    for r, sp in zip(c["roots"], c["spell"]):
        spelled = "./" if sp is None else sp.replace("ABS", base)
        if r["kind"] in FILE_LIKE:
            roots.append(vlist(["0", vbytes(spelled)]))
            continue
        if r["kind"] == "rld":
            # a link to a directory named on the command line: the walker canonicalises it for the parents
            r = dict(r["target"])
        canon = os.path.normpath(os.path.join(base, "up1/up0", r["name"]))
        above = []
        # from the file system root downward; directories outside the case carry nothing
        parts = canon.strip("/").split("/")
        cur = "/"
        chain = ["/"]
        for p in parts[:-1]:
            cur = os.path.join(cur, p)
            chain.append(cur)
        for d in chain:
            node = None
            if d == os.path.join(base, "up1"):
                node = c["above"][0]
            elif d == os.path.join(base, "up1/up0"):
                node = c["above"][1]
            if node is None:
                node = dict(rules={s: [] for s in SRC}, has_git=False)
            above.append(vdirinfo(d, node))
        roots.append(vlist(["1", vbytes(spelled), vopt(vbytes(canon)), vlist(above), vdirinfo(spelled, r),
                            vlist([vtnode(join(spelled, k["name"]), k) for k in r["kids"]])]))
    return vlist([flags, cmd, vopt(None if c["max_depth"] is None else str(c["max_depth"])), vlist(roots)])


def rg_args(c, base):
    fl = c["flags"]
    a = []
    for name, opt in (("hidden", "--hidden"), ("dot", "--no-ignore-dot"), ("exclude", "--no-ignore-exclude"),
                      ("files", "--no-ignore-files"), ("glob", "--no-ignore-global"), ("parent", "--no-ignore-parent"),
                      ("vcs", "--no-ignore-vcs"), ("norequire", "--no-require-git")):
        if fl[name]:
            a.append(opt)
    if c["no_ignore"]:
        a.append("--no-ignore")
    if fl["u"]:
        a.append("-" + "u" * fl["u"])
    for r in c["globs"]:
        a += ["-g", rule_text(r)]
    seen = set()
    for e, n in c["types"]:
        if e not in seen:
            a += ["--type-add", "zz%s:*.%s" % (e, e)]
            seen.add(e)
    for e, n in c["types"]:
        a += ["-T" if n else "-t", "zz" + e]
    for i in range(len(c["ignore_files"])):
        a += ["--ignore-file", os.path.join(base, "igf%d" % i)]
    if c["max_depth"] is not None:
        a += ["--max-depth", str(c["max_depth"])]
    if c.get("follow"):
        a.append("-L")
    a += ["-j%d" % c["threads"]]
    for sp in c["spell"]:
        if sp is not None:
            a.append(sp.replace("ABS", base))
    return a


def build_case(c, base):
    os.makedirs(base, exist_ok=True)
    up1 = os.path.join(base, "up1")
    up0 = os.path.join(up1, "up0")
    store = [os.path.join(base, "gitstore"), 0]
    materialise(up1, c["above"][0], store)
    materialise(up0, c["above"][1], store)
    for r in c["roots"]:
        p = os.path.join(up0, r["name"])
        if r["kind"] == "fifo":
            try:
                os.mkfifo(p)
            except (OSError, AttributeError):
                open(p, "w").close()        # no named pipes here: an ordinary file, still an explicit path
        elif r["kind"] == "rlf":
            with open(os.path.join(up0, r["target_rel"]), "w") as f:
                f.write("x\n")
            os.symlink(r["target_rel"], p)
        elif r["kind"] == "rld":
            materialise(os.path.join(up0, r["target"]["name"]), r["target"], store)
            os.symlink(r["target"]["name"], p)
        elif r["kind"] == "chr":
            pass
        else:
            materialise(p, r, store)
    write_global_env(c, base)
    for i, rf in enumerate(c["ignore_files"]):
        with open(os.path.join(base, "igf%d" % i), "w") as f:
            f.write(rules_text(rf))


def run_rg(c, base):
    env = dict(os.environ)
    g = genv_of(c)
    env["HOME"] = os.path.join(base, "home")
    if g["xdg_set"]:
        env["XDG_CONFIG_HOME"] = os.path.join(base, "xdg")
    else:
        env.pop("XDG_CONFIG_HOME", None)
    env.pop("RIPGREP_CONFIG_PATH", None)
    cwd = os.path.normpath(os.path.join(base, c["cwd"]))
    try:
        # --files never opens a haystack (a FIFO named on the command line is listed, not read); the timeout is a
        # safety net only
        p = subprocess.run([vlib.RG, "--no-config", "--files", "--no-messages"] + rg_args(c, base), cwd=cwd, env=env,
                           stdin=subprocess.DEVNULL, stdout=subprocess.PIPE, stderr=subprocess.PIPE, timeout=300)
    except subprocess.TimeoutExpired:
        return None, "TIMEOUT"
    if p.returncode not in (0, 1):
        return None, p.stderr.decode("utf-8", "replace")
    return norm_paths(p.stdout.decode("utf-8", "surrogateescape").split("\n"), cwd, base), ""


def norm_paths(lines, cwd, base):
    res = []
    for ln in lines:
        if ln == "":
            continue
        res.append(os.path.relpath(os.path.normpath(os.path.join(cwd, ln)), base))
    return sorted(res)


# ----------------------------------------------------------------------------- the documented rules (oracle)
def o_file_opinion(rules, rel, is_dir):
    """rules of one ignore file, entry's path relative to the file's directory: last matching rule wins"""
    op = None
    for r in rules:
        if r["dironly"] and not is_dir:
            continue
        hit = (rel == r["name"]) if r["anch"] else (rel.split("/")[-1] == r["name"])
        if hit:
            op = "white" if r["neg"] else "ignore"
    return op


def o_flags(c):
    fl = dict(c["flags"])
    if c["no_ignore"] or fl["u"] >= 1:
        for k in ("dot", "exclude", "glob", "parent", "vcs"):
            fl[k] = True
    if fl["u"] >= 2:
        fl["hidden"] = True
    return fl


def o_decide(c, fl, chain, n_above, comps, is_dir):
    """chain: directories from the outermost one above the root down to the one containing the entry;
       the first n_above of them lie above the search root. comps: the entry's path components from
       chain[0] (exclusive) ... the entry.  Returns True when the entry is skipped."""
    name = comps[-1]
    # 1. command line globs
    if c["globs"]:
        op = None
        for r in c["globs"]:
            if r["dironly"] and not is_dir:
                continue
            if name == r["name"]:
                op = "ignore" if r["neg"] else "white"
        if op is None and not is_dir and any(not r["neg"] for r in c["globs"]):
            op = "ignore"
        if op is not None:
            return op == "ignore"
    # 2. ignore files, source order first, then nearest directory
    k = len(chain)
    in_repo = fl["norequire"] or any(d["has_git"] for d in chain)
    white = False
    decided = None
    for s in ("rg", "ig", "gi", "ex", "global", "explicit"):
        op = None
        if s in ("rg", "ig") and not fl["dot"]:
            for i in range(k - 1, -1, -1):
                if i < n_above and fl["parent"]:
                    break
                op = o_file_opinion(chain[i]["rules"][s], "/".join(comps[i:]), is_dir)
                if op:
                    break
        elif s in ("gi", "ex") and not fl["vcs"] and not (s == "ex" and fl["exclude"]) and in_repo:
            for i in range(k - 1, -1, -1):
                if i < n_above and fl["parent"]:
                    break
                op = o_file_opinion(chain[i]["rules"][s], "/".join(comps[i:]), is_dir)
                # a repository root ends the scan; with --no-require-git there is no notion of repository
                if op or (chain[i]["has_git"] and not fl["norequire"]):
                    break
        elif s == "global" and not fl["vcs"] and not fl["glob"] and in_repo:
            op = o_file_opinion(effective_global(c), name, is_dir)
        elif s == "explicit" and not fl["files"]:
            for rf in reversed(c["ignore_files"]):
                op = o_file_opinion(rf, name, is_dir)
                if op:
                    break
        if op:
            decided = op
            break
    if decided == "ignore":
        return True
    white = decided == "white"
    # 3. file types
    if c["types"] and not is_dir:
        op = None
        for e, neg in c["types"]:
            if name.endswith("." + e):
                op = "ignore" if neg else "white"
        if op is None and any(not neg for _, neg in c["types"]):
            op = "ignore"
        if op == "ignore":
            return True
        if op == "white":
            white = True
    # 4. hidden
    if not white and not fl["hidden"] and name.startswith("."):
        return True
    return False


def oracle(c, base="/"):
    fl = o_flags(c)
    out = []
    for r in c["roots"]:
        rp = "up1/up0/" + r["name"]
        if r["kind"] == "chr":
            out.append(os.path.relpath(r["name"], base))
            continue
        if r["kind"] in FILE_LIKE:
            out.append(rp)          # named on the command line, not a directory: always searched, whatever it is
            continue
        if r["kind"] == "rld":
            r = r["target"]         # listed through the link's name, rules of the target directory
        chain = [c["above"][0], c["above"][1], r]

        def rec(node, chain, comps, depth, path):
            for k in node["kids"]:
                k = eff(k)
                if c["max_depth"] is not None and depth > c["max_depth"]:
                    continue
                cc = comps + [k["name"]]
                # comps are relative to chain[0]'s directory: chain[0]=up1 -> comps start with "up0"
                if o_decide(c, fl, chain, 2, cc, k["kind"] == "d"):
                    continue
                if k["kind"] == "f":
                    out.append(path + "/" + k["name"])
                else:
                    rec(k, chain + [k], cc, depth + 1, path + "/" + k["name"])
        rec(r, chain, ["up0", r["name"]], 1, rp)
    return sorted(out)


# ----------------------------------------------------------------------------- running
def scratch_base():
    b = os.environ.get("VERIF_SCRATCH") or "/tmp"
    os.makedirs(b, exist_ok=True)
    d = tempfile.mkdtemp(prefix="verif-C05-", dir=b)
    # no rule file may sit above the scratch area
    cur = d
    while True:
        for n in (".git", ".gitignore", ".ignore", ".rgignore"):
            if os.path.lexists(os.path.join(cur, n)):
                raise RuntimeError("scratch area %s lies below %s/%s; set VERIF_SCRATCH" % (d, cur, n))
        if cur == "/":
            break
        cur = os.path.dirname(cur)
    return d


def in_rebase_class(c, diff):
    """known finding ParentRuleRebase: root spelled '.', entries whose first component under the root starts
       with '.', rules present above the root and heard"""
    if c["spell"] != ["."] or o_flags(c)["parent"]:
        return False
    if not any(d["rules"][s] for d in c["above"] for s in SRC):
        return False
    for p in diff:
        rel = os.path.relpath(p, "up1/up0/r")
        if not rel.split("/")[0].startswith("."):
            return False
    return True


def features(c):
    f = []
    fl = c["flags"]
    f += ["flag:" + k for k in fl if fl[k]]
    if c["no_ignore"]:
        f.append("flag:--no-ignore")
    for d in c["above"]:
        f += ["above:" + s for s in SRC if d["rules"][s]]
        if d["has_git"]:
            f.append("above:.git")
            f.append("above:.git-" + git_kind_of(d))
            if c["layout"] == "in":
                f.append("search root strictly below a repository root (.git %s)" % git_kind_of(d))
    if sum(1 for d in c["above"] if d["has_git"]) + sum(1 for r in c["roots"] if r.get("has_git")) >= 2:
        f.append("nested repository roots at/above the search root")

    def rec(n, depth):
        for s in SRC:
            if n["rules"][s]:
                f.append("depth%d:%s" % (depth, s))
                if any(r["neg"] for r in n["rules"][s]):
                    f.append("whitelist-rule")
                if any(r["anch"] for r in n["rules"][s]):
                    f.append("anchored-rule")
        if n["has_git"]:
            f.append("depth%d:.git" % depth)
            f.append("inside:.git-" + git_kind_of(n))
        for k in n["kids"]:
            if k["kind"] in ("ld", "lf"):
                f.append("symlink-to-" + ("dir" if k["kind"] == "ld" else "file") + " (-L)")
                if k["kind"] == "ld" and (c["types"] or any(not r["neg"] for r in c["globs"])):
                    f.append("symlinked-dir under -t/-g selection")
                if k["kind"] == "ld" and any(r["dironly"] and r["name"] == k["name"] for s in SRC for r in n["rules"][s]):
                    f.append("symlinked-dir named by a dir-only rule")
            if k["kind"] == "d" and "rules" in k:
                rec(k, depth + 1)
    for r in c["roots"]:
        if r["kind"] == "d":
            rec(r, 0)
        elif r["kind"] == "rld":
            f.append("root:symlink-to-dir")
            rec(r["target"], 0)
        else:
            f.append("root:" + {"f": "file", "fifo": "fifo", "rlf": "symlink-to-file", "chr": "char-device"}[r["kind"]])
    if c["globs"]:
        f.append("-g")
    if c["types"]:
        f.append("-t/-T")
    if c["ignore_files"]:
        f.append("--ignore-file")
    if effective_global(c):
        f.append("global")
    g = genv_of(c)
    f.append("genv:home=%s,xdg=%s,%s,%s" % (g["home"], g["xdg"], "XDG set" if g["xdg_set"] else "XDG unset",
                                            "default" if g["default_present"] else "no default"))
    if g["home"] == "noexcl" and g["xdg"] == "excl":
        f.append("genv: ~/.gitconfig without excludesFile, XDG config with it")
    if c["max_depth"] is not None:
        f.append("--max-depth")
    f.append("layout:" + c["layout"])
    f += ["spell:%s" % ("implicit" if s is None else s.replace("r2", "R").replace("r", "R")) for s in c["spell"][:1]]
    return sorted(set(f))


def check_cases(ctx, cases, base0, stats):
    lines = []
    bases = []
    for i, c in enumerate(cases):
        base = os.path.join(base0, "c%d" % i)
        build_case(c, base)
        bases.append(base)
        lines.append(model_line(c, base))
    mouts = vlib.model(501, lines)
    for c, base, line, mo in zip(cases, bases, lines, mouts):
        cwd = os.path.normpath(os.path.join(base, c["cwd"]))
        rg, err = run_rg(c, base)
        ora = oracle(c, base)
        if mo.startswith(("MISSING", "STACK", "PARSEFAIL")):
            ctx.violation("model run failed: " + mo, dict(case=c, line=line), nfi=True)
            continue
        mv = parse_val(mo)
        model = norm_paths([x.decode("utf-8", "surrogateescape") if isinstance(x, bytes) else "" for x in mv], cwd, base)
        fs = features(c)
        for f in fs:
            stats[f] = stats.get(f, 0) + 1
        nontrivial = rg is not None and len(rg) > 0 and len([f for f in fs if ":" in f and not f.startswith(("layout", "spell"))]) > 0
        ctx.note_case(line, nontrivial)
        if rg is None and err == "TIMEOUT":
            ctx.notes.append("rg --files did not finish within 300 s (machine load?); case skipped: %r" % (rg_args(c, base),))
            continue
        if rg is None:
            ctx.violation("rg --files failed: " + err[:300], dict(case=c, args=rg_args(c, base)), nfi=True)
            continue
        if len(ctx.cov["samples"]) < 4 and nontrivial and len(rg) >= 2:
            ctx.sample(dict(args=rg_args(c, base), cwd=c["cwd"], listed=rg, features=fs))
        if ora != rg:
            diff = sorted(set(ora) ^ set(rg))
            stats["oracle!=rg"] = stats.get("oracle!=rg", 0) + 1
            if in_rebase_class(c, diff) and model == rg:
                ctx.known(KNOWN_REBASE, "args=%r cwd=%s differing=%r" % (rg_args(c, base), c["cwd"], diff))
            else:
                g = genv_of(c)
                ctx.violation("rg --files differs from the documented precedence of filters on: %r; env: ~/.gitconfig=%s, %s/git/config=%s, "
                              "git/ignore %s; command: cd %s && rg --files %s"
                              % (diff[:4], g["home"], "$XDG_CONFIG_HOME" if g["xdg_set"] else "~/.config (XDG unset)", g["xdg"],
                                 "present" if g["default_present"] else "absent", c["cwd"],
                                 " ".join(a.replace(base, "$CASE") for a in rg_args(c, base))),
                              dict(kind=501, case=c, args=rg_args(c, base), rg=rg, oracle=ora, model=model, line=line))
        if model != rg:
            diff = sorted(set(model) ^ set(rg))
            ctx.violation("model (theorems matched_eq_spec / decide_eq_world) and rg --files disagree on: %r" % diff[:6],
                          dict(kind=501, case=c, args=rg_args(c, base), rg=rg, oracle=ora, model=model, line=line),
                          nfi=(ora == rg))


def lib_line_pair(c, base, o):
    """library-level case: the same world, IgnoreOptions given directly (7 bits o)"""
    cwd_abs = os.path.normpath(os.path.join(base, c["cwd"]))
    custom_empty = c["lib_custom_empty"]
    m = model_line(c, base)
    parts = parse_top(m)
    mline = vlist([vlist([vbool(b) for b in o]), vbool(custom_empty), parts[1], parts[2], parts[3]])
    globs = [vbytes(rule_text(r)) for r in c["globs"]]
    hline = vlist([vbytes(cwd_abs), vbytes(os.path.join(base, "xdg") if genv_of(c)["xdg_set"] else ""), vlist([vbool(b) for b in o]),
                   vlist([] if custom_empty else [vbytes(".rgignore")]),
                   vlist([vbytes(os.path.join(base, "igf%d" % i)) for i in range(len(c["ignore_files"]))]),
                   vlist(globs), vlist([vlist([vbytes(e), vbool(n)]) for e, n in c["types"]]),
                   vopt(None if c["max_depth"] is None else str(c["max_depth"])),
                   vlist([vbytes("./" if sp is None else sp.replace("ABS", base)) for sp in c["spell"]]),
                   vbool(c.get("follow", False)), vbytes(os.path.join(base, "home"))])
    return mline, hline


def parse_top(line):
    """split a '(a b c d)' value line into its top-level items (as text)"""
    items = []
    depth = 0
    cur = ""
    for ch in line[1:-1]:
        if ch == "(":
            depth += 1
        if ch == ")":
            depth -= 1
        if ch == " " and depth == 0:
            if cur:
                items.append(cur)
            cur = ""
        else:
            cur += ch
    if cur:
        items.append(cur)
    return items


def check_lib_cases(ctx, cases, base0, stats):
    rng = ctx.rng
    mlines, hlines, metas = [], [], []
    for i, c in enumerate(cases):
        base = os.path.join(base0, "c%d" % i)
        if not os.path.isdir(base):
            build_case(c, base)
        o = [rng.random() < 0.7 for _ in range(7)]
        c["lib_custom_empty"] = rng.random() < 0.3
        ml, hl = lib_line_pair(c, base, o)
        mlines.append(ml)
        hlines.append(hl)
        metas.append((c, base, o))
    mo = vlib.model(502, mlines)
    co = vlib.code(502, hlines, shards=1)
    for (c, base, o), ml, hl, m, h in zip(metas, mlines, hlines, mo, co):
        cwd = os.path.normpath(os.path.join(base, c["cwd"]))
        if h in ("PANIC", "MISSING") or h.startswith("PARSEFAIL") or m.startswith(("MISSING", "STACK", "PARSEFAIL")):
            ctx.violation("library-level run failed: model=%s code=%s" % (m[:40], h[:40]), dict(kind=502, model_line=ml, code_line=hl), nfi=True)
            continue
        hv = parse_val(h)
        if hv[0] != 0:
            ctx.violation("library-level harness status %r" % hv[0], dict(kind=502, code_line=hl), nfi=True)
            continue
        dec = lambda v: norm_paths([x.decode("utf-8", "surrogateescape") if isinstance(x, bytes) else "" for x in v], cwd, base)
        code = dec(hv[1])
        model = dec(parse_val(m))
        ctx.note_case(ml, len(code) > 0)
        key = "lib-opts:" + "".join("1" if b else "0" for b in o)
        stats["lib-cases"] = stats.get("lib-cases", 0) + 1
        if model != code:
            ctx.violation("model and ignore::WalkBuilder (options set directly) disagree on: %r" % sorted(set(model) ^ set(code))[:6],
                          dict(kind=502, opts=o, custom_empty=c["lib_custom_empty"], case=c, model=model, code=code,
                               model_line=ml, code_line=hl), nfi=True)


def git_worktree_check(ctx, base0, stats):
    """The installed git decides what a repository root is: a real `git worktree add` makes directories whose `.git` is a
       file, stand-alone and nested inside another work tree.  From strict sub-directories of those roots (and from the
       roots themselves) `rg --files` must list exactly the files git reports as untracked and not ignored
       (`git ls-files -o --exclude-standard`; no hidden names besides the rule files).  The hand-made gitlink layout of
       the generated cases is validated here too: git must accept it as a work tree root."""
    git = shutil.which("git")
    if git is None:
        ctx.notes.append("git is not installed: the real-worktree comparison did not run")
        return
    w = os.path.join(base0, "gitwt")
    home = os.path.join(w, "home")
    os.makedirs(home)
    env = dict(os.environ)
    env.update(HOME=home, XDG_CONFIG_HOME=os.path.join(home, ".config"), GIT_CONFIG_NOSYSTEM="1", GIT_CONFIG_GLOBAL="/dev/null",
               GIT_AUTHOR_NAME="n", GIT_AUTHOR_EMAIL="n@example.org", GIT_COMMITTER_NAME="n", GIT_COMMITTER_EMAIL="n@example.org")
    for k in ("GIT_DIR", "GIT_WORK_TREE", "GIT_COMMON_DIR", "RIPGREP_CONFIG_PATH"):
        env.pop(k, None)

    def g(cwd, *args):
        return subprocess.run([git] + list(args), cwd=cwd, env=env, stdin=subprocess.DEVNULL, stdout=subprocess.PIPE,
                              stderr=subprocess.PIPE, timeout=120)

    def put(path, text=""):
        os.makedirs(os.path.dirname(path), exist_ok=True)
        with open(path, "w") as f:
            f.write(text)
    main = os.path.join(w, "main")
    os.makedirs(main)
    ok = g(main, "init", "-q").returncode == 0 and g(main, "commit", "-q", "--allow-empty", "-m", "c").returncode == 0
    wt = os.path.join(w, "wt")               # stand-alone linked worktree
    nested = os.path.join(main, "sub")       # linked worktree nested in the main work tree (like a submodule root)
    ok = ok and g(main, "worktree", "add", "-q", "--detach", wt).returncode == 0
    ok = ok and g(main, "worktree", "add", "-q", "--detach", nested).returncode == 0
    if not ok or not os.path.isfile(os.path.join(wt, ".git")) or not os.path.isfile(os.path.join(nested, ".git")):
        ctx.notes.append("the installed git could not create linked worktrees: the real-worktree comparison did not run")
        return
    put(os.path.join(main, ".gitignore"), "vendor\n")
    put(os.path.join(main, ".git", "info", "exclude"), "excl\n")
    for root in (wt, nested):
        put(os.path.join(root, ".gitignore"), "ignored\n")
        put(os.path.join(root, "src", ".gitignore"), "local\n!vendor2\n")
        for n in ("keep", "ignored", "local", "excl", "vendor", "deep/keep2", "deep/ignored", "deep/vendor", "deep/er/k"):
            put(os.path.join(root, "src", n), "x\n")
        put(os.path.join(root, "top"), "x\n")
    put(os.path.join(main, "m"), "x\n")
    put(os.path.join(main, "vendor"), "x\n")
    # the hand-made layout of write_gitlink: git must take the directory for a work tree root
    hand = os.path.join(w, "hand")
    os.makedirs(os.path.join(hand, "d"))
    store = [os.path.join(w, "gitstore"), 0]
    for i in range(2):
        hd = os.path.join(hand, "h%d" % i)
        os.makedirs(os.path.join(hd, "d"))
        write_gitlink(os.path.join(hd, ".git"), dict(ex=[dict(neg=False, dironly=False, anch=False, name="excl")]), store)
        common = os.path.join(store[0], "main%d" % store[1], ".git")
        for sub in ("objects", "refs/heads"):
            os.makedirs(os.path.join(common, sub), exist_ok=True)
        r = g(os.path.join(hd, "d"), "rev-parse", "--show-toplevel")
        top = r.stdout.decode("utf-8", "replace").strip()
        stats["git accepts the hand-made gitlink layout"] = stats.get("git accepts the hand-made gitlink layout", 0) + (1 if r.returncode == 0 else 0)
        if r.returncode != 0 or os.path.realpath(top) != os.path.realpath(hd):
            ctx.violation("the installed git does not take the generated gitlink layout for a work tree root: %s %s"
                          % (top, r.stderr.decode("utf-8", "replace")[:200]), dict(kind="gitlink-layout"), nfi=True)
    n = 0
    for root in (wt, nested, main):
        for rel in (".", "src", "src/deep", "src/deep/er"):
            cwd = os.path.join(root, rel)
            if not os.path.isdir(cwd):
                continue
            r = g(cwd, "ls-files", "-o", "--exclude-standard")
            if r.returncode != 0:
                ctx.violation("git ls-files failed in a generated worktree: " + r.stderr.decode("utf-8", "replace")[:200],
                              dict(kind="gitlink-layout"), nfi=True)
                continue
            # the nested worktree is a repository of its own: git reports it as one entry `sub/`, rg descends into it
            # (its content is compared from inside it); leave it out on both sides
            inner = (lambda x: x.startswith("sub/")) if root == main else (lambda x: False)
            want = sorted(x for x in r.stdout.decode().split("\n")
                          if x and not inner(x) and not any(p.startswith(".") for p in x.split("/")))
            # in the stand-alone worktree (nothing above it carries rules) --no-require-git must change nothing: the
            # repository's info/exclude is still read through the gitfile (repaired defect GitlinkExcludeNoRequire)
            for extra in [[], ["-j3"], ["--no-ignore-parent"] if rel == "." else ["-j1"]] + ([["--no-require-git"]] if root == wt else []):
                p = subprocess.run([vlib.RG, "--no-config", "--files", "--no-messages"] + extra, cwd=cwd, env=env,
                                   stdin=subprocess.DEVNULL, stdout=subprocess.PIPE, stderr=subprocess.PIPE, timeout=300)
                got = sorted(x for x in p.stdout.decode("utf-8", "replace").split("\n") if x and not inner(x))
                n += 1
                ctx.note_case("gitwt:%s:%s:%s" % (os.path.relpath(root, w), rel, extra), True)
                if p.returncode not in (0, 1) or got != want:
                    ctx.violation("rg --files differs from `git ls-files -o --exclude-standard` in a real linked worktree (root marked by a "
                                  ".git file): cd %s/%s && rg --files %s: rg lists %r, git lists %r"
                                  % (os.path.relpath(root, w), rel, " ".join(extra), got, want),
                                  dict(kind="gitwt", root=os.path.relpath(root, w), rel=rel, args=extra, rg=got, git=want))
    stats["real git worktree comparisons"] = n


def corpus_cases():
    """hand-written corner cases: one conflict per adjacent source pair, depth vs source order, D4 names"""
    def d(name, kids, rules=None, git=False):
        n = dict(name=name, kind="d", kids=kids)
        attach_sources(n, rules or {}, git)
        return n

    def f(name):
        return dict(name=name, kind="f")

    def R(name, neg=False, dironly=False, anch=False):
        return dict(neg=neg, dironly=dironly, anch=anch, name=name)
    res = []
    base = dict(layout="up0", cwd="up1/up0", spell=["r"], no_ignore=False, globs=[], types=[], ignore_files=[], max_depth=None,
                threads=1)
    base["global"] = []
    noflags = dict(hidden=False, dot=False, exclude=False, files=False, glob=False, parent=False, vcs=False, norequire=False, u=0)
    order = ["rg", "ig", "gi", "ex"]
    # shallow high-precedence source vs deep low-precedence source, both polarities
    for hi in range(3):
        for lo in range(hi + 1, 4):
            for hi_neg in (False, True):
                sub = d("sub", [f("a"), f("b")], {order[lo]: [R("a", neg=not hi_neg)]})
                root = d("r", [sub, f("a")], {order[hi]: [R("a", neg=hi_neg)]}, git=True)
                c = dict(base)
                c.update(above=[d("up1", []), d("up0", [])], roots=[root], flags=dict(noflags))
                res.append(c)
    # each source above the root, with and without --no-ignore-parent; repository above the root
    for s in order:
        for par in (False, True):
            fl = dict(noflags)
            fl["parent"] = par
            c = dict(base)
            c.update(above=[d("up1", [], {s: [R("a")]}, git=True), d("up0", [])],
                     roots=[d("r", [f("a"), f("b"), d("sub", [f("a")])])], flags=fl)
            res.append(c)
    # D4 names, hidden whitelisted by each source, types, globs, explicit file root
    c = dict(base)
    c.update(above=[d("up1", []), d("up0", [])], flags=dict(noflags),
             roots=[d("r", [f(".hid."), f("c."), f(".h"), f("..x"), f("n.rs."), f("x.rs")], {"ig": [R(".h", neg=True)]}),
                    f(".f0")], spell=["r", ".f0"], layout="multi")
    res.append(c)
    c = dict(c)
    c.update(types=[("rs", False)], globs=[R("..x", neg=False), R("x.rs")])
    res.append(c)
    # gitignore outside a repository, with and without --no-require-git; global file
    for nr in (False, True):
        fl = dict(noflags)
        fl["norequire"] = nr
        c = dict(base)
        c.update(above=[d("up1", []), d("up0", [])], flags=fl, roots=[d("r", [f("a"), f("b")], {"gi": [R("a")]})])
        c["global"] = [R("b")]
        res.append(c)
    # repository roots marked by a `.git` FILE (linked worktree, submodule), above and inside the search root, the search
    # root a strict sub-directory; with and without --no-require-git, one and three threads.  The first scenario with
    # --no-require-git is the witness of the repaired defect GitlinkExcludeNoRequire (exclude rule `excl` of a linked
    # worktree): a fixed regression case
    for nr in (False, True):
        for th in (1, 3):
            for lay, cwd, sp in (("in", "up1/up0/r", [None]), ("up0", "up1/up0", ["r"])):
                fl = dict(noflags)
                fl["norequire"] = nr
                common = dict(base)
                common.update(layout=lay, cwd=cwd, spell=sp, flags=fl, threads=th)
                # a stand-alone linked worktree: its .gitignore applies below it
                c = dict(common)
                c.update(above=[d("up1", []), d("up0", [], {"gi": [R("ignored")], "ex": [R("excl")]}, git="file")],
                         roots=[d("r", [f("keep"), f("ignored"), f("local"), f("excl"), d("sub", [f("keep2"), f("ignored")])],
                                  {"gi": [R("local")]})])
                res.append(c)
                # a gitlink root inside a repository: the outer .gitignore stops at it
                c = dict(common)
                c.update(above=[d("up1", [], {"gi": [R("vendor")]}, git="dir"), d("up0", [], {"gi": [R("subignored")]}, git="file")],
                         roots=[d("r", [f("vendor"), f("subignored"), f("keep")])])
                res.append(c)
                # gitlink above gitlink; the search root itself a gitlink root
                c = dict(common)
                c.update(above=[d("up1", [], {"gi": [R("a")]}, git="file"), d("up0", [], {"gi": [R("b")]}, git="file")],
                         roots=[d("r", [f("a"), f("b"), f("k")])])
                res.append(c)
                c = dict(common)
                c.update(above=[d("up1", [], {"gi": [R("a")]}, git="file"), d("up0", [])],
                         roots=[d("r", [f("a"), f("k"), d("sub", [f("a"), f("k")], {"gi": [R("k")]}, git="file")], git="file")])
                res.append(c)
    # the known finding: root '.', a dot-name, a rule above the root
    fl = dict(noflags)
    fl["hidden"] = True
    c = dict(base)
    c.update(layout="in", cwd="up1/up0/r", spell=["."], flags=fl,
             above=[d("up1", []), d("up0", [], {"gi": [R(".env"), R("foo")]}, git=True)],
             roots=[d("r", [f(".env"), f(".foo"), f("foo"), f("ok")])])
    res.append(c)
    return res


def run(ctx):
    rng = ctx.rng
    ctx.cov["rule"] = ("a case = a generated tree (<= 24 entries, depth <= 3) with any subset of .rgignore/.ignore/.gitignore/"
                       ".git/info/exclude at depths -2..3 (two directories above the root), repository roots marked by a .git directory "
                       "or a .git file (linked-worktree layout), global gitignore, --ignore-file, "
                       "-g, -t/-T/--type-add, --max-depth, roots '.', './', implicit, relative, absolute, several, a file; "
                       "flags from the ten filter switches. non-trivial = rg lists at least one file and at least one rule "
                       "source or flag is present; distinct by model case text.")
    base0 = scratch_base()
    stats = {}
    try:
        corp = corpus_cases()
        os.makedirs(os.path.join(base0, "corpus"))
        check_cases(ctx, corp, os.path.join(base0, "corpus"), stats)
        git_worktree_check(ctx, base0, stats)
        n = ctx.count(1200)
        done = 0
        batch = 0
        while done < n:
            m = min(200, n - done)
            cases = [gen_case(rng, done + i) for i in range(m)]
            bdir = os.path.join(base0, "b%d" % batch)
            os.makedirs(bdir)
            check_cases(ctx, cases, bdir, stats)
            check_lib_cases(ctx, cases[: max(1, m // 3)], bdir, stats)
            shutil.rmtree(bdir, ignore_errors=True)
            done += m
            batch += 1
        # pathutil::file_name through the model, against the definition of "last component" in python
        names = ["", ".", "..", "a", "a.", ".hid.", "a/.", "a/..", "a/b.", "./.x.", "a/", "/", "..a", "a..", "a/...", "./a"]
        for _ in range(ctx.count(300)):
            names.append("".join(rng.choice("a./") for _ in range(rng.randint(0, 6))))
        mo = vlib.model(503, [vbytes(x) for x in names])
        for nm, o in zip(names, mo):
            v = parse_val(o)
            last = nm[nm.rfind("/") + 1:]
            want = None if (nm == "" or last in (".", "..")) else last
            got = None if not v[0] else ("" if v[0] == [[]] else v[0][0].decode())
            if got != want:
                ctx.violation("file_name model differs from 'last path component' on %r" % nm, dict(kind=503, path=nm, model=o), nfi=True)
            ctx.note_case("fn" + nm, False)
    finally:
        shutil.rmtree(base0, ignore_errors=True)
    ctx.cov["features"] = dict(sorted(stats.items()))
    ctx.assumptions += [
        "every compiled ignore file (Gitignore) is an abstract function path -> is_dir -> None|Ignore|Whitelist in the "
        "theorems; the generated rules are literal names (optionally anchored, dir-only, negated) so that their meaning is "
        "not in question (glob and gitignore syntax: C12, C04)",
        "rules above the search root are unanchored names only: the path surgery for absolute parents is modelled and tested, "
        "not proved (known finding ParentRuleRebase)",
    ]


def replay(ctx, data):
    r = data["replay"]
    base0 = scratch_base()
    try:
        stats = {}
        if r.get("kind") in ("gitwt", "gitlink-layout"):
            git_worktree_check(ctx, base0, stats)
            return
        c = r["case"]
        check_cases(ctx, [c], base0, stats)
    finally:
        shutil.rmtree(base0, ignore_errors=True)



# ----------------------------------------------------------------------------------------------- source tie (DESIGN §4.2)
# the definitions of Gen/DecisionsLib.v this property's Props file ties to the model (`*_generated_eq_model`): when
# tools/gen/decisions_lib.py could not translate the current source text the tie is broken and reported
GEN_LIB_TARGETS = ['should_skip_entry']
_run_checks = run


def run(ctx):
    _run_checks(ctx)
    vlib.report_gen_drift(ctx, "decisions_lib", GEN_LIB_TARGETS, bool(ctx.violations))
