"""Shared by C10 and C09: building printer cases (kind 1001), running model and code, CLI helpers."""
import os
import subprocess
import tempfile

import vlib
from vlib import vbytes, vlist, vopt, parse_val

FLAG_NAMES = ["crlf", "multiline", "invert", "ignore_case", "word", "whole_line", "after", "before", "passthru",
              "line_number", "binary", "dotall", "fixed"]


def flags_val(fl):
    return vlist([str(int(fl.get(n, 0))) for n in FLAG_NAMES])


def onum(x):
    return vopt(None if x is None else str(x))


def obytes(x):
    return vopt(None if x is None else vbytes(x))


def msum(kind, stats=0, path=1, mx=None, ez=1, sep=b":", pt=None):
    """summary mode; kind 0 Count 1 CountMatches 2 PathWithMatch 3 PathWithoutMatch 4 Quiet"""
    return dict(t=0, kind=kind, stats=stats, path=path, mx=mx, ez=ez, sep=sep, pt=pt)


def mstd(heading=0, path=1, only=0, pm=0, pm1=0, mx=None, col=0, bo=0, stats=0, ss=None, sc=b"--", sm=b":", sx=b"-",
         pt=None):
    return dict(t=1, heading=heading, path=path, only=only, pm=pm, pm1=pm1, mx=mx, col=col, bo=bo, stats=stats, ss=ss,
                sc=sc, sm=sm, sx=sx, pt=pt)


def mjson(mx=None, always=0):
    return dict(t=2, mx=mx, always=always)


def mode_val(m):
    if m["t"] == 0:
        return vlist(["0", str(m["kind"]), str(int(m["stats"])), str(int(m["path"])), onum(m["mx"]), str(int(m["ez"])),
                      vbytes(m["sep"]), onum(m["pt"])])
    if m["t"] == 1:
        return vlist(["1", str(int(m["heading"])), str(int(m["path"])), str(int(m["only"])), str(int(m["pm"])),
                      str(int(m["pm1"])), onum(m["mx"]), str(int(m["col"])), str(int(m["bo"])), str(int(m["stats"])),
                      obytes(m["ss"]), obytes(m["sc"]), vbytes(m["sm"]), vbytes(m["sx"]), onum(m["pt"])])
    return vlist(["2", onum(m["mx"]), str(int(m["always"]))])


def case_val(c):
    """c = dict(pattern=str|bytes, flags=dict, files=[(path|None, bytes)], modes=[mode dict])"""
    return vlist([vbytes(c["pattern"]), flags_val(c["flags"]),
                  vlist([vlist([obytes(p), vbytes(i)]) for p, i in c["files"]]),
                  vlist([mode_val(m) for m in c["modes"]]), str(int(c.get("chunk", 0) or 0))])


def unparse(v):
    if isinstance(v, bytes):
        return vbytes(v)
    if isinstance(v, int):
        return str(v)
    return vlist([unparse(x) for x in v])


def as_bytes(v):
    """parse_val gives [] for an empty byte list"""
    return v if isinstance(v, bytes) else b""


def run_cases(ctx, cases, what="printers"):
    """returns list of (status, real_results, model_results) per case; reports harness failures"""
    lines = [case_val(c) for c in cases]
    outs = vlib.code(1001, lines)
    parsed = []
    model_in = []
    idx = []
    for i, o in enumerate(outs):
        if o in ("PANIC", "MISSING") or o.startswith("PARSEFAIL"):
            ctx.violation("harness %s on a %s case" % (o, what), dict(kind=1001, case=cases[i], line=lines[i]))
            parsed.append(None)
            continue
        v = parse_val(o)
        parsed.append(v)
        if v[0] == 0:
            model_in.append(unparse(v[1]))
            idx.append(i)
    mouts = vlib.model(1001, model_in)
    res = [None] * len(cases)
    for i, v in enumerate(parsed):
        if v is not None and v[0] != 0:
            res[i] = (v[0], None, None, lines[i], None, True, None, [])
    for j, i in enumerate(idx):
        mo = mouts[j]
        mv = parse_val(mo) if mo.startswith("(") else mo
        # e_multi = searcher.multi_line_with_matcher(&matcher), as the harness put it into the model case
        # third component of a mode's real result: bytes written to the writer per file (not part of the model's result)
        real = [m[:2] for m in parsed[i][2]]
        written = [m[2] if len(m) > 2 else [] for m in parsed[i][2]]
        short = parsed[i][4] if len(parsed[i]) > 4 else []
        res[i] = (0, real, mv, lines[i], bool(parsed[i][1][0][1]), bool(parsed[i][3]), written, short)
    return res


# ----------------------------------------------------------------------------- CLI

def rg(args, cwd, stdin=None):
    cmd = [vlib.RG, "--no-config", "--color", "never"] + args
    p = subprocess.run(cmd, cwd=cwd, stdin=subprocess.DEVNULL if stdin is None else None, input=stdin,
                       stdout=subprocess.PIPE, stderr=subprocess.PIPE)
    return p.returncode, p.stdout, p.stderr


def cli_flags(fl):
    a = []
    if fl.get("crlf"):
        a.append("--crlf")
    if fl.get("multiline"):
        a.append("-U")
    if fl.get("dotall"):
        a.append("--multiline-dotall")
    if fl.get("invert"):
        a.append("-v")
    if fl.get("ignore_case"):
        a.append("-i")
    if fl.get("word"):
        a.append("-w")
    if fl.get("whole_line"):
        a.append("-x")
    if fl.get("fixed"):
        a.append("-F")
    if fl.get("passthru"):
        a.append("--passthru")
    else:
        if fl.get("after"):
            a += ["-A", str(fl["after"])]
        if fl.get("before"):
            a += ["-B", str(fl["before"])]
    if fl.get("binary", 0) == 0:
        a.append("-a")
    return a


class Tree:
    """a temp directory holding the files of a case"""

    def __init__(self, files):
        os.makedirs(vlib.CACHE, exist_ok=True)
        self.dir = tempfile.mkdtemp(prefix="tree", dir=vlib.CACHE)
        self.names = []
        for p, data in files:
            name = (p or b"stdin").decode("latin1")
            open(os.path.join(self.dir, name), "wb").write(data)
            self.names.append(name)

    def close(self):
        for n in os.listdir(self.dir):
            os.unlink(os.path.join(self.dir, n))
        os.rmdir(self.dir)

    def __enter__(self):
        return self

    def __exit__(self, *a):
        self.close()


def jsonable(c):
    d = dict(c)
    d["files"] = [(None if p is None else p.hex(), data.hex()) for p, data in c["files"]]
    d["modes"] = [{k: (v.hex() if isinstance(v, bytes) else v) for k, v in m.items()} for m in c["modes"]]
    d["_bytes_fields"] = ["sep", "ss", "sc", "sm", "sx"]
    return d


def from_jsonable(d):
    c = dict(d)
    c["files"] = [(None if p is None else bytes.fromhex(p), bytes.fromhex(data)) for p, data in d["files"]]
    ms = []
    for m in d["modes"]:
        m = dict(m)
        for k in d.get("_bytes_fields", []):
            if k in m and isinstance(m[k], str):
                m[k] = bytes.fromhex(m[k])
        ms.append(m)
    c["modes"] = ms
    c.pop("_bytes_fields", None)
    return c
