"""C18 — preprocessor and decompression output is what gets searched; failures surface."""
import bz2
import gzip
import lzma
import os
import shutil

import vlib
from vlib import vbytes, vlist, vopt, vbool, parse_val
from props import cli_common as K
from props.C15 import classify_stderr
from props import child_failure as CF

NEED_RG = True
MANIFEST = dict(
    text="Coq theorems about the close condition REGENERATED from CommandReader::close (close_table) and the selection "
         "expressions regenerated from SearchWorker::{search, should_preprocess, should_decompress} (selection, "
         "direct_search_iff), and about a model of CommandReader::{read, close} with the eof flag and of "
         "search_preprocessor/search_decompress over an abstract child {spawn_ok, stdout, stderr, success when fully read, "
         "success when cut short} and ANY consumer that may stop early: preprocessor_outcome_table, "
         "searched_bytes_are_child_stdout, early_stop_not_error, preprocessor_failure_iff, start_failure, "
         "failure_sets_status_2 (with C15); flag_override_law(_generated): the update rules of --pre/--no-pre/-z/"
         "--no-search-zip REGENERATED from defs.rs, applied to any flag list, equal the documented 'last flag that speaks "
         "about a setting decides it'. Tie: the real grep_cli::CommandReader driven like search_preprocessor on "
         "generated shell children (library level, exact for 1-byte reads), and rg --pre / -z runs with generated scripts "
         "(echo, transform, noisy, exit 0..255 before/during/after output, missing, not executable), early stops via "
         "-m/-q/-l and binary detection, a failing child (--pre and -z) x every early-stopping mode x -j, all orders/"
         "spellings/empty values of --pre/--no-pre/-z/--no-search-zip, valid and truncated gzip/bzip2/xz: (stdout, stderr kind, status) vs the model and "
         "vs rg run directly on the command's output. PARTIAL: 'large stderr never blocks' is liveness of the helper "
         "thread and OS pipes — exercised with up to 4 MiB on stderr under a timeout, not proved.",
    note="known findings: EarlyStopWithStderrOutput (close()'s documented heuristic), DecompressorMissingSearchesRaw "
         "(documented fallback). Trusted: std::process, the shell, gzip/bzip2/xz binaries, translator, Coq kernel.",
    technique="Coq proof over generated decision expressions + executable model; library-level and CLI-level "
              "model/implementation correspondence; rg-on-plain-bytes oracle",
    design="§7 C18, §4.2")
KNOWN_NOISY = "EarlyStopWithStderrOutput"
KNOWN_RAW = "DecompressorMissingSearchesRaw"
GEN_TARGETS = ["close_is_error", "select_strategy", "should_preprocess", "should_decompress", "select_binary",
               "binary_detection", "pre_update_value", "pre_update_switch", "zip_update"]
PIPE_BUF = 65536
# a child is certainly still writing when its reader goes away only if its output exceeds what the reader may have
# taken in its reads before stopping (at most one 64 KiB buffer) plus what a pipe can hold (64 KiB): BIG is 512 KB
CUT_SHORT_FOR_SURE = 4 * PIPE_BUF


def sh_quote_bytes(b):
    """printf argument for arbitrary bytes (octal escapes)"""
    return "'" + "".join("\\%03o" % x for x in b) + "'"


# ----------------------------------------------------------------------------------------------- library level

def check_library(ctx, rng, n, big_path, big_bytes):
    cases = []
    for _ in range(n):
        kind = rng.choice(["small", "small", "small", "bigcat", "bigfail", "spawn", "noisy"])
        want = rng.choice([1, 1, 7, 4096])
        # one short write: the whole output is in the pipe before the reader can have seen any of it
        out = bytes(rng.choice(b"ab\nhit x\x00") for _ in range(rng.randint(0, 40)))
        err = bytes(rng.choice(b"e \n") for _ in range(rng.choice([0, 0, 1, 5])))
        code = rng.choice([0, 0, 1, 2, 127, 255])
        limit = rng.choice([None, None, rng.randint(1, 30)])
        if kind == "small":
            script = "printf %s; printf %s >&2; exit %d" % (sh_quote_bytes(out), sh_quote_bytes(err), code)
            child = dict(spawn=True, out=out, err=err, ok_full=code == 0, ok_early=code == 0)
        elif kind == "noisy":
            k = rng.choice([70000, 300000, 2000000])
            # a command whose writes to stderr fail does not succeed (as any ordinary program would not)
            script = "head -c %d /dev/zero | tr '\\000' e >&2 || exit 97; printf %s; exit %d" % (
                k, sh_quote_bytes(out), code)
            child = dict(spawn=True, out=out, err=b"e" * k, ok_full=code == 0, ok_early=code == 0)
        elif kind == "bigcat":
            want = rng.choice([1, 4096]) if limit else 4096
            script = "printf %s >&2; exec cat %s" % (sh_quote_bytes(err), big_path)
            child = dict(spawn=True, out=big_bytes, err=err, ok_full=True, ok_early=False)
            if limit is None and want == 1:
                want = 4096
        elif kind == "bigfail":
            want = 4096
            script = "cat %s; echo failing >&2; exit 3" % big_path
            child = dict(spawn=True, out=big_bytes, err=b"failing\n", ok_full=False, ok_early=False)
        else:
            script = ""
            child = dict(spawn=False, out=b"", err=b"", ok_full=True, ok_early=True)
        cases.append(dict(kind=kind, script=script, child=child, want=want, limit=limit))
    clines = [vlist([vbytes(c["script"].encode()), str(c["want"]), vopt(None if c["limit"] is None else str(c["limit"]))])
              for c in cases]
    # the model's consumer only counts bytes: a big output is represented by a 400-byte prefix (every limit is < 400)
    mlines = [vlist(["1", vbool(c["child"]["spawn"]), vbytes(c["child"]["out"][:400]), vbytes(c["child"]["err"][:20]),
                     vbool(c["child"]["ok_full"]), vbool(c["child"]["ok_early"]), str(min(c["want"], 64)),
                     vopt(None if c["limit"] is None else str(c["limit"])), "0", "()"]) for c in cases]
    co = vlib.code(1801, clines, shards=8)
    mo = vlib.model(1801, mlines, shards=8)
    stat = ctx.cov.setdefault("library_children", {})
    for c, cl, ml, a, b in zip(cases, clines, mlines, co, mo):
        stat[c["kind"]] = stat.get(c["kind"], 0) + 1
        early = c["limit"] is not None and len(c["child"]["out"]) >= c["limit"]
        ctx.note_case(cl, c["kind"] != "small" or early or not c["child"]["ok_full"])
        if not a.startswith("(") or not b.startswith("("):
            ctx.violation("CommandReader case failed to run: code %s model %s" % (a[:40], b[:40]),
                          dict(kind=1801, case=c, code=a[:200], model=b[:200]), nfi=True)
            continue
        av, bv = parse_val(a), parse_val(b)
        a_fed = av[1] if isinstance(av[1], bytes) else b""
        b_fed = bv[1] if isinstance(bv[1], bytes) else b""
        big = len(c["child"]["out"]) > 400
        ok = av[0] == bv[0]
        if ok and c["want"] == 1 and not big:
            ok = a_fed == b_fed
        elif ok:
            out = c["child"]["out"]
            ok = out.startswith(a_fed) and (len(a_fed) >= min(len(out), c["limit"] if c["limit"] is not None else len(out)))
            if c["limit"] is None and av[0] in (0, 3):
                ok = ok and a_fed == out
        if not ok:
            ctx.violation("CommandReader::{read, close}: model and code disagree (theorem preprocessor_outcome_table no "
                          "longer describes the code): code kind %s fed %d bytes, model kind %s fed %d bytes" % (
                              av[0], len(a_fed), bv[0], len(b_fed)),
                          dict(kind=1801, case={k: (v if k != "child" else {kk: (vv if not isinstance(vv, bytes) else
                                                                             repr(vv[:60])) for kk, vv in v.items()})
                                                for k, v in c.items()}, code=a[:300], model=b[:300]), nfi=True)


def check_close_table(ctx):
    lines, want = [], []
    for so in (0, 1):
        for ws in (0, 1):
            for eof in (0, 1):
                for se in (0, 1):
                    lines.append(vlist([str(so), str(ws), str(eof), str(se)]))
                    # the property's reading: an error iff first close, the command failed, and (its output was
                    # consumed, or it complained)
                    want.append("1" if (so and not ws and (eof or not se)) else "0")
    got = vlib.model(1803, lines)
    if got != want:
        ctx.violation("the generated close condition differs from the documented table", dict(kind=1803, model=got, want=want),
                      nfi=True)


# ----------------------------------------------------------------------------------------------- rg --pre

def gen_pre_case(rng, big_path):
    lines = []
    for i in range(rng.randint(1, 6)):
        lines.append(rng.choice([b"alpha hit one", b"nothing here", b"beta hit", b"zzz", b"HIT upper", b"x"]))
    content = b"".join(l + b"\n" for l in lines)
    kind = rng.choice(["echo", "echo", "transform", "tag", "noisy_ok", "fail_before", "fail_during", "fail_after",
                       "fail_after_silent", "missing", "notexec", "big", "big_noisy", "binary"])
    flag = rng.choice([None, None, "-m1", "-q", "-l", "-c"])
    code = rng.choice([1, 2, 3, 127, 255])
    when = rng.choice(["before", "while", "after"])
    if kind == "noisy_ok" and when != "before" and flag in ("-m1", "-q", "-l"):
        # cut short while it still has stdout and stderr to write: that is the listed class EarlyStopWithStderrOutput,
        # and whether it fails depends on timing — not generated
        flag = None
    return dict(kind=kind, content=content, flag=flag, code=code, threads=rng.choice([1, 1, 3]),
                stderr_kb=rng.choice([1, 64, 200, 1024, 4096]), when=when, no_messages=rng.random() < 0.3)


def pre_script_and_child(c, big_bytes):
    """script text and the abstract child it implements, for a file with the given content"""
    content = c["content"]
    k = c["kind"]
    if k in ("echo",):
        return 'cat "$1"', dict(spawn=True, out=content, err=b"", ok_full=True, ok_early=True)
    if k == "transform":
        return 'tr a-z A-Z < "$1"', dict(spawn=True, out=content.upper(), err=b"", ok_full=True, ok_early=True)
    if k == "tag":
        return 'sed "s/^/hit-tag:/" "$1"', dict(spawn=True, out=b"".join(b"hit-tag:" + l + b"\n" for l in content.split(b"\n")[:-1]),
                                                err=b"", ok_full=True, ok_early=True)
    if k == "noisy_ok":
        # a successful command that writes a lot to stderr before, while or after writing its stdout; like any
        # ordinary program it fails (exit 98) if a write to stderr fails
        n = c["stderr_kb"] * 1024
        noise = 'head -c %d /dev/zero | tr "\\000" w >&2 || exit 98' % n
        half = 'head -c %d /dev/zero | tr "\\000" w >&2 || exit 98' % (n // 2)
        when = c.get("when", "before")
        if when == "before":
            script = noise + '; cat "$1"'
        elif when == "after":
            script = 'cat "$1"; ' + noise
        else:
            k1 = len(content) // 2
            script = '%s; head -c %d "$1"; %s; tail -c +%d "$1"' % (half, k1, half, k1 + 1)
        return script, dict(spawn=True, out=content, err=b"w" * n, ok_full=True, ok_early=True)
    if k == "fail_before":
        return 'echo broken >&2; exit %d' % c["code"], dict(spawn=True, out=b"", err=b"broken\n", ok_full=False, ok_early=False)
    if k == "fail_during":
        half = content[:len(content) // 2]
        return 'head -c %d "$1"; echo broke midway >&2; exit %d' % (len(half), c["code"]), dict(
            spawn=True, out=half, err=b"broke midway\n", ok_full=False, ok_early=False)
    if k == "fail_after":
        return 'cat "$1"; echo late failure >&2; exit %d' % c["code"], dict(spawn=True, out=content, err=b"late failure\n",
                                                                            ok_full=False, ok_early=False)
    if k == "fail_after_silent":
        return 'cat "$1"; exit %d' % c["code"], dict(spawn=True, out=content, err=b"", ok_full=False, ok_early=False)
    if k in ("missing", "notexec"):
        return None, dict(spawn=False, out=b"", err=b"", ok_full=True, ok_early=True)
    if k == "big":
        return 'cat "$1"; exec cat BIG', dict(spawn=True, out=content + big_bytes, err=b"", ok_full=True, ok_early=False)
    if k == "big_noisy":
        return 'echo warning >&2; cat "$1"; exec cat BIG', dict(spawn=True, out=content + big_bytes, err=b"warning\n",
                                                                ok_full=True, ok_early=False)
    if k == "binary":
        return 'printf "\\000\\000"; cat "$1"', dict(spawn=True, out=b"\x00\x00" + content, err=b"", ok_full=True, ok_early=True)
    raise ValueError(k)


def has_hit(data):
    return any(b"hit" in l for l in data.split(b"\n"))


def check_pre(ctx, rng, n, big_path, big_bytes):
    root = K.mktree("c18")
    cases = [gen_pre_case(rng, big_path) for _ in range(n)]
    # corner cases first: the listed known finding, status boundaries
    cases = [dict(kind="big_noisy", content=b"a hit\n", flag="-m1", code=1, threads=1, stderr_kb=1),
             dict(kind="fail_after_silent", content=b"a hit\n", flag="-m1", code=3, threads=1, stderr_kb=1),
             dict(kind="fail_after_silent", content=b"a hit\n", flag=None, code=3, threads=1, stderr_kb=1),
             dict(kind="fail_after", content=b"a hit\n", flag="-q", code=255, threads=1, stderr_kb=1),
             dict(kind="noisy_ok", content=b"a hit\n", flag=None, code=0, threads=1, stderr_kb=4096, when="before"),
             dict(kind="noisy_ok", content=b"a hit\nb\nc hit\n", flag=None, code=0, threads=1, stderr_kb=200, when="before"),
             dict(kind="noisy_ok", content=b"a hit\nb\nc hit\n", flag=None, code=0, threads=1, stderr_kb=200, when="while"),
             dict(kind="noisy_ok", content=b"a hit\nb\nc hit\n", flag="-c", code=0, threads=3, stderr_kb=200, when="after"),
             dict(kind="noisy_ok", content=b"a hit\nb\nc hit\n", flag=None, code=0, threads=1, stderr_kb=2048, when="while"),
             dict(kind="noisy_ok", content=b"a hit\nb\nc hit\n", flag=None, code=0, threads=1, stderr_kb=2048, when="after"),
             dict(kind="missing", content=b"a hit\n", flag=None, code=0, threads=3, stderr_kb=1),
             # --no-messages silences the diagnostic, never the status
             dict(kind="missing", content=b"a hit\n", flag=None, code=0, threads=1, stderr_kb=1, no_messages=True),
             dict(kind="fail_after", content=b"a hit\n", flag=None, code=3, threads=1, stderr_kb=1, no_messages=True),
             dict(kind="fail_after_silent", content=b"zzz\n", flag="-c", code=1, threads=3, stderr_kb=1, no_messages=True),
             dict(kind="fail_before", content=b"a hit\n", flag="-q", code=2, threads=1, stderr_kb=1, no_messages=True),
             dict(kind="echo", content=b"a hit\n", flag=None, code=0, threads=1, stderr_kb=1, no_messages=True)] + cases
    jobs = []
    for i, c in enumerate(cases):
        d = os.path.join(root, "c%d" % i)
        os.mkdir(d)
        os.chmod(d, 0o755)
        with open(os.path.join(d, "input.txt"), "wb") as f:
            f.write(c["content"])
        script, child = pre_script_and_child(c, big_bytes)
        c["child"] = child
        sp = os.path.join(d, "pre.sh")
        if script is not None:
            with open(sp, "w") as f:
                f.write("#!/bin/sh\n" + script.replace("BIG", big_path) + "\n")
            os.chmod(sp, 0o755)
        elif c["kind"] == "notexec":
            with open(sp, "w") as f:
                f.write("#!/bin/sh\ncat\n")
            os.chmod(sp, 0o644)
        with open(os.path.join(d, "plain.txt"), "wb") as f:
            f.write(child["out"])
        for x in ("input.txt", "plain.txt"):
            os.chmod(os.path.join(d, x), 0o644)
        implicit = c["kind"] == "binary"
        base = ["--color", "never", "-j", str(c["threads"])] + ([c["flag"]] if c["flag"] else []) + \
            (["--no-messages"] if c.get("no_messages") else [])
        if implicit:
            # the file is found by directory traversal: binary detection may quit at the NUL
            os.mkdir(os.path.join(d, "t"))
            os.chmod(os.path.join(d, "t"), 0o755)
            os.rename(os.path.join(d, "input.txt"), os.path.join(d, "t", "input.txt"))
            os.mkdir(os.path.join(d, "p"))
            os.chmod(os.path.join(d, "p"), 0o755)
            os.rename(os.path.join(d, "plain.txt"), os.path.join(d, "p", "input.txt"))
            c["args"] = base + ["--pre", "./pre.sh", "-e", "hit", "t"]
            c["ref_args"] = base + ["-e", "hit", "p"]
        else:
            c["args"] = base + ["--pre", "./pre.sh", "-e", "hit", "input.txt"]
            c["ref_args"] = base + ["-e", "hit", "plain.txt"]
        c["dir"] = d
        jobs.append(c)
    res = K.pmap(lambda c: (K.run_rg(c["args"], c["dir"], timeout=240), K.run_rg(c["ref_args"], c["dir"], timeout=240)), jobs)
    # model: the consumer either reads to EOF or stops after the first chunk
    mlines = []
    for c in cases:
        ch = c["child"]
        out = ch["out"]
        first_chunk = out[:PIPE_BUF]
        stops = (c["flag"] in ("-m1", "-q", "-l") and has_hit(first_chunk)) or \
                (c["kind"] == "binary")
        c["stops"] = stops
        # only the length of the output matters to the model's consumer: send a short stand-in of the same regime
        stand_in = out if len(out) <= 200 else out[:100] + b"." * 200
        limit = None if not stops else 1
        mlines.append(vlist(["1", vbool(ch["spawn"]), vbytes(stand_in), vbytes(ch["err"][:50]), vbool(ch["ok_full"]),
                             vbool(ch["ok_early"] if len(out) > CUT_SHORT_FOR_SURE else ch["ok_full"]), "100",
                             vopt(None if limit is None else str(limit)), "0", "()"]))
    mo = vlib.model(1801, mlines)
    stat = ctx.cov.setdefault("pre_kinds", {})
    for c, (r, ref), ml, m in zip(cases, res, mlines, mo):
        if c.get("no_messages"):
            ctx.cov["pre_runs_with_no_messages"] = ctx.cov.get("pre_runs_with_no_messages", 0) + 1
        key = "%s/%s" % (c["kind"] + ("-" + c.get("when", "") + "-%dK" % c["stderr_kb"] if c["kind"] == "noisy_ok" else ""),
                         c["flag"])
        stat[key] = stat.get(key, 0) + 1
        ctx.note_case(repr((c["kind"], c["flag"], c["content"], c["code"])), c["kind"] != "echo")
        replay = dict(kind="pre", case={k: (repr(v) if isinstance(v, bytes) else v) for k, v in c.items()
                                        if k not in ("child", "dir")},
                      rg=dict(status=r["status"], out=repr(r["out"][:300]), err=repr(r["err"][:300])),
                      ref=dict(status=ref["status"], out=repr(ref["out"][:300])), model=m)
        if r["timeout"]:
            ctx.violation("rg --pre did not finish within 240 s (stderr volume %d KiB)" % c["stderr_kb"], replay)
            continue
        if not m.startswith("("):
            ctx.violation("model failed: " + m, replay, nfi=True)
            continue
        mk = parse_val(m)[0]
        diags = classify_stderr(r["err"])
        named = any(p.endswith("input.txt") for _, p in diags) or b"input.txt" in r["err"]
        quiet_match = c["flag"] == "-q" and ref["status"] == 0
        if mk == 0:
            # success: exactly the results of searching the command's output, under the original path
            exp_out = ref["out"].replace(b"plain.txt", b"input.txt").replace(b"p/input.txt", b"t/input.txt")
            if r["err"] or r["status"] != ref["status"] or r["out"] != exp_out:
                # the one listed class: cut short, killed by the closed pipe, had written to stderr
                ctx.violation("search through --pre differs from rg on the command's output (model says success)",
                              replay)
        elif (c["kind"] == "big_noisy" and c["stops"] and not r["err"] and r["status"] == ref["status"]
              and r["out"] == ref["out"].replace(b"plain.txt", b"input.txt").replace(b"p/input.txt", b"t/input.txt")):
            # timing: the command managed to write everything (84 KB: rg's first read may take 64 KiB of it and the pipe
            # holds the rest) and exited 0 before rg closed the pipe — then it simply is a successful command whose
            # output was searched; the model's outcome 4 assumes it was cut short.  Accepted, counted.
            ctx.cov["big_noisy_finished_before_close"] = ctx.cov.get("big_noisy_finished_before_close", 0) + 1
        else:
            want_status = 2       # the only file's search failed: nothing counts as matched, even under -q
            problem = None
            if c.get("no_messages"):
                if r["err"]:
                    problem = "--no-messages, but stderr is not empty"
                elif r["status"] != want_status:
                    problem = "--no-messages: status %d, expected %d (only the diagnostic may disappear)" % (
                        r["status"], want_status)
            elif not r["err"] or not named:
                problem = "no diagnostic naming the file"
            elif r["status"] != want_status:
                problem = "status %d, expected %d" % (r["status"], want_status)
            if problem:
                ctx.violation("failing preprocessor (model outcome %d): %s" % (mk, problem), replay)
            elif c["kind"] == "big_noisy" and c["stops"]:
                # model and code agree; the property's sentence about early termination does not hold here
                ctx.known(KNOWN_NOISY, "rg %s with a preprocessor that writes a warning to stderr and is cut short" %
                          " ".join(c["args"]))
        # the property directly: a silent command cut short is never an error
        if c["kind"] == "big" and c["stops"] and (r["err"] or r["status"] == 2):
            ctx.violation("a command terminated because rg stopped reading was treated as an error", replay)
        if c["kind"] in ("missing", "notexec", "fail_before") and r["status"] != 2:
            ctx.violation("a missing command / a command failing before any output did not give status 2", replay)
        if c["kind"] in ("fail_after", "fail_during", "fail_after_silent") and not c["stops"] and r["status"] != 2:
            ctx.violation("a command that failed after its output was consumed did not give status 2", replay)
    K.rmtree(root)


# ----------------------------------------------------------------------------------------------- selection

def check_selection(ctx, rng, n):
    root = K.mktree("c18")
    names = ["a.txt", "b.dat", "c.gz", "d.log", "e.txt.gz", "f"]
    for nm in names:
        with open(os.path.join(root, nm), "wb") as f:
            f.write(b"hit raw\n" if not nm.endswith(".gz") else gzip.compress(b"hit unzipped\n"))
        os.chmod(os.path.join(root, nm), 0o644)
    with open(os.path.join(root, "pre.sh"), "w") as f:
        f.write('#!/bin/sh\nprintf "hit pre\\n"\n')
    os.chmod(os.path.join(root, "pre.sh"), 0o755)
    globsets = [[], ["*.txt"], ["!*.txt"], ["*.gz"], ["*.txt", "!a.txt"], ["*.dat", "*.log"], ["!*.gz", "*"], ["f"],
                ["*.txt.gz"]]
    cases = []
    for _ in range(n):
        c = dict(globs=rng.choice(globsets), pre_given=rng.random() < 0.7, zip_given=rng.random() < 0.6,
                 zip_last=rng.random() < 0.5)
        # flags/defs.rs: --pre switches -z off and -z switches --pre off: the later flag wins
        c["pre"] = c["pre_given"] and not (c["zip_given"] and c["zip_last"])
        c["zip"] = c["zip_given"] and not (c["pre_given"] and not c["zip_last"])
        cases.append(c)
    have_gzip = shutil.which("gzip") is not None
    def run(c):
        a = ["--color", "never", "-j1", "--sort", "path", "--no-ignore"]
        pre = []
        if c["pre_given"]:
            pre = ["--pre", "./pre.sh"]
            for g in c["globs"]:
                pre += ["--pre-glob", g]
        z = ["-z"] if c["zip_given"] else []
        a += (pre + z) if c["zip_last"] else (z + pre)
        return K.run_rg(a + ["-e", "hit"] + names, root)
    res = K.pmap(run, cases)
    # inputs of the decision from the real crates, decision from the generated definitions
    hl, owners = [], []
    for ci, c in enumerate(cases):
        for nm in names:
            hl.append(vlist([vbytes(nm.encode()), vlist([vbytes(g.encode()) for g in (c["globs"] if c["pre"] else [])])]))
            owners.append((ci, nm))
    ho = vlib.code(1802, hl)
    ml = []
    for (ci, nm), h in zip(owners, ho):
        hv = parse_val(h)
        c = cases[ci]
        ml.append(vlist(["0", vbool(c["pre"]), str(hv[0]), str(hv[1]), vbool(c["zip"]), str(hv[2])]))
    mo = vlib.model(1802, ml)
    want = {}
    for (ci, nm), m in zip(owners, mo):
        want.setdefault(ci, {})[nm] = int(m)
    for ci, (c, r) in enumerate(zip(cases, res)):
        ctx.note_case("sel" + repr(c), c["pre"] or c["zip"])
        got = {}
        for line in r["out"].split(b"\n"):
            if b":" in line:
                p, t = line.split(b":", 1)
                got[p.decode()] = {b"hit pre": 1, b"hit unzipped": 2, b"hit raw": 3}.get(t, 9)
        for nm in names:
            w = want[ci][nm]
            g = got.get(nm)
            if nm.endswith(".gz") and w == 3:
                continue        # the raw gzip bytes contain no match (or a binary-file notice): nothing to read off
            if w == 2 and not have_gzip:
                continue
            if g != w:
                ctx.violation("selection: %s was searched by routine %s, the generated select_strategy says %s (1 --pre, "
                              "2 decompress, 3 direct)" % (nm, g, w),
                              dict(kind="selection", case=c, out=repr(r["out"]), err=repr(r["err"])),
                              nfi=False)
                break
            # the property: not selected by --pre-glob / not recognised as compressed -> searched directly
            independent = 1 if (c["pre"] and _glob_selects(c["globs"], nm)) else (2 if c["zip"] and nm.endswith(".gz") else 3)
            if independent != w:
                ctx.violation("selection: independent reading of --pre-glob says %d for %s, model says %d" % (independent, nm, w),
                              dict(kind="selection", case=c), nfi=True)
                break
    K.rmtree(root)


def _path_glob_match(glob, rel):
    """documented override-glob reading for simple globs: a glob with a '/' is matched against the path relative to the
    working directory, component by component; a glob without '/' against the file name at any depth"""
    import fnmatch
    if "/" not in glob:
        return fnmatch.fnmatchcase(rel.split("/")[-1], glob)
    gp, rp = glob.split("/"), rel.split("/")
    return len(gp) == len(rp) and all(fnmatch.fnmatchcase(r, g) for g, r in zip(gp, rp))


def check_selection_roots(ctx, rng):
    """--pre-glob with a directory component, the search root given as '.', a relative directory, an absolute directory, a
    relative file, an absolute file: the glob is relative to the working directory whatever the root looks like"""
    root = K.mktree("c18")
    os.mkdir(os.path.join(root, "enc"))
    os.chmod(os.path.join(root, "enc"), 0o755)
    files = ["enc/x.r13", "enc/y.r13", "enc/z.txt", "top.r13"]
    for nm in files:
        with open(os.path.join(root, nm), "w") as f:
            f.write("hit raw\n")
        os.chmod(os.path.join(root, nm), 0o644)
    with open(os.path.join(root, "pre.sh"), "w") as f:
        f.write('#!/bin/sh\nprintf "hit pre\\n"\n')
    os.chmod(os.path.join(root, "pre.sh"), 0o755)
    globsets = [["enc/*.r13"], ["enc/*"], ["*.r13"], ["enc/*.r13", "!enc/y.r13"], ["!enc/*.txt"], ["top.r13"]]
    roots = [["."], ["enc", "top.r13"], [root], [os.path.join(root, "enc")], ["enc/x.r13"],
             [os.path.join(root, "enc", "x.r13")], [os.path.join(root, "enc", "x.r13"), os.path.join(root, "top.r13")]]
    cases = [dict(globs=g, roots=r, threads=t) for g in globsets for r in roots for t in (1, 3)]
    def run(c):
        a = ["--color", "never", "-j", str(c["threads"]), "-H", "--no-ignore", "--sort", "path",
             "--pre", os.path.join(root, "pre.sh")]
        for g in c["globs"]:
            a += ["--pre-glob", g]
        return K.run_rg(a + ["-g", "!pre.sh", "-e", "hit"] + c["roots"], root)
    res = K.pmap(run, cases)
    for c, r in zip(cases, res):
        ctx.note_case("selroot" + repr(c), True)
        ctx.cov["selection_root_runs"] = ctx.cov.get("selection_root_runs", 0) + 1
        got = {}
        for line in r["out"].split(b"\n"):
            if b":" in line:
                pth, t = line.rsplit(b":", 1)
                pth = pth.decode()
                rel = os.path.relpath(pth, root) if os.path.isabs(pth) else os.path.normpath(pth)
                got[rel] = {b"hit pre": 1, b"hit raw": 3}.get(t, 9)
        bad = None
        if r["err"] or r["status"] != 0:
            bad = "unexpected status %d / diagnostics %r" % (r["status"], r["err"][:100])
        for rel, routine in sorted(got.items()):
            verdict = None
            for g in c["globs"]:
                neg = g.startswith("!")
                if _path_glob_match(g[1:] if neg else g, rel):
                    verdict = not neg
            if verdict is None:
                verdict = not any(not g.startswith("!") for g in c["globs"])
            # the generated selection on these inputs
            m = vlib.model(1802, [vlist(["0", "1", "0", vbool(not verdict), "0", "0"])])[0]
            want = 1 if verdict else 3
            if m != str(want):
                bad = "generated select_strategy gives %s for glob_is_ignore=%s" % (m, not verdict)
            elif routine != want:
                bad = "%s was searched %s, but --pre-glob %s %s it" % (
                    rel, "through --pre" if routine == 1 else "directly", " ".join(c["globs"]),
                    "selects" if verdict else "does not select")
        if not got:
            bad = bad or "no output"
        if bad:
            ctx.violation("selection (--pre-glob relative to the working directory, root %s): %s" % (" ".join(c["roots"]), bad),
                          dict(kind="selection-roots", globs=c["globs"], roots=c["roots"], threads=c["threads"],
                               files=files, out=repr(r["out"]), err=repr(r["err"][:200])))
    K.rmtree(root)


def _glob_selects(globs, name):
    """independent reading of the documented --pre-glob semantics for these simple globs: the last matching glob
    decides; with at least one positive glob an unmatched file is not selected"""
    import fnmatch
    if not globs:
        return True
    verdict = None
    for g in globs:
        neg = g.startswith("!")
        pat = g[1:] if neg else g
        if fnmatch.fnmatchcase(name, pat):
            verdict = not neg
    if verdict is None:
        return not any(not g.startswith("!") for g in globs)
    return verdict


# ----------------------------------------------------------------------------------------------- -z

def check_decompress(ctx, rng, n):
    tools = {"gz": ("gzip", gzip.compress), "bz2": ("bzip2", bz2.compress), "xz": ("xz", lzma.compress)}
    avail = {ext: shutil.which(t[0]) is not None for ext, t in tools.items()}
    ctx.cov["decompressors_available"] = avail
    root = K.mktree("c18")
    cases = []
    for i in range(n):
        ext = rng.choice(list(tools))
        nl = rng.choice([3, 3, 50, 40000])
        lines = []
        for j in range(nl):
            lines.append(b"line %d hit" % j if (j % 7 == 0 and rng.random() < 0.8) or j == 0 and rng.random() < 0.5
                         else b"line %d other" % j)
        data = b"".join(l + b"\n" for l in lines)
        comp = tools[ext][1](data)
        trunc = rng.random() < 0.4
        if trunc:
            comp = comp[:max(1, int(len(comp) * rng.choice([0.3, 0.6, 0.9])))]
        flag = rng.choice([None, None, "-m1", "-q", "-l", "-c"])
        cases.append(dict(ext=ext, data=data, comp=comp, trunc=trunc, flag=flag, i=i, threads=rng.choice([1, 2]),
                          no_messages=rng.random() < 0.3))
    jobs = []
    for c in cases:
        name = "f%d.%s" % (c["i"], c["ext"])
        with open(os.path.join(root, name), "wb") as f:
            f.write(c["comp"])
        os.chmod(os.path.join(root, name), 0o644)
        c["name"] = name
        jobs.append(c)
    def run(c):
        base = ["--color", "never", "-j", str(c["threads"])] + ([c["flag"]] if c["flag"] else []) + \
            (["--no-messages"] if c["no_messages"] else [])
        r = K.run_rg(base + ["-z", "-e", "hit", c["name"]], root)
        # what the system's tool writes for this input
        import subprocess
        p = subprocess.run([tools[c["ext"]][0], "-d", "-c", c["name"]], cwd=root, stdin=subprocess.DEVNULL,
                           stdout=subprocess.PIPE, stderr=subprocess.PIPE)
        plain = "p%d.txt" % c["i"]
        with open(os.path.join(root, plain), "wb") as f:
            f.write(p.stdout)
        os.chmod(os.path.join(root, plain), 0o644)
        ref = K.run_rg(base + ["-e", "hit", plain], root)
        return r, ref, p.returncode, p.stderr, p.stdout
    live = [c for c in jobs if avail[c["ext"]]]
    res = K.pmap(run, live)
    stat = ctx.cov.setdefault("decompress_cases", {})
    for c, (r, ref, tool_rc, tool_err, tool_out) in zip(live, res):
        key = "%s/%s/%s%s" % (c["ext"], "truncated" if c["trunc"] else "valid", c["flag"],
                              "/no-messages" if c["no_messages"] else "")
        stat[key] = stat.get(key, 0) + 1
        ctx.note_case("z" + repr((c["ext"], c["trunc"], c["flag"], len(c["data"]))), True)
        plain = "p%d.txt" % c["i"]
        replay = dict(kind="decompress", ext=c["ext"], truncated=c["trunc"], flag=c["flag"], lines=c["data"].count(b"\n"),
                      rg=dict(status=r["status"], out=repr(r["out"][:200]), err=repr(r["err"][:300])),
                      ref=dict(status=ref["status"], out=repr(ref["out"][:200])), tool_rc=tool_rc, tool_err=repr(tool_err[:200]))
        stops = c["flag"] in ("-m1", "-q", "-l") and has_hit(tool_out[:PIPE_BUF])
        quiet_match = c["flag"] == "-q" and ref["status"] == 0
        if tool_rc == 0:
            exp = ref["out"].replace(plain.encode(), c["name"].encode())
            if r["err"] or r["status"] != ref["status"] or r["out"] != exp:
                ctx.violation("rg -z on a valid .%s differs from rg on the decompressed bytes" % c["ext"], replay)
        else:
            # the tool fails (truncated input): read to the end -> error; cut short and it had complained -> error
            # (model: EClose); cut short before it complained -> timing decides (both accepted)
            named_ok = (not r["err"]) if c["no_messages"] else (c["name"].encode() in r["err"])
            if not stops:
                if r["status"] != 2 or not named_ok:
                    ctx.violation("rg -z on a truncated .%s: expected a diagnostic naming the file and status 2" % c["ext"],
                                  replay)
            else:
                if r["status"] not in (ref["status"], 2) or (r["status"] == 2 and not named_ok) \
                        or (r["status"] != 2 and r["err"]):
                    ctx.violation("rg -z on a truncated .%s with an early stop: unexpected status %d" % (c["ext"], r["status"]),
                                  replay)
    # a chatty decompressor: a wrapper `gzip`, first in PATH, that writes 1 MiB (or 200 KiB) of diagnostics to stderr
    # before / after the real tool's output.  The search must neither block nor fail (liveness: generous time limit)
    if avail["gz"]:
        real = shutil.which("gzip")
        wdir = os.path.join(root, "fakebin")
        os.mkdir(wdir)
        os.chmod(wdir, 0o755)
        data = b"".join(b"line %d hit\n" % j if j % 5 == 0 else b"line %d other\n" % j for j in range(300))
        with open(os.path.join(root, "chatty.gz"), "wb") as f:
            f.write(gzip.compress(data))
        with open(os.path.join(root, "chatty_plain.txt"), "wb") as f:
            f.write(data)
        for x in ("chatty.gz", "chatty_plain.txt"):
            os.chmod(os.path.join(root, x), 0o644)
        LIMIT = 150
        variants = []
        for vi, (kb, when) in enumerate(((1024, "before"), (200, "before"), (1024, "after"), (4096, "before"))):
            noise = 'head -c %d /dev/zero | tr "\\000" w >&2 || exit 98' % (kb * 1024)
            body = (noise + '\nexec %s "$@"\n' % real) if when == "before" else ('%s "$@" || exit $?\n%s\n' % (real, noise))
            vdir = os.path.join(wdir, "v%d" % vi)
            os.mkdir(vdir)
            os.chmod(vdir, 0o755)
            with open(os.path.join(vdir, "gzip"), "w") as f:
                f.write("#!/bin/sh\n" + body)
            os.chmod(os.path.join(vdir, "gzip"), 0o755)
            for thr, flag in ((1, None), (3, "-c")):
                variants.append(dict(kb=kb, when=when, body=body, vdir=vdir, thr=thr, flag=flag))

        def run_chatty(v):
            base = ["--color", "never", "-j", str(v["thr"])] + ([v["flag"]] if v["flag"] else [])
            r = K.run_rg(base + ["-z", "-e", "hit", "chatty.gz"], root, timeout=LIMIT,
                         env={"PATH": v["vdir"] + ":" + os.environ.get("PATH", "/usr/bin:/bin")})
            ref = K.run_rg(base + ["-e", "hit", "chatty_plain.txt"], root)
            return base, r, ref
        for v, (base, r, ref) in zip(variants, K.pmap(run_chatty, variants)):
            kb, when = v["kb"], v["when"]
            ctx.note_case("z-chatty" + repr((kb, when, v["thr"], v["flag"])), True)
            ctx.cov["chatty_decompressor_runs"] = ctx.cov.get("chatty_decompressor_runs", 0) + 1
            replay = dict(kind="decompress-chatty", stderr_kib=kb, when=when, wrapper=v["body"],
                          args=" ".join(base + ["-z", "-e", "hit", "chatty.gz"]), status=r["status"],
                          out=repr(r["out"][:200]), err=repr(r["err"][:200]), secs=round(r["secs"], 1))
            if r["timeout"]:
                ctx.violation("rg -z blocked for more than %d s on a decompressor that writes %d KiB to stderr %s its "
                              "output (a run that normally takes well under a second)" % (LIMIT, kb, when), replay)
            elif r["err"] or r["status"] != ref["status"] or \
                    r["out"] != ref["out"].replace(b"chatty_plain.txt", b"chatty.gz"):
                ctx.violation("rg -z with a chatty but successful decompressor differs from rg on the decompressed "
                              "bytes", replay)
    # the decompressor cannot be started: documented fallback, recorded as a known finding of the literal statement
    name = "fallback.gz"
    with open(os.path.join(root, name), "wb") as f:
        f.write(gzip.compress(b"hit inside\n"))
    os.chmod(os.path.join(root, name), 0o644)
    r = K.run_rg(["--color", "never", "-z", "-e", "hit", name], root, env={"PATH": "/nonexistent-verif"})
    ctx.note_case("z-missing", True)
    if r["status"] == 2 and name.encode() in r["err"]:
        pass
    elif not r["err"]:
        ctx.known(KNOWN_RAW, "PATH=/nonexistent rg -z hit %s: no diagnostic, status %d" % (name, r["status"]))
    else:
        ctx.violation("-z with no decompressor in PATH: unexpected outcome", dict(kind="decompress-missing", status=r["status"],
                                                                                 err=repr(r["err"])))
    K.rmtree(root)


# ----------------------------------------------------------------------------------------------- failing child x early stop

def check_child_failure(ctx, rng, n):
    """the shared family (props/child_failure.py): property-level expectations there; here additionally the model's
    search_preprocessor / search_decompress (kind 1801) on the same abstract child and consumer"""
    live = CF.run_family(ctx, rng, n, "C18")
    mlines = []
    for c in live:
        ch = c["child"]
        out = ch["out"]
        stand_in = out if len(out) <= 200 else out[:100] + b"." * 200
        # the child does not depend on the reader: success when cut short = success when fully read
        mlines.append(vlist(["1", "1", vbytes(stand_in), vbytes(ch["err"][:50]), vbool(ch["ok"]), vbool(ch["ok"]), "100",
                             vopt("1" if c["stops"] else None), "1" if c["route"] == "zip" else "0", "()"]))
    mo = vlib.model(1801, mlines)
    for c, ml, m in zip(live, mlines, mo):
        if not m.startswith("("):
            ctx.violation("model failed on a child-failure case: " + m[:60], dict(kind=1801, case=ml), nfi=True)
            continue
        mk = parse_val(m)[0]
        if (mk != 0) != c["failed"]:
            ctx.violation("search_%s model outcome %d, but the documented rule says %s (theorems preprocessor_failure_iff / "
                          "decompress_outcome_table no longer describe the documented behaviour)" % (
                              "decompress" if c["route"] == "zip" else "preprocessor", mk,
                              "error" if c["failed"] else "success"), dict(kind=1801, case=ml, model=m), nfi=True)


# ----------------------------------------------------------------------------------------------- flag order

def doc_flag_state(events):
    """independent reading of the flag documentation: the last flag that speaks about a setting decides it.
    --pre CMD sets the preprocessor (an empty CMD or --no-pre disables it; -z overrides it); -z switches decompression
    on, --no-search-zip off, a --pre with a real command overrides (= switches off) -z"""
    pre, z = None, False
    for e in reversed(events):
        if e[0] == "pre":
            pre = e[1] or None
            break
        if e[0] in ("nopre", "zip"):
            break
    for e in reversed(events):
        if e[0] == "zip":
            z = True
            break
        if e[0] == "nozip" or (e[0] == "pre" and e[1]):
            break
    return pre, z


def check_flag_order(ctx, rng, n):
    """every order / spelling / empty-value combination of --pre CMD, --pre=, --pre '', --no-pre, -z, --search-zip,
    --no-search-zip (and an interleaved --pre-glob): model final_state (kind 1804) = spec (proved: flag_override_law) =
    independent reading of the docs = what rg does, observed on a plain file and a .gz file with two tagging preprocessors"""
    root = K.mktree("c18")
    plain = b"hit raw\n"
    gz = gzip.compress(b"hit unzipped\n", mtime=0)
    if b"hit" in gz or shutil.which("gzip") is None:
        ctx.violation("flag-order fixture unusable (gzip missing or the archive contains the needle literally)",
                      dict(kind="flag-order-fixture"), nfi=True)
        K.rmtree(root)
        return
    for nm, data in (("a.txt", plain), ("c.gz", gz)):
        with open(os.path.join(root, nm), "wb") as f:
            f.write(data)
        os.chmod(os.path.join(root, nm), 0o644)
    for tag in ("A", "B"):
        with open(os.path.join(root, "pre%s.sh" % tag), "w") as f:
            f.write('#!/bin/sh\nprintf "hit pre%s\\n"\n' % tag)
        os.chmod(os.path.join(root, "pre%s.sh" % tag), 0o755)
    A, B = ("pre", "./preA.sh"), ("pre", "./preB.sh")
    E, NP, Z, NZ = ("pre", ""), ("nopre",), ("zip",), ("nozip",)
    fixed = [[], [Z], [A], [Z, E], [A, Z, E], [A, E, Z], [Z, NP], [Z, A], [A, Z], [Z, A, NP], [Z, A, E], [E, Z], [Z, NZ],
             [Z, NZ, E], [NZ, Z, E], [A, B], [A, NZ], [Z, E, E], [B, Z, NP, A], [A, NP, Z, E], [Z, A, Z], [Z, E, A, Z, E]]
    cases = []
    for evs in fixed:
        for eq in (False, True):
            cases.append(dict(events=evs, eq=eq, long_z=eq, glob_at=None))
    for _ in range(n):
        evs = [rng.choice([A, B, E, E, NP, Z, Z, NZ]) for _ in range(rng.randint(1, 6))]
        cases.append(dict(events=evs, eq=rng.random() < 0.5, long_z=rng.random() < 0.3,
                          glob_at=rng.randint(0, len(evs)) if rng.random() < 0.25 else None))
    def argv(c):
        a = []
        for i, e in enumerate(c["events"]):
            if c["glob_at"] == i:
                a += ["--pre-glob", "*.txt"]
            if e[0] == "pre":
                a += ["--pre=" + e[1]] if c["eq"] else ["--pre", e[1]]
            elif e[0] == "nopre":
                a.append("--no-pre")
            elif e[0] == "zip":
                a.append("--search-zip" if c["long_z"] else "-z")
            else:
                a.append("--no-search-zip")
        if c["glob_at"] == len(c["events"]):
            a += ["--pre-glob", "*.txt"]
        return a
    for c in cases:
        c["argv"] = argv(c)
    res = K.pmap(lambda c: K.run_rg(["--color", "never", "-j1", "--sort", "path", "--no-ignore", "-H"] + c["argv"] +
                                    ["-e", "hit", "a.txt", "c.gz"], root), cases)
    enc = {"pre": lambda e: vlist(["0", vbytes(e[1].encode())]), "nopre": lambda e: vlist(["1"]),
           "zip": lambda e: vlist(["2"]), "nozip": lambda e: vlist(["3"])}
    mlines = [vlist([enc[e[0]](e) for e in c["events"]]) for c in cases]
    mo = vlib.model(1804, mlines)
    for c, ml, m, r in zip(cases, mlines, mo, res):
        ctx.note_case("flags" + repr((c["argv"])), len(c["events"]) > 1)
        ctx.cov["flag_order_runs"] = ctx.cov.get("flag_order_runs", 0) + 1
        replay = dict(kind="flag-order", args=" ".join(c["argv"]) + " -e hit a.txt c.gz", model=m, status=r["status"],
                      out=repr(r["out"][:200]), err=repr(r["err"][:200]))
        if not m.startswith("("):
            ctx.violation("flag state machine model failed: " + m[:60], replay, nfi=True)
            continue
        mv = parse_val(m)
        dec = lambda o: (bytes(o[0]).decode() if isinstance(o, list) and o else None)
        m_pre, m_zip, s_pre, s_zip = dec(mv[0]), bool(mv[1]), dec(mv[2]), bool(mv[3])
        d_pre, d_zip = doc_flag_state(c["events"])
        if (m_pre, m_zip) != (s_pre, s_zip) or (m_pre, m_zip) != (d_pre, d_zip):
            ctx.violation("flag order: model final_state (%r, %r), Coq spec (%r, %r), independent reading of the docs (%r, %r) "
                          "disagree" % (m_pre, m_zip, s_pre, s_zip, d_pre, d_zip), replay, nfi=True)
            continue
        # what each file must show
        globbed = c["glob_at"] is not None
        tag = lambda p: b"hit pre" + p[5:6].encode()
        want_a = tag(d_pre) if d_pre else b"hit raw"
        if d_pre and not globbed:
            want_c = tag(d_pre)
        elif d_zip:
            want_c = b"hit unzipped"
        else:
            want_c = None          # raw gzip bytes: no match
        got = {}
        for line in r["out"].split(b"\n"):
            if b":" in line:
                pth, t = line.split(b":", 1)
                got[pth.decode()] = t
        if r["err"] or r["status"] != 0 or got.get("a.txt") != want_a or got.get("c.gz") != want_c:
            ctx.violation("flag order: rg %s: a.txt shows %r (expected %r), c.gz shows %r (expected %r: the flags leave "
                          "preprocessor=%r, decompression=%s in effect), status %d, stderr %r" % (
                              " ".join(c["argv"]), got.get("a.txt"), want_a, got.get("c.gz"), want_c, d_pre,
                              "on" if d_zip else "off", r["status"], r["err"][:100]), replay)
    K.rmtree(root)


# ----------------------------------------------------------------------------------------------- entry points

def run(ctx):
    rng = ctx.rng
    if not K.have_setpriv():
        ctx.violation("setpriv is not available", dict(kind="env"), nfi=True)
        return
    ctx.cov["rule"] = ("library level: real CommandReader on sh children (small output with exit 0..255 and stderr; up to 2 MB on "
                       "stderr; exec cat of a 525 KB file cut short -> SIGPIPE; failing after 525 KB; unspawnable), reads of "
                       "1/7/4096 bytes, stop after n bytes or at EOF. CLI: rg --pre with 14 script kinds x none/-m1/-q/-l/-c x "
                       "-j1/-j3, selection over 6 file names x 9 --pre-glob sets x -z, -z over gzip/bzip2/xz valid and "
                       "truncated x flags. non-trivial = anything but a plain echo.")
    root = K.mktree("c18big")
    big_path = os.path.join(root, "big.txt")
    big_bytes = b"".join(b"filler line %06d without the word\n" % i for i in range(15000))     # 525 KB, see CUT_SHORT_FOR_SURE
    assert len(big_bytes) > CUT_SHORT_FOR_SURE + 2 * PIPE_BUF
    with open(big_path, "wb") as f:
        f.write(big_bytes)
    os.chmod(big_path, 0o644)
    check_close_table(ctx)
    check_library(ctx, rng, ctx.count(120), big_path, big_bytes)
    check_pre(ctx, rng, ctx.count(120), big_path, big_bytes)
    check_selection(ctx, rng, ctx.count(40))
    check_selection_roots(ctx, rng)
    check_decompress(ctx, rng, ctx.count(40))
    check_child_failure(ctx, rng, ctx.count(40))
    check_flag_order(ctx, rng, ctx.count(60))
    K.rmtree(root)
    K.report_drift(ctx, GEN_TARGETS, bool(ctx.violations))
    ctx.assumptions += [
        "the child is abstract: {spawn_ok, stdout, stderr, success when fully read, success when cut short}; the check "
        "derives these from the generated script by construction",
        "the consumer is abstract in the theorems; at CLI level it is 'reads to EOF' or 'stops in the first 64 KiB buffer'",
        "PARTIAL: large stderr never blocks = liveness of the stderr thread; exercised up to 4 MiB under a 240 s limit",
        "I/O errors of wait()/read() themselves (other than the child's failure) are outside the model",
    ]


def replay(ctx, data):
    print("replay: re-running the whole check")
    run(ctx)
