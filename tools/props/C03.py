"""C03 — results follow the grep model: order, uniqueness, context windows, numbering."""
import vlib
from vlib import parse_val
import searchgen as sg

NEED_RG = True
MANIFEST = dict(
    text="Coq theorems (Props/C03.v): SliceByLine::run equals the grep reference model grep_ref for every input, "
         "configuration (A, B, invert, passthru, line numbers, stop-on-nonmatch) and matcher: slice_slow_eq_ref (slow line "
         "path, simulation invariant over the real bookkeeping fields), slice_eq_ref (fast path, inverted or not, under the "
         "contract find_spec of find_by_line_fast) and slice_eq_ref_from_candidate_contract (find_spec discharged from the "
         "grep-matcher candidate-line contract). The reference is then read declaratively: every matching line is delivered "
         "exactly once as a match, the A lines after and B lines before a match as context (credit_is_window), everything "
         "under passthru, nothing else, in input order, with a break exactly at each gap, 1-based line numbers, absolute "
         "offsets, and the input length at finish; stop-on-nonmatch = the same on the input truncated after the first non-result line "
         "following a result (stop_on_nonmatch_is_truncation). Model = code = reference correspondence on generated cases ties the model to "
         "core.rs/glue.rs/lines.rs on every run; the line terminator is a parameter throughout (theorems: every byte and CRLF; "
         "generated: NUL, ';', 0xFF, ... with line feeds inside the records, through the slice and through the real roll buffer "
         "with capacity 1..8; rg --null-data with context over files > 64 KiB = grep reference). D10 fixed.",
    note="trusted: Coq kernel, extraction (ExtrOcamlBasic only), driver, harness; binary detection None in the "
         "theorems (binary modes are C14's); the matcher is universally quantified, its candidate contract is a hypothesis "
         "(discharged for regex matchers by C11's theorems and correspondence)",
    technique="Coq simulation proof (model = declarative grep reference) + extracted-model/implementation/reference correspondence",
    design="§7 C03, notes/C03.md")


def features(case, events):
    c = case["cfg"]
    kinds = set(e[0] for e in events)
    f = []
    if 1 in kinds:
        f.append("match")
    if 2 in kinds:
        f.append("ctx")
    if 3 in kinds:
        f.append("break")
    if c["invert"]:
        f.append("invert")
    if c["passthru"]:
        f.append("passthru")
    if c["stop_on_nonmatch"]:
        f.append("stop")
    f.append("fast" if case["lt_mode"] and not c["passthru"] else "slow")
    f.append(sg.term_name(c))
    return f


def run(ctx):
    rng = ctx.rng
    n = ctx.count(4000)
    cases = sg.regress_cases() + [sg.gen_case(rng) for _ in range(n)]
    lines = [sg.case_val(c) for c in cases]
    co = vlib.code(301, lines)
    mo = vlib.model(301, lines)
    ro = vlib.model(302, lines)
    # the forwarding Sink impls (&mut S, Box<S>): every third case also runs with a boxed dyn sink
    bidx = list(range(0, len(lines), 3))
    bo = vlib.code(303, [lines[i] for i in bidx])
    for i, b in zip(bidx, bo):
        if b != co[i]:
            ctx.violation("a sink behind `&mut Box<dyn Sink>` receives different calls than the sink itself",
                          dict(kind=303, line=lines[i], case=sg.describe(cases[i]), direct=co[i], boxed=b))
    # numbering, offsets and the final byte count must not depend on what the same Searcher searched before
    import os
    import sys
    sys.path.insert(0, os.path.dirname(os.path.abspath(__file__)))
    import C02 as c02
    ridx = [i for i in range(0, len(cases), 5) if not cases[i]["cfg"]["stop_on_nonmatch"]]
    rl = [c02.reader_line(cases[i], None, 64, None, []) for i in ridx]
    fresh, reused = vlib.code(202, rl), vlib.code(203, rl)
    for i, a, b in zip(ridx, fresh, reused):
        if a != b:
            ctx.violation("a reused Searcher reports different coordinates / byte count than a fresh one",
                          dict(kind=203, line=rl[ridx.index(i)], case=sg.describe(cases[i]), fresh=a, reused=b))
    # the context windows, numbers and offsets of the reference must also come out of the incremental reader with a
    # tiny roll buffer (what is kept across a roll is decided by the context sizes)
    sidx = [i for i in range(1, len(cases), 3) if not cases[i]["cfg"]["stop_on_nonmatch"]]
    small = [c02.reader_line(cases[i], None, rng.choice([1, 2, 3, 5, 8]), None, []) for i in sidx]
    for i, l, a in zip(sidx, small, vlib.code(201, small)):
        if a.startswith("(9"):
            continue
        if a != ro[i]:
            ctx.violation("the incremental reader with a small roll buffer delivers other results than the grep reference",
                          dict(kind=201, line=l, case=sg.describe(cases[i]), reader=a, ref=ro[i]))
    term_feat = terminators(ctx, c02)
    mlc = [sg.gen_case(rng, multi_line=True) for _ in range(ctx.count(300))]
    mll = [sg.case_val(c) for c in mlc]
    # context, separators, numbering and offsets of a multi-line search obey the same model (reference ml_ref)
    for c, l, a, b in zip(mlc, mll, vlib.code(301, mll), vlib.model(1301, mll)):
        if c["lt_mode"] == 0 and a != b:
            ctx.violation("multi-line search: context / passthru / numbering differ from the reference",
                          dict(kind=1301, line=l, case=sg.describe(c), code=a, ref=b))
    for c, l, a, b in zip(mlc, mll, vlib.code(204, mll), vlib.code(205, mll)):
        if a != b:
            ctx.violation("a reused Searcher (multi-line, reader input) reports different lines / coordinates than a fresh one",
                          dict(kind=205, line=l, case=sg.describe(c), fresh=a, reused=b))
    feat = {}
    for case, line, c, m, r in zip(cases, lines, co, mo, ro):
        ev = parse_val(c)[1] if c.startswith("(") else []
        fs = features(case, ev)
        for f in fs:
            feat[f] = feat.get(f, 0) + 1
        ctx.note_case(line, "match" in fs and len(ev) > 3)
        if "ctx" in fs and "break" in fs:
            ctx.sample(dict(case=sg.describe(case), events=c))
        if c != m:
            ctx.violation("search_slice: model and code disagree", dict(kind=301, line=line, case=sg.describe(case),
                          model=m, code=c, ref=r), nfi=(c == r))
        if c != r:
            ctx.violation("search_slice differs from the grep reference model",
                          dict(kind=302, line=line, case=sg.describe(case), code=c, ref=r))
    cli_separators(ctx)
    c02.cli_null_data(ctx, "C03")
    for k, v in term_feat.items():
        feat[k] = feat.get(k, 0) + v
    ctx.cov["features"] = feat
    ctx.cov["rule"] = "random searcher configuration x scripted matcher x line-structured input; non-trivial = has a match and more than 3 events"


def terminators(ctx, c02):
    """the line terminator is a parameter of the searcher: NUL (--null-data), ';', 0xFF, ... with records that contain
    `\n` and `\r` as ordinary bytes, non-zero context sizes, roll buffers of capacity 1..8 and scripted read histories.
    The incremental reader (kind 201, real roll buffer) must deliver the grep reference (302) = the slice run (301) =
    the model of the reader (201): what Core::roll retains at a buffer switch is counted in TERMINATORS."""
    rng = ctx.rng
    cases = [sg.gen_term_case(rng) for _ in range(ctx.count(700))]
    sl = [sg.case_val(c) for c in cases]
    rl = []
    for c in cases:
        cap = rng.randint(1, 8)
        rl.append(c02.reader_line(c, None, cap, None, c02.gen_hist(rng, len(c["input"]), cap)))
    ref, slc = vlib.model(302, sl), vlib.code(301, sl)
    rdr, rdm = vlib.code(201, rl), vlib.model(201, rl)
    feat = {}
    for c, l, sline, s_, r, a, m in zip(cases, rl, sl, slc, ref, rdr, rdm):
        evs = parse_val(a)[1] if a.startswith("(0") else []
        kinds = set(e[0] for e in evs)
        rolled = len(c["input"]) > 8
        ctx.note_case(l, rolled and 1 in kinds and 2 in kinds)
        for f in [sg.term_name(c["cfg"]) + "/reader"] + (["reader-ctx-across-roll"] if rolled and 1 in kinds and 2 in kinds else []):
            feat[f] = feat.get(f, 0) + 1
        if a.startswith("(9"):
            ctx.violation("terminator case not run by the reader strategy (no silent skips)", dict(kind=201, line=l, case=sg.describe(c)))
            continue
        if a != r:
            ctx.violation("the incremental reader (small roll buffer, terminator %s, records with embedded line feeds) delivers "
                          "other results than the grep reference" % sg.term_name(c["cfg"]),
                          dict(kind=201, line=l, case=sg.describe(c), reader=a, ref=r, slice=s_, model=m))
        elif a != m:
            ctx.violation("search_reader: model and code disagree", dict(kind=201, line=l, case=sg.describe(c), model=m, code=a), nfi=True)
        if s_ != r:
            ctx.violation("search_slice differs from the grep reference model",
                          dict(kind=302, line=sline, case=sg.describe(c), code=s_, ref=r))
    return feat


def cli_separators(ctx):
    """group separators at the command line: with context in one or both directions the output for several files is the
    per-file outputs with exactly one `--` line between two non-empty ones"""
    import os
    import subprocess
    import tempfile
    rng = ctx.rng
    runs = 0
    with tempfile.TemporaryDirectory(dir=vlib.CACHE) as d:
        for i in range(ctx.count(30)):
            files = []
            for k in range(rng.randint(2, 4)):
                lines = [bytes(rng.choice(b"ab x") for _ in range(rng.randint(0, 4))) for _ in range(rng.randint(1, 9))]
                f = os.path.join(d, "s%d_%d" % (i, k))
                open(f, "wb").write(b"\n".join(lines) + b"\n")
                files.append(f)
            ctxflags = rng.choice([["-A", "1"], ["-B", "1"], ["-A", "2"], ["-B", "2"], ["-C", "1"], ["-C", "2", "-A", "0"], ["-A", "1", "-B", "2"]])
            if i < 3:
                ctxflags = [["-A", "1"], ["-B", "1"], ["-C", "2", "-A", "0"]][i]
            pat = rng.choice(["a", "b", "ab", "x"])
            base = [vlib.RG, "--no-config", "--color", "never", "--no-heading", "-H", "-n", "-j1"] + ctxflags + ["-e", pat]
            whole = subprocess.run(base + files, stdin=subprocess.DEVNULL, stdout=subprocess.PIPE, stderr=subprocess.PIPE).stdout
            parts = [subprocess.run(base + [f], stdin=subprocess.DEVNULL, stdout=subprocess.PIPE, stderr=subprocess.PIPE).stdout for f in files]
            runs += 1 + len(files)
            exp = b"--\n".join(x for x in parts if x)
            ctx.note_case("sep%d" % i + repr((ctxflags, pat)), sum(1 for x in parts if x) > 1)
            if whole != exp:
                ctx.violation("rg over several files does not print the per-file results separated by exactly one `--` line",
                              dict(kind="cli-separators", flags=ctxflags, pattern=pat, files=[open(f, "rb").read().decode("latin1") for f in files],
                                   got=repr(whole), expected=repr(exp)))
    ctx.cov["cli_separator_runs"] = runs


def replay(ctx, data):
    line = data["replay"]["line"]
    if data["replay"].get("kind") == 201:
        # a reader case (cfg matcher input reply cap pol hist): the first four fields are the slice case
        c, m = vlib.code(201, [line])[0], vlib.model(201, [line])[0]
        r = data["replay"].get("ref")
        print("code :", c, "\nmodel:", m, "\nref  :", r)
        if c != m or (r is not None and c != r):
            ctx.violation("replayed reader case still disagrees", data["replay"])
        return
    c = vlib.code(301, [line])[0]
    m = vlib.model(301, [line])[0]
    r = vlib.model(302, [line])[0]
    print("code :", c, "\nmodel:", m, "\nref  :", r)
    if c != m or c != r:
        ctx.violation("replayed case still disagrees", data["replay"])



# ----------------------------------------------------------------------------------------------- source tie (DESIGN §4.2)
# the definitions of Gen/DecisionsLib.v this property's Props file ties to the model (`*_generated_eq_model`): when
# tools/gen/decisions_lib.py could not translate the current source text the tie is broken and reported
GEN_LIB_TARGETS = ['is_line_by_line_fast']
_run_checks = run


def run(ctx):
    _run_checks(ctx)
    vlib.report_gen_drift(ctx, "decisions_lib", GEN_LIB_TARGETS, bool(ctx.violations))
