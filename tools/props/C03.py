"""C03 — results follow the grep model: order, uniqueness, context windows, numbering."""
import vlib
from vlib import parse_val
import searchgen as sg

NEED_RG = False
MANIFEST = dict(
    text="Coq theorem slice_slow_eq_ref: SliceByLine::run on the slow line path equals the grep reference model (events in "
         "input order, context kinds, separators, 1-based line numbers, byte offsets, final byte count) for every input, "
         "configuration and matcher, by a simulation invariant over the real bookkeeping fields. The fast path and the "
         "other strategies are tied to the same reference by model=code=reference correspondence on generated cases "
         "(fast-path theorem in progress). D10 fixed.",
    note="trusted: Coq kernel, extraction, driver, harness; the reference (Spec/GrepSpec.v grep_ref) is an executable one-pass "
         "specification; its declarative window characterisation is not yet proved",
    technique="Coq simulation proof + extracted-model/implementation/reference correspondence",
    design="§7 C03")


def features(case, events):
    c = case["cfg"]
    kinds = set(e[0] for e in events)
    f = []
    if 1 in kinds:
        f.append("match")
    if 2 in kinds:
        f.append("ctx")
    if 3 in kinds:
        f.append("break")
    if c["invert"]:
        f.append("invert")
    if c["passthru"]:
        f.append("passthru")
    if c["stop_on_nonmatch"]:
        f.append("stop")
    f.append("fast" if case["lt_mode"] and not c["passthru"] else "slow")
    return f


def run(ctx):
    rng = ctx.rng
    n = ctx.count(4000)
    cases = [sg.gen_case(rng) for _ in range(n)]
    lines = [sg.case_val(c) for c in cases]
    co = vlib.code(301, lines)
    mo = vlib.model(301, lines)
    ro = vlib.model(302, lines)
    feat = {}
    for case, line, c, m, r in zip(cases, lines, co, mo, ro):
        ev = parse_val(c)[1] if c.startswith("(") else []
        fs = features(case, ev)
        for f in fs:
            feat[f] = feat.get(f, 0) + 1
        ctx.note_case(line, "match" in fs and len(ev) > 3)
        if "ctx" in fs and "break" in fs:
            ctx.sample(dict(case=sg.describe(case), events=c))
        if c != m:
            ctx.violation("search_slice: model and code disagree", dict(kind=301, line=line, case=sg.describe(case),
                          model=m, code=c, ref=r), nfi=(c == r))
        if c != r:
            ctx.violation("search_slice differs from the grep reference model",
                          dict(kind=302, line=line, case=sg.describe(case), code=c, ref=r))
    ctx.cov["features"] = feat
    ctx.cov["rule"] = "random searcher configuration x scripted matcher x line-structured input; non-trivial = has a match and more than 3 events"


def replay(ctx, data):
    line = data["replay"]["line"]
    c = vlib.code(301, [line])[0]
    m = vlib.model(301, [line])[0]
    r = vlib.model(302, [line])[0]
    print("code :", c, "\nmodel:", m, "\nref  :", r)
    if c != m or c != r:
        ctx.violation("replayed case still disagrees", data["replay"])
