"""C17 — transcoded input is searched as its UTF-8 equivalent."""
import os
import shutil
import subprocess
import tempfile

import vlib
from vlib import vbytes, vlist, vbool, parse_val

NEED_RG = True
LEVEL = "partial"
MANIFEST = dict(
    text="Coq theorems: selection_table (which decoder the searcher's reader ends up with as a function of the "
         "first <= 3 bytes, the label and BOM sniffing, stated for the code as it is), a UTF-16 mark overrides "
         "any label, the UTF-8 mark does not (refuted, D14), --encoding none is the identity with the mark "
         "kept, slices/mmaps take the reader path exactly when a label is set or a mark is present; the "
         "reference streaming UTF-16LE/BE decoder gives utf16_to_utf8 of the whole input for every "
         "fragmentation (code units and surrogate pairs split anywhere; lone surrogates, odd tail -> U+FFFD) and is "
         "proved equal to a declarative specification (bytes -> code units -> scalar values -> UTF-8), so the bytes "
         "searched for UTF-16 input are proved to be its UTF-8 equivalent; the UTF-8 validator of -E utf-8 is "
         "modelled, fragmentation independent and proved equal to a declarative specification (Unicode table 3-7, "
         "maximal-subpart replacement; well-formed input unchanged, output always well-formed). "
         "Tie to the code: the Coq decoder vs encoding_rs fed the same chunks; the bytes the real searcher "
         "sees (every strategy, fragmenting reader, roll-buffer capacities 1.., inputs beyond the 8 KiB "
         "transcoding buffer) vs the model and vs the reference transcoding computed with encoding_rs; rg "
         "stdout on encoded files vs on their transcodings (mmap, no mmap, stdin, -U).",
    note="PARTIAL: encoding_rs / encoding_rs_io are third-party and only modelled (UTF-16, UTF-8 validation: compared "
         "on every run and proved equal to declarative specifications) or sampled (windows-1252, shift_jis); the reduction of 'same results' to 'same searched bytes' rests on "
         "C02 (results independent of how bytes reach the searcher). Known findings: D14 (UTF-8 mark does not "
         "displace a label), a second mark after the mark is removed too, malformed UTF-8 after a UTF-8 mark is "
         "passed through unreplaced.",
    technique="Coq proof over executable model + extracted-model/implementation correspondence + encoding_rs oracle",
    design="§7 C17")

K_D14 = "Utf8MarkWithOtherLabel"
K_DOUBLE = "SecondMarkRemoved"
K_PASSTHRU = "Utf8MarkMalformedPassthru"
K_TRUNC = "TruncatedTailAtEofTinyBuffer"
K_LEAD = "LegacyDanglingLeadAtEofDropped"
LABELS = ["utf-8", "utf-16le", "utf-16be", "latin1", "shift_jis"]
PYENC = ["utf-8", "utf-16-le", "utf-16-be", "cp1252", "shift_jis"]
BOMS = {1: b"\xff\xfe", 2: b"\xfe\xff", 0: b"\xef\xbb\xbf"}


def gen_cps(rng, n):
    pool = [0x61, 0x61, 0x62, 0x78, 0x20, 0x0A, 0x0A, 0xE9, 0x2603, 0x65E5, 0x3042, 0x1F600, 0x10000, 0xFFFD, 0xFEFF, 0x7F, 0x80]
    return [rng.choice(pool) for _ in range(n)]


def utf16_units(cps):
    out = []
    for c in cps:
        if c >= 0x10000:
            c -= 0x10000
            out += [0xD800 + (c >> 10), 0xDC00 + (c & 0x3FF)]
        else:
            out.append(c)
    return out


def gen_input(rng, big):
    """returns (bytes, description)"""
    n = rng.randint(0, 12) if not big else rng.randint(2500, 6000)
    cps = gen_cps(rng, n)
    kind = rng.choice(["u16le", "u16be", "u16le", "u16be", "u8bom", "u8", "latin1", "sjis", "raw"])
    if kind in ("u16le", "u16be"):
        units = utf16_units(cps)
        for _ in range(rng.choice([0, 0, 0, 1, 2])):          # lone surrogates
            units.insert(rng.randint(0, len(units)), rng.choice([0xD800, 0xDBFF, 0xDC00, 0xDFFF]))
        be = kind == "u16be"
        b = b"".join(u.to_bytes(2, "big" if be else "little") for u in units)
        if rng.random() < 0.2:
            b += bytes([rng.choice([0x61, 0x00, 0xD8])])       # odd tail
        r = rng.random()
        if r < 0.6:
            b = BOMS[2 if be else 1] + b
        elif r < 0.67:
            b = BOMS[2 if be else 1] * 2 + b                  # second mark
        elif r < 0.72:
            b = BOMS[1 if be else 2] + b                      # the other order's mark
        return b, kind
    if kind in ("u8bom", "u8"):
        b = "".join(chr(c) for c in cps).encode("utf-8")
        if rng.random() < 0.2:
            p = rng.randint(0, len(b))
            b = b[:p] + bytes([rng.choice([0xFF, 0xC3, 0x80, 0xED, 0xF0])]) + b[p:]     # malformed
        if kind == "u8bom":
            b = BOMS[0] * (2 if rng.random() < 0.1 else 1) + b
        return b, kind
    if kind == "latin1":
        return bytes(rng.choice([0x61, 0x0A, 0xE9, 0x80, 0x81, 0xFF, 0xFE, 0x20, 0x62]) for _ in range(n)), kind
    if kind == "sjis":
        parts = [b"a", b"\n", "あ".encode("shift_jis"), "日".encode("shift_jis"), b"\xb1", b"\x81", b"\xfc\xfc", b"\x80", b"b"]
        return b"".join(rng.choice(parts) for _ in range(n)), kind
    return bytes(rng.choice([0x61, 0x0A, 0xFF, 0xFE, 0xEF, 0xBB, 0xBF, 0x00, 0x62]) for _ in range(min(n, 40))), kind


def gen_hist(rng, big):
    if big:
        return [rng.choice([8191, 8192, 8193, 1, 2, 3, 4097, 5000]) for _ in range(rng.randint(0, 6))]
    return [rng.choice([1, 1, 2, 3, 3, 4, 5, 7]) for _ in range(rng.randint(0, 12))]


NEEDLES = [b"a", "é".encode(), "日".encode(), "�".encode(), b"x", "﻿".encode(), b"b"]


def case_line(c, tmp):
    return vlist([str(c["mode"]), str(c["label"]), vbytes(c["input"]), vlist([str(k) for k in c["hist"]]),
                  str(c["strategy"]), str(c["capacity"]), vbytes(c["needle"]), vbytes(tmp.encode())])


def classify(c):
    """known-finding classes a case falls in (the class predicates)"""
    inp = c["input"]
    cls = set()
    if c["mode"] == 2:
        return cls
    if inp.startswith(BOMS[0]):
        if c["mode"] == 1 and c["label"] != 0:
            cls.add(K_D14)
        if c["mode"] == 1 and c["label"] == 0 and inp[3:].startswith(BOMS[0]):
            cls.add(K_DOUBLE)
        if c["mode"] == 0:
            try:
                inp[3:].decode("utf-8")
            except UnicodeDecodeError:
                cls.add(K_PASSTHRU)
    for k in (1, 2):
        if inp.startswith(BOMS[k]) and inp[2:].startswith(BOMS[k]) and len(inp) >= 3:
            cls.add(K_DOUBLE)
    # a label whose own mark the undetected (shorter than 3 bytes) input starts with cannot arise: for_bom needs 2-3 bytes
    return cls


def bz(x):
    return x if isinstance(x, bytes) else b""


def check_search_cases(ctx, cases, tmp, stats):
    lines = [case_line(c, tmp) for c in cases]
    co = vlib.code(1702, lines)
    mo = vlib.model(1703, [vlist([str(c["mode"]), str(c["label"]), vbytes(c["input"])]) for c in cases])
    groups = {}
    for c, cl, cout, mout in zip(cases, lines, co, mo):
        if cout in ("PANIC", "MISSING") or cout.startswith("PARSEFAIL"):
            ctx.violation("harness %s on a transcoding case" % cout, dict(kind=1702, case=repr(c), line=cl))
            continue
        cv = parse_val(cout)
        searched, reference, ev_enc, ev_ref, status = bz(cv[0]), bz(cv[1]), cv[2], cv[3], cv[4]
        cls = classify(c)
        mv = parse_val(mout) if mout.startswith("(") else None
        expected = [reference] + ([bz(mv[0][0])] if mv is not None and mv[0] != [] else [])
        # encoding_rs_io loses the tail of a U+FFFD flushed at EOF into a caller buffer of fewer than 4 bytes
        # (multi-line: read_to_end hands the transcoder whatever spare capacity the Vec has, often < 4 bytes)
        truncated = (c["capacity"] < 65536 or c["strategy"] >= 4) and any(
            len(e) >= 2 and (e[-1] & 0xC0) == 0x80 and searched in (e[:-1], e[:-2], e[:-3]) for e in expected)
        if truncated:
            cls = cls | {K_TRUNC}
        # encoding_rs's legacy multi-byte decoders forget a pending lead byte on an empty non-last call
        if (c["mode"] == 1 and c["label"] == 4 and reference.endswith(b"\xef\xbf\xbd") and searched == reference[:-3]
                and not any(c["input"].startswith(b) for b in BOMS.values())):
            cls = cls | {K_LEAD}
        nontrivial = c["mode"] != 2 and (c["mode"] == 1 or any(c["input"].startswith(b) for b in BOMS.values()))
        ctx.note_case(cl, nontrivial)
        stats["kind_" + c["kind"]] += 1
        stats["mode%d" % c["mode"]] += 1
        stats["strategy%d" % c["strategy"]] += 1
        if len(c["input"]) > 8192:
            stats["beyond_8KiB"] += 1
        if c["capacity"] < 4:
            stats["tiny_caller_buffer"] += 1
        if status != 0:
            ctx.violation("search of an encoded input failed", dict(kind=1702, case=repr(c), line=cl))
            continue
        # independence of strategy / fragmentation / capacity: same (mode, label, input) => same searched bytes
        key = (c["mode"], c["label"], c["input"])
        # Two searches of the same input may differ only by the two third-party EOF defects: the last character's
        # tail cut (final decoder output does not fit the < 4 free bytes of the destination: roll-buffer capacity
        # below the default, or read_to_end in multi-line mode) and, under a legacy multi-byte label, the U+FFFD of a
        # lead byte pending at EOF dropped or kept depending on the call sequence.  Both remove bytes of the LAST
        # character only, so: one result is a prefix of the other and the missing part lies inside that character.
        if key in groups and groups[key][0] != searched:
            other_s, other_c = groups[key]
            short, long_ = sorted((searched, other_s), key=len)
            k = len(long_) - 1
            while k > 0 and (long_[k] & 0xC0) == 0x80:
                k -= 1                                   # start of the last character of the longer result
            tiny = any(x["capacity"] < 65536 or x["strategy"] >= 4 for x in (c, other_c))
            legacy = c["mode"] == 1 and c["label"] == 4
            tail_only = long_.startswith(short) and len(short) >= k and len(long_) - len(short) <= 3
            if tail_only and (tiny or (legacy and long_[k:] == b"\xef\xbf\xbd" and len(short) == k)):
                ctx.known(K_LEAD if (legacy and long_[k:k + 1] == b"\xef") else K_TRUNC,
                          "same input, two strategies: %r vs %r (input %r)" % (searched[-8:], other_s[-8:], c["input"][:40]))
                stats["known_cross_strategy_tail"] += 1
            else:
                ctx.violation("searched bytes depend on strategy / fragmentation / capacity",
                              dict(kind=1702, case=repr(c), other=repr(other_c), searched=repr(searched),
                                   other_searched=repr(other_s)))
        groups.setdefault(key, (searched, c))
        # link 2: the model's searched bytes (UTF-16 / identity cases)
        if mv is None:
            ctx.violation("model failed: " + mout[:60], dict(kind=1703, case=repr(c)), nfi=True)
        elif mv[0] != []:
            stats["model_predicts"] += 1
            if bz(mv[0][0]) != searched and not truncated:
                ctx.violation("searched bytes: model (selection_table + reference decoder) and code disagree",
                              dict(kind=1703, case=repr(c), line=cl, model=repr(bz(mv[0][0])), code=repr(searched),
                                   reference=repr(reference)), nfi=(searched == reference))
        # property oracle: the searcher saw the UTF-8 transcoding, and reports what a search of it reports
        if searched != reference or ev_enc != ev_ref:
            if cls:
                for k in cls:
                    ctx.known(k, "mode=%d label=%s input=%r searched=%r reference=%r" % (
                        c["mode"], LABELS[c["label"]], c["input"][:40], searched[:40], reference[:40]))
                stats["known_" + sorted(cls)[0]] += 1
            else:
                ctx.violation("encoded input is not searched as its UTF-8 transcoding",
                              dict(kind=1702, case=repr(c), line=cl, searched=repr(searched[:300]), reference=repr(reference[:300]),
                                   events=repr(ev_enc)[:300], events_reference=repr(ev_ref)[:300]))
        elif nontrivial:
            ctx.sample(dict(mode=c["mode"], label=LABELS[c["label"]], input=repr(c["input"][:30]), searched=repr(searched[:30])))


def check_decoder_cases(ctx, rng, n, stats):
    cases = []
    for _ in range(n):
        be = rng.random() < 0.5
        units = utf16_units(gen_cps(rng, rng.randint(0, 10)))
        for _ in range(rng.choice([0, 0, 1, 2, 3])):
            units.insert(rng.randint(0, len(units)), rng.choice([0xD800, 0xDBFF, 0xDC00, 0xDFFF, 0xFEFF, 0xFFFE]))
        b = b"".join(u.to_bytes(2, "big" if be else "little") for u in units)
        if rng.random() < 0.3:
            b += bytes([rng.randint(0, 255)])
        chunks = []
        p = 0
        while p < len(b):
            k = rng.choice([0, 1, 1, 1, 2, 3, 5])
            chunks.append(b[p:p + k])
            p += k
        cases.append((be, chunks))
    lines = [vlist([vbool(be), vlist([vbytes(c) for c in ch])]) for be, ch in cases]
    mo = vlib.model(1701, lines)
    co = vlib.code(1701, lines)
    for (be, ch), l, m, c in zip(cases, lines, mo, co):
        ctx.note_case(l, len(ch) > 1)
        stats["decoder_cases"] += 1
        if any(len(x) % 2 == 1 for x in ch):
            stats["decoder_split_code_unit"] += 1
        if m != c:
            ctx.violation("UTF-16 decoder: Coq reference and encoding_rs disagree", dict(kind=1701, line=l, model=m, code=c), nfi=True)
        cv = parse_val(c) if c.startswith("(") else None
        if cv and cv[0] != cv[1]:
            ctx.violation("encoding_rs UTF-16 decoder output depends on the fragmentation", dict(kind=1701, line=l, code=c))


def check_decoder8_cases(ctx, rng, n, stats):
    """the UTF-8 decoder (validation, U+FFFD per maximal ill-formed subpart, mark removal): Coq vs encoding_rs"""
    cases = []
    pool = [b"a", b"\n", "é".encode(), "日".encode(), "😀".encode(), b"\xef\xbb\xbf", b"\xff", b"\xc0\xaf", b"\xe0\x80", b"\xed\xa0\x80",
            b"\xf0\x8f", b"\xf4\x90", b"\xc3", b"\xe6\x97", b"\xf0\x9f\x98", b"\x80", b"\xbf", b"\xef\xbb", b"\xef", b"\xf5", b"\xe0\xa0\x80",
            b"\xf4\x8f\xbf\xbf", b"\xed\x9f\xbf"]
    for _ in range(n):
        b = b"".join(rng.choice(pool) for _ in range(rng.randint(0, 8)))
        if rng.random() < 0.3:
            b = b"\xef\xbb\xbf" + b
        chunks = []
        p = 0
        while p < len(b):
            k = rng.choice([0, 1, 1, 1, 2, 3, 5])
            chunks.append(b[p:p + k])
            p += k
        cases.append(chunks)
    ml = [vlist([vlist([vbytes(c) for c in ch])]) for ch in cases]
    cl = [vlist(["0", vlist([vbytes(c) for c in ch]), "1"]) for ch in cases]
    mo = vlib.model(1705, ml)
    co = vlib.code(1704, cl)
    for ch, l, m, c in zip(cases, cl, mo, co):
        ctx.note_case(l, len(ch) > 1)
        stats["decoder8_cases"] += 1
        mv = parse_val(m) if m.startswith("(") else None
        cv = parse_val(c) if c.startswith("(") else None
        if mv is None or cv is None or bz(mv[0]) != bz(cv[0]):
            ctx.violation("UTF-8 decoder: Coq reference and encoding_rs disagree", dict(kind=1705, line=l, model=m, code=c), nfi=True)
        elif bz(mv[0]) != bz(mv[1]):
            ctx.violation("Coq UTF-8 decoder depends on the fragmentation (theorem utf8_chunk_independent broken?)",
                          dict(kind=1705, line=l, model=m), nfi=True)


def run_rg(args, cwd, stdin_path=None):
    fin = open(stdin_path, "rb") if stdin_path else subprocess.DEVNULL
    try:
        p = subprocess.run([vlib.RG, "--no-config", "--color", "never", "-N", "--no-filename", "-a"] + args, cwd=cwd,
                           stdin=fin, stdout=subprocess.PIPE, stderr=subprocess.PIPE, timeout=120)
    finally:
        if stdin_path:
            fin.close()
    return p.returncode, p.stdout


def py_reference(c):
    """the property's reference computed without encoding_rs (UTF-16 / UTF-8 only); None if not applicable"""
    inp = c["input"]
    if c["mode"] == 2:
        return inp
    for k, bom in ((0, BOMS[0]), (1, BOMS[1]), (2, BOMS[2])):
        if inp.startswith(bom):
            return inp[len(bom):].decode(PYENC[k], "replace").encode("utf-8") if k != 0 else None
    if c["mode"] == 1 and c["label"] in (1, 2):
        return None      # python's utf-16 error handling differs from WHATWG in corner cases; the harness oracle covers it
    if c["mode"] == 0:
        return inp
    return None


def cli_cases(ctx, rng, cases, stats):
    d = tempfile.mkdtemp(dir=vlib.CACHE, prefix="c17-")
    try:
        for i, c in enumerate(cases):
            enc_path = os.path.join(d, "e%d" % i)
            ref_path = os.path.join(d, "r%d" % i)
            open(enc_path, "wb").write(c["input"])
            ref = parse_val(vlib.code(1702, [case_line(dict(c, strategy=0), d)])[0])
            reference = bz(ref[1])
            open(ref_path, "wb").write(reference)
            pat = ["-F", "-e", c["needle"].decode()]
            base_rc, base = run_rg(["-E", "none", "--no-mmap"] + pat + [ref_path], d)
            encflag = {0: [], 1: ["-E", LABELS[c["label"]]], 2: ["-E", "none"]}[c["mode"]]
            variants = [("mmap", ["--mmap"], None), ("no-mmap", ["--no-mmap"], None), ("stdin", [], enc_path)]
            cls = classify(c)
            if c["mode"] == 1 and c["label"] == 4 and reference.endswith(b"\xef\xbf\xbd"):
                cls = cls | {K_LEAD}
            for name, extra, stdin in variants:
                rc, out = run_rg(encflag + extra + pat + ([] if stdin else [enc_path]), d, stdin_path=stdin)
                stats["cli_runs"] += 1
                if out != base:
                    if cls:
                        for k in cls:
                            ctx.known(k, "rg %s on %r" % (" ".join(encflag), c["input"][:40]))
                    else:
                        ctx.violation("rg output on an encoded file (%s) differs from the output on its UTF-8 transcoding" % name,
                                      dict(kind="cli", case=repr(c), variant=name, out=repr(out[:500]), expected=repr(base[:500])))
            # multi line with patterns that can match the terminator (MultiLine strategy: the whole file is read
            # through the transcoder first): --mmap / --no-mmap / stdin / directory walk = search of the transcoding
            wd = os.path.join(d, "w%d" % i)
            os.mkdir(wd)
            shutil.copy(enc_path, os.path.join(wd, "f"))
            for mlpat in (["-e", "a\\nb"], ["-e", "\\n"], ["-e", "(?s)a.b"], pat):
                rc2, o2 = run_rg(["-E", "none", "-U", "--no-mmap"] + mlpat + [ref_path], d)
                for name, extra, target, stdin in (("mmap", ["--mmap"], [enc_path], None), ("no-mmap", ["--no-mmap"], [enc_path], None),
                                                   ("stdin", [], [], enc_path), ("walk", ["--no-mmap"], [wd], None),
                                                   ("walk-mmap", ["--mmap"], [wd], None)):
                    rc1, o1 = run_rg(encflag + ["-U"] + extra + mlpat + target, d, stdin_path=stdin)
                    stats["cli_runs_U"] += 1
                    if o1 != o2:
                        st = {"mmap": 6, "walk-mmap": 6, "stdin": 5}.get(name, 7)
                        hv = parse_val(vlib.code(1702, [case_line(dict(c, strategy=st), d)])[0])
                        hs, hr = bz(hv[0]), bz(hv[1])
                        if hs != hr and hs in (hr[:-1], hr[:-2], hr[:-3]) and (hr[-1] & 0xC0) == 0x80:
                            ctx.known(K_TRUNC, "rg -U on %r" % (c["input"][:40],))
                        elif cls:
                            for k in cls:
                                ctx.known(k, "rg -U %s on %r" % (" ".join(encflag), c["input"][:40]))
                        else:
                            ctx.violation("rg -U %s (%s) on an encoded file differs from the output on its UTF-8 transcoding" % (mlpat[-1], name),
                                          dict(kind="cli", case=repr(c), variant=name, pattern=mlpat[-1], out=repr(o1[:500]), expected=repr(o2[:500])))
    finally:
        shutil.rmtree(d, ignore_errors=True)


def gen_case(rng, big=False):
    inp, kind = gen_input(rng, big)
    mode = rng.choice([0, 0, 1, 1, 2])
    label = rng.randint(0, 4)
    if mode == 1 and rng.random() < 0.6:
        label = {"u16le": 1, "u16be": 2, "u8bom": 0, "u8": 0, "latin1": 3, "sjis": 4, "raw": rng.randint(0, 4)}[kind]
    return dict(mode=mode, label=label, input=inp, kind=kind, hist=gen_hist(rng, big), strategy=rng.randint(0, 7),
                capacity=rng.choice([1, 2, 3, 4, 7, 16, 64, 65536]), needle=rng.choice(NEEDLES))


def corpus():
    res = []
    for mode, label, inp in [
        (1, 1, b"\xef\xbb\xbfabc\n"),                 # D14
        (1, 0, b"\xff\xfea\x00b\x00c\x00\n\x00"),     # utf-16 mark beats label utf-8
        (1, 3, b"\xfe\xff\x00a\x00\n"),               # utf-16be mark beats latin1
        (0, 0, b"\xff\xfe\xff\xfea\x00\n\x00"),       # second mark
        (0, 0, b"\xff\xfe"), (0, 0, b"\xff\xfea"), (0, 0, b"\xef\xbb"), (0, 0, b"\xef\xbb\xbf"), (0, 0, b""),
        (0, 0, b"\xff\xfe\x00\xd8a\x00"), (0, 0, b"\xff\xfe\x3d\xd8"), (0, 0, b"\xfe\xff\xd8\x3d\xde\x00\x00"),
        (2, 0, b"\xff\xfea\x00\n\x00"), (2, 0, b"\xef\xbb\xbfa\n"),
        (0, 0, b"\xef\xbb\xbfa\xff\n"),               # malformed after a UTF-8 mark
        (1, 0, b"a\xff\n"), (1, 3, b"a\x80\x81\xe9\n"), (1, 4, b"\x82\xa0a\n\x81"),
        (1, 1, b"a\x00\n\x00\x00"), (1, 2, b"\xd8\x00\x00a"),
        (0, 0, b"\xff\xfe" + "xa\nb\n".encode("utf-16-le")), (0, 0, b"\xfe\xff" + "a\nb".encode("utf-16-be")),
        (0, 0, b"\xef\xbb\xbfa\nb\n"), (0, 0, b"\xef\xbb\xbf\n"),
    ]:
        for strategy in range(8):
            for cap, hist in ((65536, []), (2, [1, 1, 1, 1, 1, 1]), (5, [3, 2])):
                res.append(dict(mode=mode, label=label, input=inp, kind="corpus", hist=hist, strategy=strategy,
                                capacity=cap, needle=b"a"))
    return res


def run(ctx):
    from collections import Counter
    rng = ctx.rng
    stats = Counter()
    tmp = tempfile.mkdtemp(dir=vlib.CACHE, prefix="c17h-")
    try:
        check_decoder_cases(ctx, rng, ctx.count(1500), stats)
        check_decoder8_cases(ctx, rng, ctx.count(1500), stats)
        check_search_cases(ctx, corpus(), tmp, stats)
        cases = []
        for _ in range(ctx.count(700)):
            c = gen_case(rng)
            cases.append(c)
            for _ in range(rng.choice([0, 1, 2])):        # the same input another way
                cases.append(dict(c, hist=gen_hist(rng, False), strategy=rng.randint(0, 7),
                                  capacity=rng.choice([1, 2, 3, 4, 7, 16, 64, 65536])))
        for _ in range(ctx.count(12)):
            c = gen_case(rng, big=True)
            cases.append(c)
            cases.append(dict(c, hist=gen_hist(rng, True), strategy=rng.randint(0, 7), capacity=rng.choice([3, 64, 65536])))
        check_search_cases(ctx, cases, tmp, stats)
        marked = []
        for bom, codec in ((b"\xff\xfe", "utf-16-le"), (b"\xfe\xff", "utf-16-be"), (b"\xef\xbb\xbf", "utf-8")):
            for text in ("xa\nb\n", "a\nb", "b\n\na\n", "\u65e5a\nb\U0001f600\n"):
                marked.append(dict(mode=0, label=0, input=bom + text.encode(codec), kind="corpus", hist=[], strategy=0,
                                   capacity=65536, needle=b"a"))
        cli = marked + [c for c in corpus()[::24]] + [gen_case(rng) for _ in range(ctx.count(25))] + [gen_case(rng, big=True) for _ in range(ctx.count(2))]
        cli = [c for c in cli if b"\x00" not in c["needle"]]
        cli_cases(ctx, rng, cli, stats)
    finally:
        shutil.rmtree(tmp, ignore_errors=True)
    ctx.cov["branches"] = dict(stats)
    ctx.cov["rule"] = ("inputs: texts over ASCII/BMP/astral/U+FEFF/U+FFFD encoded as UTF-16LE/BE (with, without, doubled or "
                       "opposite mark; lone surrogates; odd tail), UTF-8 with/without mark (some malformed), windows-1252, "
                       "shift_jis, raw bytes; mode auto / label / none; strategy slice, reader, file+mmap, file; read histories "
                       "of 1-7 byte chunks (and around 8192 for inputs beyond the transcoding buffer); roll-buffer capacity 1-64 "
                       "or default. non-trivial = a label is set or the input starts with a mark (and mode is not none)")
    ctx.assumptions += [
        "encoding_rs and encoding_rs_io are third-party: their behaviour is modelled (UTF-16 decoder, BOM peeking, decoder "
        "selection) and compared on every run, not verified; windows-1252 / shift_jis / UTF-8 validation are sampled only",
        "'same results' is reduced to 'same bytes reach the line searcher' (plus a direct comparison of the events and of rg's "
        "stdout); that equal bytes give equal results for every strategy is property C02",
    ]


def replay(ctx, data):
    from collections import Counter
    r = data["replay"]
    if "case" in r and r.get("kind") in (1702, 1703):
        c = eval(r["case"])
        tmp = tempfile.mkdtemp(dir=vlib.CACHE, prefix="c17h-")
        try:
            check_search_cases(ctx, [c], tmp, Counter())
        finally:
            shutil.rmtree(tmp, ignore_errors=True)
    elif r.get("kind") == 1701:
        print(vlib.model(1701, [r["line"]]), vlib.code(1701, [r["line"]]))
