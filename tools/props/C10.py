"""C10 — all reporting modes agree with each other."""
import re

import vlib
from vlib import vbytes, parse_val
from props import printers_lib as pl
from props.printers_lib import msum, mstd, mjson, as_bytes

NEED_RG = True
MANIFEST = dict(
    text="Coq theorems over one searcher event stream (any input, configuration, abstract matcher) about executable "
         "models of SummarySink, StandardSink and JSONSink: count = number of matched events = number of match records "
         "the standard printer writes; count-matches = sum of re-discovered spans = -o records = JSON submatches = "
         "stats.matches, also under -m N over the consumed prefix of the stream (count_matches_under_limit, "
         "json_submatches_under_limit); -l / --files-without-match / -q decided by count > 0; stats are field-wise sums; a matched "
         "line has a submatch outside the class EmptyMatchAtEndOfUnterminatedLastLine (refuted inside it: D2). "
         "Tie to the code: extracted models vs the real printers driven by the real searcher and RegexMatcher on "
         "generated cases, the cross-mode relations checked directly on the real outputs (library and rg CLI).",
    note="trusted: Coq kernel, extraction, OCaml driver, Rust harness; the matcher is a Section variable tabulated per "
         "case; the searcher's call protocol (prefix up to the first refusal, then finish) is assumed here and is "
         "property C16; -o and --vimgrep record counts are theorems in line mode (one record per submatch) and in multi-line mode (one -o record per line a submatch has content on, one --vimgrep record per submatch touching a line), and an independent count from the JSON submatches is compared with the real outputs; --stats rendering in main.rs and the hiargs mode "
         "normalisation are tested (CLI), not proved; D13 repaired by a fix: commit; known findings: "
         "EmptyMatchAtEndOfUnterminatedLastLine (D2), MultiLineMaxCountSummary, MultiLineOnlyMatchingDropsEmptyMatches; observation outside the "
         "property (counted, not a finding): MultiLinePerMatchDropsEmptyMatchAtLineStart",
    technique="Coq proof over executable models + extracted-model/implementation correspondence + cross-mode oracle on "
              "real outputs",
    design="§7 C10")

KNOWN_D2 = "EmptyMatchAtEndOfUnterminatedLastLine"
KNOWN_MLMAX = "MultiLineMaxCountSummary"
KNOWN_MLOEMPTY = "MultiLineOnlyMatchingDropsEmptyMatches"
KNOWN_SUMBYTES = "SummaryStatsBytesPrintedSampledBeforeOutput"
OBS_MLPMEMPTY = "observation_MultiLinePerMatchDropsEmptyMatchAtLineStart"

LINE_PATTERNS = [
    "a", "b+", "$", "^", r"\b", r"\B", "x*", "a|$", "c|$", "^$", r"\w+", "[ab]", "a.", ".", r"\s", "(?:ab)?", "b$",
    "^a", r"a\b", r"\ba", "A", "ab|b", r"\S+\s*", "a*", "(a|b)(a|b)", r"^\s*$", "c$|^a", r"\bx?\b", "y?$", r"[^a]", "ba*",
    # patterns that can only match by consuming the last byte of a line (a trailing \r of a DOS file searched without --crlf)
    r"\w+\r", r"[abc]\s", r"[a-z]+\s*$", "c.", r"\S\s+$", r"a\r?$",
]
ML_PATTERNS = [
    r"a\nb", r"\n", r"a\n", r"b\n+", "(?s)a.b", r"a|\n\n", r"\n$", r"[a\n]+", r"a\s+b", r"^a\n", r"\nb$", r"b\n\n?",
    r"a$\n", r"(?s).+", r"\n\n", r"a\n?", r"\s+", r"a[^x]*b", r"\r?\n",
    # a match that ends at a line terminator followed by an assertion looking past the reported lines
    r"a\n\b", r"b\n\B", r"(?m)a\n^", r"c\n$", r"[ab]\n\b", r"\w\n(?:\b|$)", r"x\n\b",
    # adjacent submatches, submatches spanning lines next to single-line ones, empty matches at line starts
    r"a|b|\n", r"b\nb|a", r"b\s+a|a|b", r"(?:x|\n)*", r"[ab]?", r"(?s)a.|b", r"y?\n?",
]
ALPH = b"ab xycA\t"


def gen_file(rng, crlf, long_tail=False, dos=False):
    """crlf: the search runs with --crlf; dos: the file has \\r\\n line ends although the search does not"""
    if rng.random() < 0.05:
        return b""
    lines = []
    for _ in range(rng.randint(1, 6)):
        n = rng.choice([0, 0, 1, 1, 2, 3, 4, 6])
        ln = bytes(rng.choice(ALPH) for _ in range(n))
        if rng.random() < 0.05:
            ln += rng.choice([b"\xff", b"\xc3\xa9", b"\xe2\x82", b"\xf0\x9f\x98\x80"])
        lines.append(ln)
    if long_tail:
        for _ in range(rng.randint(25, 40)):
            lines.append(bytes(rng.choice(b"xyz ") for _ in range(5)))
    term = b"\r\n" if (crlf or dos) else b"\n"
    s = b""
    for i, ln in enumerate(lines):
        s += ln
        if i + 1 < len(lines) or rng.random() < 0.6:
            s += term if (not (crlf or dos) or rng.random() < 0.9) else b"\n"
    return s


def gen_flags(rng, relations=True):
    fl = dict(line_number=1)
    fl["multiline"] = rng.random() < 0.35
    fl["crlf"] = rng.random() < 0.2
    fl["invert"] = rng.random() < 0.2
    fl["ignore_case"] = rng.random() < 0.2
    r = rng.random()
    if r < 0.12:
        fl["word"] = 1
    elif r < 0.22:
        fl["whole_line"] = 1
    if fl["multiline"] and rng.random() < 0.2:
        fl["dotall"] = 1
    if not relations:
        k = rng.random()
        if k < 0.15:
            fl["passthru"] = 1
        elif k < 0.7:
            fl["after"] = rng.choice([0, 1, 2])
            fl["before"] = rng.choice([0, 1, 2])
        fl["binary"] = rng.choice([0, 0, 1, 2])
        fl["line_number"] = rng.random() < 0.7
    return fl


# patterns whose matches usually span two or more lines, often next to single-line matches
ML_SPANNING = [r"(?s)[ab].[ab]", r"\w\n\w", r"(?s).\n.", r"\S*\n\S*", r"[ab ]\s*\n\s*[ab ]|a", r"b\nb|a", r"(?s)a.+b|x",
               r"\w\r?\n\w|\w", r"(?s)\S.*\S"]


def gen_pattern(rng, fl):
    pool = LINE_PATTERNS + (ML_PATTERNS * 2 if fl.get("multiline") else [])
    if fl.get("multiline") and rng.random() < 0.25:
        pool = ML_SPANNING
    p = rng.choice(pool)
    if rng.random() < 0.15:
        p = "(?:%s)|%s" % (p, rng.choice(pool))
    return p


NAMES = [b"f1", b"f2", b"f3", b"f4"]


def relation_modes(mx):
    """the named modes whose real outputs the cross-mode oracle reads"""
    return [("count", msum(0, mx=mx, ez=0)), ("cm", msum(1, mx=mx, ez=0)), ("l", msum(2, mx=mx)),
            ("L", msum(3, mx=mx)), ("q", msum(4, mx=mx)), ("q_stats", msum(4, stats=1, mx=mx)),
            ("count_stats", msum(0, stats=1, mx=mx, ez=0)), ("std", mstd(mx=mx)), ("std_o", mstd(only=1, mx=mx)),
            ("std_pm", mstd(pm=1, pm1=1, col=1, mx=mx)),
            ("std_stats", mstd(stats=1, mx=mx)), ("json", mjson(mx=mx))]


def random_modes(rng, mx):
    """configuration coverage for the model correspondence"""
    sep = rng.choice([b":", b"::", b"=", b""])
    pt = rng.choice([None, None, 0, 9])
    ms = [msum(rng.randint(0, 4), stats=rng.random() < 0.3, path=rng.random() < 0.8, mx=mx, ez=rng.random() < 0.6,
               sep=sep, pt=pt)]
    ms.append(mstd(heading=rng.random() < 0.4, path=rng.random() < 0.8, only=rng.random() < 0.25,
                   pm=rng.random() < 0.25, pm1=rng.random() < 0.5, mx=mx, col=rng.random() < 0.5, bo=rng.random() < 0.4,
                   stats=rng.random() < 0.35, ss=rng.choice([None, b"", b"=="]), sc=rng.choice([None, b"--", b"~"]),
                   sm=rng.choice([b":", b"|", b"::"]), sx=rng.choice([b"-", b"+"]), pt=pt))
    ms.append(mjson(mx=mx, always=rng.random() < 0.3))
    return [("r%d" % i, m) for i, m in enumerate(ms)]


def gen_case(rng, relations):
    fl = gen_flags(rng, relations)
    pat = gen_pattern(rng, fl)
    nfiles = rng.randint(1, 4)
    long_tail = fl.get("multiline") and rng.random() < 0.12
    dos = (not fl.get("crlf")) and rng.random() < 0.15
    files = [(NAMES[i], gen_file(rng, fl.get("crlf"), long_tail, dos and rng.random() < 0.8)) for i in range(nfiles)]
    if not relations and rng.random() < 0.2:
        files[rng.randrange(nfiles)] = (None, gen_file(rng, fl.get("crlf")))
    if not relations and fl.get("binary") and rng.random() < 0.7:
        i = rng.randrange(nfiles)
        d = files[i][1]
        k = rng.randint(0, len(d))
        files[i] = (files[i][0], d[:k] + b"\x00" + d[k:])
    mx = rng.choice([None, None, None, 0, 1, 1, 2, 3])
    named = (relation_modes(mx) if relations else []) + random_modes(rng, mx)
    return dict(pattern=pat, flags=fl, files=files, modes=[m for _, m in named], names=[n for n, _ in named],
                relations=relations, mx=mx)


# ----------------------------------------------------------------------------- reading real outputs

def split_records(out):
    """output lines (terminator \n or \r\n); a record of the cases used here never contains \n inside"""
    return [ln for ln in out.split(b"\n") if ln != b""] if out else []


def parse_counts(out):
    d = {}
    for ln in split_records(out):
        ln = ln.rstrip(b"\r")
        m = re.match(rb"^(f\d):(\d+)$", ln)
        if m:
            d[m.group(1)] = int(m.group(2))
        else:
            d[b"?"] = ln
    return d


def parse_paths(out):
    return [ln.rstrip(b"\r") for ln in split_records(out)]


def records_by_file(out):
    d = {}
    for ln in split_records(out):
        m = re.match(rb"^(f\d):", ln)
        d.setdefault(m.group(1) if m else b"?", []).append(ln)
    return d


def json_by_file(msgs):
    """msgs: list of parsed message values -> {path: dict(matches=[(lines, subs)], end=stats, begins, ends)}"""
    d = {}
    cur = None
    order_ok = True
    for m in msgs:
        t = m[0]
        path = as_bytes(m[1][0][1]) if m[1] else b""
        e = d.setdefault(path, dict(matches=[], contexts=0, begins=0, ends=0, end=None))
        if t == 0:
            if cur is not None:
                order_ok = False
            cur = path
            e["begins"] += 1
        elif t in (1, 2):
            if cur != path:
                order_ok = False
            if t == 1:
                e["matches"].append((m[2], m[5]))
            else:
                e["contexts"] += 1
        elif t == 3:
            if cur != path:
                order_ok = False
            cur = None
            e["ends"] += 1
            e["end"] = m[3]
    if cur is not None:
        order_ok = False
    return d, order_ok


def data_bytes(d):
    """a Data value (0 text) | (1 base64) -> the bytes it stands for"""
    import base64
    b = as_bytes(d[1])
    return b if d[0] == 0 else base64.b64decode(b)


def block_line_spans(block):
    """the lines of a block, terminator (\\n) included: [(start, end)]"""
    res, st = [], 0
    while st < len(block):
        k = block.find(b"\n", st)
        en = len(block) if k < 0 else k + 1
        res.append((st, en))
        st = en
    return res


def line_content_end(block, ls, le, crlf):
    """end of the line's content: the line without its terminator (\\n, or \\r\\n under --crlf)"""
    e = le
    if e > ls and block[e - 1:e] == b"\n":
        e -= 1
        if crlf and e > ls and block[e - 1:e] == b"\r":
            e -= 1
    return e


def expected_multi_line_records(matches, crlf):
    """from the JSON match messages [(lines, [(text, start, end)])] of a multi-line search: the number of
    --only-matching records (one per line on whose content a submatch has a byte) and of --vimgrep records (one per
    submatch that touches a line), as the theorems only_matching_multi_line_records / per_match_multi_line_event_records
    state them; plus what the generated case exercised"""
    r = dict(o=0, pm=0, zero_o=0, zero_pm=0, spanning=0, adjacent=0, subs=0)
    for l, subs in matches:
        block = data_bytes(l)
        lines = block_line_spans(block)
        prev = None
        for sm in subs:
            ms, me = sm[1], sm[2]
            pieces = sum(1 for ls, le in lines if max(ls, ms) < min(line_content_end(block, ls, le, crlf), me))
            touched = sum(1 for ls, le in lines if ls < me and ms < le)
            r["subs"] += 1
            r["o"] += pieces
            r["pm"] += 1 if touched else 0
            r["zero_o"] += pieces == 0
            r["zero_pm"] += touched == 0
            r["spanning"] += pieces > 1
            r["adjacent"] += prev is not None and prev == ms
            prev = me
    return r


def check_relations(ctx, c, outs, where):
    """outs: {mode name: (out, per_file)} real outputs; the property oracle"""
    fl = c["flags"]
    multi = bool(outs.get("_multi"))
    invert = bool(fl.get("invert"))
    mx = c["mx"]
    files = [p for p, _ in c["files"]]
    bad = []

    def v(what, **kw):
        bad.append((what, kw))

    count = parse_counts(as_bytes(outs["count"][0]))
    cm = parse_counts(as_bytes(outs["cm"][0]))
    lset = parse_paths(as_bytes(outs["l"][0]))
    Lset = parse_paths(as_bytes(outs["L"][0]))
    std = records_by_file(as_bytes(outs["std"][0]))
    std_o = records_by_file(as_bytes(outs["std_o"][0]))
    std_pm = records_by_file(as_bytes(outs["std_pm"][0])) if "std_pm" in outs else None
    jd, order_ok = json_by_file(outs["json"][0])
    if not order_ok:
        v("JSON messages are not begin, matches/contexts, end per file")
    if b"?" in count or b"?" in cm:
        v("unparsable count output", count=repr(count), cm=repr(cm))
    for i, f in enumerate(files):
        data = c["files"][i][1]
        n = count.get(f)
        ncm = cm.get(f)
        if n is None or ncm is None:
            v("a searched file is missing from -c --include-zero output", file=f)
            continue
        je = jd.get(f, dict(matches=[], end=None, begins=0, ends=0))
        nsub = sum(len(s) for _, s in je["matches"])
        # D2 class: a (non-inverted) match message without submatch, on an unterminated last line
        d2 = (not invert) and any(len(s) == 0 and not data_bytes(l).endswith(b"\n") for l, s in je["matches"])
        nosub_terminated = (not invert) and any(len(s) == 0 and data_bytes(l).endswith(b"\n") for l, s in je["matches"])
        if nosub_terminated:
            v("a reported matching line has no submatch although it is terminated", file=f)
        if d2:
            ctx.known(KNOWN_D2, "%s pattern=%r file=%r flags=%r" % (where, c["pattern"], data, fl))
        mlmax = multi and mx is not None and not invert
        nstd = len(std.get(f, []))
        nj = len(je["matches"])
        std_mc = outs["std"][1][i][1]
        if not multi:
            if not (n == nstd == nj == std_mc):
                v("--count differs from the number of matching lines printed / JSON match messages", file=f, count=n,
                  std_lines=nstd, json_matches=nj, std_match_count=std_mc)
        else:
            # documented: in multi-line mode --count is --count-matches
            if not invert and n != ncm:
                v("multi-line: --count differs from --count-matches", file=f, count=n, count_matches=ncm)
            if invert and not (n == nstd == nj):
                v("multi-line inverted: --count differs from the number of lines printed", file=f, count=n,
                  std_lines=nstd, json_matches=nj)
        if not invert:
            if ncm != nsub:
                if mlmax:
                    ctx.known(KNOWN_MLMAX, "%s pattern=%r file=%r flags=%r max=%r: count-matches=%d json submatches=%d"
                              % (where, c["pattern"], data, fl, mx, ncm, nsub))
                else:
                    v("--count-matches differs from the number of JSON submatches", file=f, count_matches=ncm,
                      json_submatches=nsub)
            spans_lines = any(b"\n" in data_bytes(s[0])[:-1] or (fl.get("crlf") and multi and b"\r" in data_bytes(s[0]))
                              for _, subs in je["matches"] for s in subs)
            if not spans_lines:
                no = len(std_o.get(f, []))
                nosub_lines = sum(1 for _, subs in je["matches"] if len(subs) == 0)
                expect = nsub + nosub_lines   # a matching line without submatch (D2) is printed whole, as one record
                if multi and no != expect:
                    def visible(t):
                        t = data_bytes(t)
                        if fl.get("crlf"):
                            t = t.replace(b"\r\n", b"")
                        return t.replace(b"\n", b"")
                    nonempty = sum(1 for _, subs in je["matches"] for s in subs if visible(s[0]) != b"")
                    if no == nonempty + nosub_lines:
                        ctx.known(KNOWN_MLOEMPTY, "%s pattern=%r file=%r flags=%r: -o records=%d submatches=%d"
                                  % (where, c["pattern"], data, fl, no, nsub))
                        expect = no
                if no != expect:
                    v("number of --only-matching records differs from the number of JSON submatches", file=f,
                      only_matching=no, json_submatches=nsub, d2=d2)
            npm = len(std_pm.get(f, [])) if std_pm is not None else None
            nosub_msgs = sum(1 for _, subs in je["matches"] if len(subs) == 0)
            if multi and not nosub_msgs:
                ex = expected_multi_line_records(je["matches"], bool(fl.get("crlf")))
                no = len(std_o.get(f, []))
                if where == "library" and ex["subs"]:
                    feat = ctx.cov.setdefault("features", {})
                    for k_, n_ in (("ml_o_files_with_submatches", 1), ("ml_o_submatches", ex["subs"]),
                                   ("ml_o_records_compared", no), ("ml_o_spanning_submatches", ex["spanning"]),
                                   ("ml_o_adjacent_submatches", ex["adjacent"]),
                                   ("ml_o_submatches_without_record", ex["zero_o"]),
                                   ("ml_pm_records_compared", npm or 0),
                                   ("ml_pm_submatches_without_record", ex["zero_pm"])):
                        feat[k_] = feat.get(k_, 0) + int(n_)
                if no != ex["o"]:
                    v("multi-line --only-matching: the number of records is not the number of (submatch, line) pairs "
                      "where the submatch has a byte on the line's content (theorem only_matching_multi_line_records)",
                      file=f, only_matching=no, expected=ex["o"], json_submatches=nsub)
                elif ex["zero_o"] and spans_lines:
                    ctx.known(KNOWN_MLOEMPTY, "%s pattern=%r file=%r flags=%r: -o records=%d submatches=%d"
                              % (where, c["pattern"], data, fl, no, nsub))
                if npm is not None:
                    if npm != ex["pm"]:
                        v("multi-line --vimgrep: the number of records is not the number of submatches that touch a "
                          "line (theorem per_match_multi_line_event_records)", file=f, vimgrep=npm, expected=ex["pm"],
                          json_submatches=nsub)
                    elif ex["zero_pm"]:
                        # observation outside the property (C10 does not name --vimgrep): an empty submatch at a line
                        # start gets no record; the expected count above already is what the proved model says
                        feat = ctx.cov.setdefault("features", {})
                        feat[OBS_MLPMEMPTY] = feat.get(OBS_MLPMEMPTY, 0) + 1
            elif not multi and npm is not None and npm != nsub + nosub_msgs:
                # line-oriented per-match output: one record per submatch (theorem per_match_records of C09); a
                # matching line without submatch (D2) is printed once
                v("--vimgrep: the number of records differs from the number of JSON submatches", file=f, vimgrep=npm,
                  json_submatches=nsub, d2=d2)
            if je["end"] is not None and je["end"][5] != nsub:
                v("JSON end.stats.matches differs from the submatches reported", file=f)
        # files-with-matches / files-without-match / quiet, all from the same counter
        if (f in lset) != (n > 0):
            v("--files-with-matches disagrees with --count > 0", file=f, count=n, listed=f in lset)
        if (f in Lset) != (n == 0):
            v("--files-without-match disagrees with --count = 0", file=f, count=n, listed=f in Lset)
        qh = outs["q"][1][i][2]
        qsh = outs["q_stats"][1][i][2]
        if bool(qh) != (n > 0) or bool(qsh) != (n > 0):
            v("--quiet's verdict disagrees with --count > 0", file=f, count=n, quiet=qh, quiet_stats=qsh)
        sh = outs["std"][1][i][2]
        if bool(sh) != (n > 0):
            if multi and d2:
                pass   # known finding reported above: the summary printers do not see the D2 line
            elif mlmax and mx == 0:
                pass
            else:
                v("standard mode's has_match disagrees with --count > 0", file=f, count=n, standard=sh)
        # per-file stats agree across printers and with the counts
        st_std = outs["std_stats"][1][i][3]
        st_cnt = outs["count_stats"][1][i][3]
        st_json = outs["json"][1][i][3]
        if st_std and st_cnt:
            a, b = st_std[0], st_cnt[0]
            if (a[0], a[1], a[4], a[5]) != (b[0], b[1], b[4], b[5]) and not (mlmax or (multi and d2)):
                v("per-file stats differ between standard --stats and --count --stats", file=f, std=a, count=b)
            if not invert and a[5] != nsub and not mlmax:
                v("stats.matches differs from the number of JSON submatches", file=f, stats=a, nsub=nsub)
            if not multi and a[4] != n:
                v("stats.matched_lines differs from --count", file=f, stats=a, count=n)
            if a[0] != 1 or a[1] != (1 if std_mc > 0 else 0):
                v("stats.searches / searches_with_match wrong", file=f, stats=a)
        if st_json and st_std:
            a, b = st_std[0], st_json[0]
            if (a[0], a[1], a[2], a[4], a[5]) != (b[0], b[1], b[2], b[4], b[5]):
                v("per-file stats differ between standard --stats and JSON", file=f, std=a, json=b)
    for what, kw in bad:
        ctx.violation("%s: %s" % (where, what),
                      dict(kind="relations", where=where, pattern=c["pattern"], flags=fl, mx=mx,
                           files=[(repr(p), repr(d)) for p, d in c["files"]], detail={k: repr(x) for k, x in kw.items()},
                           case=pl.case_val(c), c=pl.jsonable(c)))
    return not bad


# ----------------------------------------------------------------------------- library level

def check_bytes_printed(ctx, c, real, written):
    """stats.bytes_printed of a search = the bytes that search wrote to the printer's writer"""
    for k, m in enumerate(c["modes"]):
        if m["t"] not in (0, 1) or not (m.get("stats") or (m["t"] == 0 and m["kind"] == 1)):
            continue
        for i, row in enumerate(real[k][1]):
            if not row[0] or not row[3] or i >= len(written[k]):
                continue
            bp, w = row[3][0][3], written[k][i]
            if bp == w:
                continue
            ctx.cov["bytes_printed_checked_mismatch"] = ctx.cov.get("bytes_printed_checked_mismatch", 0) + 1
            if m["t"] == 0 and bp == 0:
                # known: SummarySink::finish samples the byte counter before it writes the count / path line
                ctx.known(KNOWN_SUMBYTES, "pattern=%r file=%r mode=%s: bytes_printed=0, written=%d"
                          % (c["pattern"], c["files"][i][1], c["names"][k], w))
            else:
                ctx.violation("library: --stats 'bytes printed' of a search is not the number of bytes it wrote (mode %s)"
                              % c["names"][k],
                              dict(kind="relations", pattern=c["pattern"], flags=c["flags"], mode=m,
                                   files=[(repr(p), repr(d)) for p, d in c["files"]], file_index=i,
                                   bytes_printed=bp, bytes_written=w, case=pl.case_val(c), c=pl.jsonable(c)))

def check_library(ctx, cases):
    res = pl.run_cases(ctx, cases)
    for ci, (c, r) in enumerate(zip(cases, res)):
        if r is None:
            continue
        status, real, model, line = r[:4]
        if status != 0:
            ctx.cov["rejected_patterns"] = ctx.cov.get("rejected_patterns", 0) + 1
            if status != 1:
                # 1 = the pattern was rejected; anything else means the real searcher could not run the case at all
                ctx.violation("the harness could not run a generated case on the real searcher (status %d)" % status,
                              dict(kind=1001, case=line, pattern=c["pattern"], flags=c["flags"],
                                   files=[(repr(p_), repr(d)) for p_, d in c["files"]]), nfi=True)
            continue
        if not r[5]:
            # the searcher kept delivering events after a refusal (property C16, defect D7): the printer models
            # assume the prefix law, so this case says nothing about them
            ctx.cov["skipped_searcher_broke_prefix_law_C16"] = ctx.cov.get("skipped_searcher_broke_prefix_law_C16", 0) + 1
            res[ci] = None
            continue
        nontrivial = False
        outs = {}
        for k, name in enumerate(c["names"]):
            outs[name] = real[k]
        # link 2: model vs code, every mode
        if not isinstance(model, list) or len(model) != len(real):
            ctx.violation("printer model produced no result (out of fuel / driver failure)",
                          dict(kind=1001, case=line, model=repr(model)), nfi=True)
            continue
        for k, name in enumerate(c["names"]):
            if model[k] != real[k]:
                ctx.violation("printer model and real printer disagree in mode %s (the C10/C09 theorems no longer "
                              "describe the code)" % name,
                              dict(kind=1001, case=line, mode=c["modes"][k], pattern=c["pattern"], flags=c["flags"],
                                   files=[(repr(p), repr(d)) for p, d in c["files"]],
                                   model=repr(model[k]), code=repr(real[k]), c=pl.jsonable(c)), nfi=True)
            if as_bytes(real[k][0]) if isinstance(real[k][0], bytes) else real[k][0]:
                nontrivial = True
        ctx.note_case(line, nontrivial)
        check_bytes_printed(ctx, c, real, r[6])
        feat = ctx.cov.setdefault("features", {})
        for n in ("multiline", "crlf", "invert", "word", "whole_line", "ignore_case", "passthru", "after", "binary"):
            if c["flags"].get(n):
                feat[n] = feat.get(n, 0) + 1
        if c["mx"] is not None:
            feat["max_count"] = feat.get("max_count", 0) + 1
        if any(d and not d.endswith(b"\n") for _, d in c["files"]):
            feat["no_final_newline"] = feat.get("no_final_newline", 0) + 1
        if not c["flags"].get("crlf") and any(b"\r\n" in d for _, d in c["files"]):
            feat["dos_file_without_crlf_flag"] = feat.get("dos_file_without_crlf_flag", 0) + 1
        if c["flags"].get("multiline") and re.search(r"\\n(\\b|\\B|\^|\$|\(\?:)", c["pattern"]):
            feat["lookahead_after_terminator"] = feat.get("lookahead_after_terminator", 0) + 1
        if any(len(d) > 160 for _, d in c["files"]):
            feat["match_far_from_eof_possible"] = feat.get("match_far_from_eof_possible", 0) + 1
        if c["relations"]:
            outs["_multi"] = r[4]
            if outs["_multi"]:
                feat["multi_line_strategy"] = feat.get("multi_line_strategy", 0) + 1
            check_relations(ctx, c, outs, "library")
            if nontrivial:
                ctx.sample(dict(pattern=c["pattern"], flags={k: v for k, v in c["flags"].items() if v},
                                files=[d.decode("latin1") for _, d in c["files"]], max=c["mx"],
                                count=as_bytes(outs["count"][0]).decode("latin1"),
                                count_matches=as_bytes(outs["cm"][0]).decode("latin1")))
    return res


# ----------------------------------------------------------------------------- CLI level

def cli_outputs(c, tree, extra):
    """real rg under every reporting mode for the case's flags; returns the same dict shape as the library's"""
    fl = c["flags"]
    base = pl.cli_flags(fl) + ["--sort", "path", "--with-filename"] + extra
    if c["mx"] is not None:
        base += ["-m", str(c["mx"])]
    pat = ["-e", c["pattern"]]
    names = tree.names
    res = {}

    def run(args):
        return pl.rg(base + args + pat + names, tree.dir)
    rc, out, err = run(["-c", "--include-zero"])
    if rc == 2:
        return None
    res["count"] = (rc, out, err)
    res["cm"] = run(["--count-matches", "--include-zero"])
    res["l"] = run(["-l"])
    res["L"] = run(["--files-without-match"])
    res["q"] = run(["-q"])
    res["q_stats"] = run(["-q", "--stats"])
    res["std"] = run(["--no-heading", "-n"])
    res["std_o"] = run(["--no-heading", "-n", "-o"])
    res["std_pm"] = run(["--no-heading", "-n", "--vimgrep"])
    res["std_stats"] = run(["--no-heading", "-n", "--stats"])
    res["count_stats"] = run(["-c", "--include-zero", "--stats"])
    res["json"] = run(["--json"])
    res["json_stats"] = run(["--json", "--stats"])
    res["json_q"] = run(["--json", "-q"])
    # the same searches with several threads (search_parallel folds the per-file statistics itself)
    par = [a for a in base if a not in ("--sort", "path")] + ["-j3"]
    res["std_stats_par"] = pl.rg(par + ["--no-heading", "-n", "--stats"] + pat + names, tree.dir)
    res["count_stats_par"] = pl.rg(par + ["-c", "--include-zero", "--stats"] + pat + names, tree.dir)
    # mode normalisation (hiargs.rs): -v --count-matches => --count ; -o --count => --count-matches
    res["norm_vcm"] = run(["-v", "--count-matches", "--include-zero"])
    res["norm_vc"] = run(["-v", "-c", "--include-zero"])
    res["norm_oc"] = run(["-o", "-c", "--include-zero"])
    return res


STATS_RE = re.compile(rb"\n(\d+) matches\n(\d+) matched lines\n(\d+) files contained matches\n(\d+) files searched\n"
                      rb"(\d+) bytes printed\n(\d+) bytes searched\n[0-9.]+ seconds spent searching\n[0-9.]+ seconds\n$")


def split_stats(out):
    m = STATS_RE.search(out)
    if not m:
        return out, None
    return out[:m.start()], [int(x) for x in m.groups()]


def check_cli(ctx, c, lib_outs):
    import json as pyjson
    fl = c["flags"]
    extra = [ctx.rng.choice(["--mmap", "--no-mmap"])]
    with pl.Tree(c["files"]) as tree:
        r = cli_outputs(c, tree, extra)
    if r is None:
        return
    ctx.cov["cli_cases"] = ctx.cov.get("cli_cases", 0) + 1
    bad = []

    def v(what, **kw):
        bad.append((what, kw))
    # 1. the CLI is the library printers (validates harness/src/rgcfg.rs and the kind mapping of hiargs.rs::printer)
    for name in ("count", "cm", "l", "L", "std", "std_o", "std_pm"):
        lib = lib_outs["count" if (name == "cm" and fl.get("invert")) else name]   # -v --count-matches is -v --count
        if r[name][1] != as_bytes(lib[0]):
            v("rg output differs from the library printer for mode " + name,
              cli=r[name][1], library=as_bytes(lib_outs[name][0]))
    # 2. exit status of every mode: 0 iff something matched (errors aside)
    nfiles = len(c["files"])
    any_match = any(lib_outs["std"][1][i][2] for i in range(nfiles))
    any_count = any(lib_outs["q"][1][i][2] for i in range(nfiles))
    for name in ("count", "cm", "l", "q", "q_stats", "std", "std_o", "json"):
        rc = r[name][0]
        want = 0 if (any_count if name in ("count", "cm", "l", "q", "q_stats") else any_match) else 1
        if rc != want:
            v("exit status of mode %s is %d, expected %d" % (name, rc, want))
    # --files-without-match: status 0 iff a file without match exists
    # (SummarySink::has_match for PathWithoutMatch); property C15 owns the rest
    # 3. normalisation
    if r["norm_vcm"][1] != r["norm_vc"][1]:
        v("-v --count-matches is not -v --count", a=r["norm_vcm"][1], b=r["norm_vc"][1])
    if not fl.get("invert") and r["norm_oc"][1] != r["cm"][1]:
        v("-o --count is not --count-matches", a=r["norm_oc"][1], b=r["cm"][1])
    # 4. --stats totals are sums over files
    body, tot = split_stats(r["std_stats"][1])
    tot_std = list(tot) if tot is not None else None
    if tot is None:
        v("no --stats block in standard mode output")
    else:
        per = [lib_outs["std_stats"][1][i][3][0] for i in range(nfiles)]
        sums = [sum(p[5] for p in per), sum(p[4] for p in per), sum(p[1] for p in per), sum(p[0] for p in per),
                sum(p[3] for p in per), sum(p[2] for p in per)]
        if c["mx"] is not None:
            tot[5] = sums[5] = 0   # bytes searched after an early stop depends on the search strategy (D8, C02)
        if tot != sums:
            v("--stats totals are not the sums of the per-file statistics", totals=tot, sums=sums)
        if tot[4] != len(body):
            v("--stats 'bytes printed' is not the number of bytes printed", total=tot[4], printed=len(body))
        if c["mx"] is None and tot[5] != sum(len(d) for _, d in c["files"]):
            v("--stats 'bytes searched' is not the total size of the files searched", total=tot[5])
    # -jN: the totals do not depend on the number of threads (the search output is a permutation, same length)
    for name in ("std_stats", "count_stats"):
        _, t1 = split_stats(r[name][1])
        _, tp = split_stats(r[name + "_par"][1])
        if t1 is not None and tp != t1:
            v("--stats totals with -j3 differ from the single-threaded totals (mode %s)" % name, single=t1, parallel=tp)
    body, tot = split_stats(r["count_stats"][1])
    if tot is not None:
        per = [lib_outs["count_stats"][1][i][3][0] for i in range(nfiles)]
        sums = [sum(p[5] for p in per), sum(p[4] for p in per), sum(p[1] for p in per), sum(p[0] for p in per),
                sum(p[3] for p in per), sum(p[2] for p in per)]
        if c["mx"] is not None:
            tot[5] = sums[5] = 0
        if tot != sums:
            v("-c --stats totals are not the sums of the per-file statistics", totals=tot, sums=sums)
    else:
        v("no --stats block in -c output")
    # JSON: summary = sum of the end messages
    msgs = []
    summary = None
    for ln in r["json_stats"][1].split(b"\n"):
        if not ln:
            continue
        try:
            m = pyjson.loads(ln.decode("utf-8"))
        except Exception:
            v("unparsable JSON line", line=ln)
            continue
        if m["type"] == "summary":
            summary = m["data"]["stats"]
        else:
            msgs.append(m)
    if summary is None:
        v("no summary message under --json --stats")
    else:
        ends = [m["data"]["stats"] for m in msgs if m["type"] == "end"]
        # (files without output have no end message; their searches / bytes searched are compared with --stats below)
        for k in ("searches_with_match", "bytes_printed", "matched_lines", "matches"):
            if summary[k] != sum(e[k] for e in ends):
                v("JSON summary.%s is not the sum over the end messages" % k, summary=summary[k],
                  ends=[e[k] for e in ends])
    # plain --json implies --stats: its summary totals are those `--stats` reports in standard mode
    if summary is not None and tot_std is not None:
        a = (summary["matches"], summary["matched_lines"], summary["searches_with_match"])
        if a != (tot_std[0], tot_std[1], tot_std[2]):
            v("--json summary (matches, matched lines, files with matches) differs from the --stats totals",
              json=a, stats=tot_std[:3])
        nbegin = sum(1 for m in msgs if m["type"] == "begin")
        ends = [m["data"]["stats"] for m in msgs if m["type"] == "end"]
        want_bytes = tot_std[5] if c["mx"] is None else summary["bytes_searched"]
        if summary["searches"] != tot_std[3] or summary["bytes_searched"] != want_bytes:
            v("--json summary (searches, bytes searched) differs from the --stats totals",
              json=(summary["searches"], summary["bytes_searched"]), stats=(tot_std[3], tot_std[5]))
    # --quiet with statistics (-q --stats, and --json -q where statistics are implicit) must still search every
    # file: the totals are the sums of what the per-file modes report
    nl = len(parse_paths(r["l"][1]))
    cnt = parse_counts(r["count"][1])
    cmc = parse_counts(r["cm"][1])
    multi = bool(lib_outs.get("_multi"))

    def quiet_totals(name, tot):
        # tot = (matches, matched_lines, files with matches, files searched)
        if tot[3] != nfiles:
            v("%s: 'files searched' is not the number of files" % name, got=tot[3], files=nfiles)
        if tot[2] != nl:
            v("%s: 'files contained matches' is not the number of files -l lists" % name, got=tot[2], listed=nl)
        if not multi and b"?" not in cnt and tot[1] != sum(cnt.values()):
            v("%s: 'matched lines' is not the sum of the --count values" % name, got=tot[1], counts=cnt)
        if not fl.get("invert") and b"?" not in cmc and tot[0] != sum(cmc.values()) and not (multi and c["mx"] is not None):
            v("%s: 'matches' is not the sum of the --count-matches values" % name, got=tot[0], counts=cmc)
    body, tot = split_stats(r["q_stats"][1])
    if tot is None:
        v("no --stats block under -q --stats")
    else:
        if body != b"":
            v("-q --stats printed search output", out=body)
        quiet_totals("-q --stats", (tot[0], tot[1], tot[2], tot[3]))
    jq = [ln for ln in r["json_q"][1].split(b"\n") if ln]
    if len(jq) != 1:
        v("--json -q must print exactly the summary message", out=r["json_q"][1])
    else:
        try:
            st = pyjson.loads(jq[0].decode("utf-8"))["data"]["stats"]
            quiet_totals("--json -q", (st["matches"], st["matched_lines"], st["searches_with_match"], st["searches"]))
        except Exception:
            v("--json -q: unparsable summary", out=jq[0])
    if r["json_q"][0] != r["q"][0]:
        v("exit status of --json -q differs from -q", a=r["json_q"][0], b=r["q"][0])
    # the JSON messages of the CLI are the library's
    cli_msgs = [ln for ln in r["json"][1].split(b"\n") if ln and b'"type":"summary"' not in ln]
    if len(cli_msgs) != len(lib_outs["json"][0]):
        v("rg --json emits a different number of messages than the library JSON printer", cli=len(cli_msgs),
          library=len(lib_outs["json"][0]))
    # 5. the cross-mode relations on the CLI outputs themselves
    cli_view = dict(lib_outs)
    for name in ("cm", "l", "L", "std", "std_o", "std_pm"):
        cli_view[name] = (r[name][1], lib_outs[name][1])
    cli_view["count"] = (r["count"][1], lib_outs["count"][1])
    check_relations(ctx, c, cli_view, "cli")
    for what, kw in bad:
        ctx.violation("cli: " + what, dict(kind="cli", pattern=c["pattern"], flags=fl, mx=c["mx"], extra=extra,
                                           files=[(repr(p), repr(d)) for p, d in c["files"]],
                                           detail={k: repr(x) for k, x in kw.items()}, case=pl.case_val(c),
                                           c=pl.jsonable(c)))


# ----------------------------------------------------------------------------- corpus

def corpus():
    L = dict(line_number=1)
    U = dict(line_number=1, multiline=1)

    def mk(pat, fl, files, mx=None):
        named = relation_modes(mx)
        return dict(pattern=pat, flags=fl, files=[(NAMES[i], d) for i, d in enumerate(files)],
                    modes=[m for _, m in named], names=[n for n, _ in named], relations=True, mx=mx)
    return [
        mk("$", L, [b"abc"]),                                   # D2
        mk("c|$", L, [b"abc", b"abc\n"]),
        mk("$", U, [b"abc"]),                                   # D2, multi-line flavour
        mk(r"a\n", dict(U, invert=1), [b"a\nb\nc\n"]),          # D13 (repaired)
        mk(r"a\n", dict(U, invert=1), [b"a\nb\nc\n"], mx=1),
        mk(r"a|\n\n", U, [b"aXaXa\nb\na\n"], mx=2),             # MultiLineMaxCountSummary
        mk("a", L, [b"a\nb\naa\n", b"b\n", b"xa"]),
        mk("a", L, [b"a\na\na\n"], mx=2),
        mk("a", L, [b"a\n"], mx=0),
        mk("x*", L, [b"ab\n\nxx"]),
        mk(r"\b", dict(L, crlf=1), [b"ab cd\r\n\r\nx"]),
        mk("^$", dict(L, crlf=1), [b"\r\n\r\na\r\n"]),
        mk("a", dict(L, invert=1), [b"a\nb\n", b"a\n", b""]),
        mk("A", dict(L, ignore_case=1, word=1), [b"a ab\nA\n"]),
        mk("ab", dict(L, whole_line=1), [b"ab\nabc\nab"]),
        mk(r"a\nb", U, [b"a\nb\na\nb\nc\n", b"a\n"]),
        mk(r"(?s).+", U, [b"a\nb\n"]),
        mk(r"\n", U, [b"\n\n\n"]),
        # multi-line -o / --vimgrep records: a submatch spanning two lines, adjacent submatches, both, with CRLF;
        # empty matches at line starts (observation MultiLinePerMatchDropsEmptyMatchAtLineStart)
        mk(r"c\nd|e", U, [b"abc\nde\n"]),
        mk(r"a|b|\n", U, [b"ab\nba\n", b"ab"]),
        mk(r"b\nb|a", U, [b"ab\nba\n", b"ab\nb"]),
        mk(r"b\r\nb|a", dict(U, crlf=1), [b"ab\r\nba\r\n"]),
        mk(r"b\s+b|a", dict(U, crlf=1), [b"ab\r\n\r\nba\r\n"]),
        mk(r"(?s)b.+b", U, [b"ab\nxx\n\nba\n"]),
        mk(r"(?:x|\n)*", U, [b"abc\nde\n"]),
        mk(r"(?:x|\n)*", U, [b"abc\nde\n"], mx=1),
        # a multi-line match whose last assertion looks past the reported lines, near and far from the end of input
        mk(r"foo\n\b", U, [b"xx foo\nbar\n", b"xx foo\nbar\n" + b"z z\n" * 40, b"foo\n"]),
        mk(r"(?m)a\n^", U, [b"a\nb", b"a\n" + b"y" * 130 + b"\n"]),
        # ... where the NEXT line (beyond the reported range, in the searcher's buffer) decides the assertion
        mk(r"foo\n\b", U, [b"xx foo\nbar\nfoo\n bar\nfoo\nbaz\n" + b"q\n" * 80, b"foo\n-\nfoo\nx\n"]),
        mk(r"a\n\B", U, [b"a\n b\na\nb\n", b"a\nb\n" + b"z" * 200 + b"\n"]),
        mk(r"b\n$", U, [b"b\n\nb\nx\n"]),
        # DOS line ends searched without --crlf: the \r is line content for searcher and printers alike
        mk("bar.", L, [b"foo bar\r\nbaz\r\nbar\r\n", b"bar\n"]),
        mk(r"\w+\r", L, [b"ab\r\ncd\r\n"]),
        mk(r"[a-z]+\s*$", dict(L, ignore_case=1), [b"Foo Bar\r\nx\r\n"]),
        # -m N with statistics on (summary printer), several files, a non-last file matching (--json -q, -q --stats)
        mk("a", L, [b"a\na\na\nb\n", b"b\n", b"a a\na\n"], mx=2),
        mk("a", L, [b"a\n", b"a\n", b"b\n"]),
    ]


def corpus_binary():
    """files with a NUL byte and a match, binary detection on, statistics on: the binary notice is output too"""
    res = []
    for binary in (1, 2):
        for data in (b"a\x00b\na\n", b"a\nb\x00\na\n", b"x\na\x00\n"):
            named = [("std_stats", mstd(stats=1)), ("std_stats_col", mstd(stats=1, col=1, heading=1)),
                     ("count_stats", msum(0, stats=1, ez=0)), ("cm", msum(1, ez=0))]
            res.append(dict(pattern="a", flags=dict(line_number=1, binary=binary), files=[(b"f1", data), (b"f2", b"a\n")],
                            modes=[m for _, m in named], names=[n for n, _ in named], relations=False, mx=None))
    return res


def run(ctx):
    rng = ctx.rng
    ctx.cov["rule"] = ("a case = pattern (pool incl. empty-matching, anchors, word boundaries, line-spanning) x flags "
                       "(-U --crlf -v -i -w -x -m N) x 1-4 files (0-6 short lines, with/without final terminator, a few "
                       "invalid UTF-8 bytes, long tails for the look-ahead cut) x 14 printer configurations; "
                       "non-trivial = some mode printed something; distinct by case text. 'features' counts cases per "
                       "flag; 'multi_line_strategy' counts cases where the searcher chose the multi-line strategy.")
    # corpus + known findings replayed first
    cs = corpus()
    run_batch(ctx, cs, cli_every=1)
    run_batch(ctx, corpus_binary(), cli_every=0)
    # relation cases
    n = ctx.count(1200)
    cases = [gen_case(rng, True) for _ in range(n)]
    run_batch(ctx, cases, cli_every=max(1, n // ctx.count(60)))
    # configuration-coverage cases (contexts, binary, separators, no path): model vs code only
    n2 = ctx.count(800)
    cases2 = [gen_case(rng, False) for _ in range(n2)]
    run_batch(ctx, cases2, cli_every=0)
    check_small_models(ctx)
    ctx.assumptions += [
        "the searcher delivers to a sink the prefix of its event stream up to the first refused event, then finish "
        "(property C16); every run here drives the real printers by the real searcher, so the recorded unconstrained "
        "stream plus this law is checked against the real output",
        "the matcher (regex-automata behind grep-regex) is a Section variable; its find_at is tabulated per haystack",
        "std::str::from_utf8 and u64::to_string are third-party; utf8_valid and dec are compared with them per case",
    ]


def run_batch(ctx, cases, cli_every):
    res = check_library(ctx, cases)
    if cli_every:
        for k, (c, r) in enumerate(zip(cases, res)):
            if r is None or r[0] != 0 or not c["relations"] or k % cli_every:
                continue
            if any(b"\x00" in d for _, d in c["files"]) or "\x00" in c["pattern"]:
                continue
            if c["mx"] == 0:
                continue   # rg -m 0 searches nothing at all (HiArgs::matches_possible)
            outs = {name: r[1][j] for j, name in enumerate(c["names"])}
            outs["_multi"] = r[4]
            check_cli(ctx, c, outs)


def check_small_models(ctx):
    """Data::from_bytes (utf8 decision + base64) and DecimalFormatter: model = code"""
    rng = ctx.rng
    datas = [b"", b"a", b"\xff", b"\xc3\xa9", b"\xc3", b"\xe0\x9f\xbf", b"\xe0\xa0\x80", b"\xed\x9f\xbf", b"\xed\xa0\x80",
             b"\xf0\x8f\xbf\xbf", b"\xf0\x90\x80\x80", b"\xf4\x8f\xbf\xbf", b"\xf4\x90\x80\x80", b"\xc0\x80", b"\xc1\xbf",
             b"\xf5\x80\x80\x80", b"a\xffb", b"ab\xff", b"abc\xff", b"\x80", b"\xef\xbf\xbe", b"\xe2\x82\xac\xe2\x82"]
    for _ in range(ctx.count(600)):
        n = rng.randint(1, 9)
        k = rng.random()
        if k < 0.4:
            b = bytes(rng.choice([0x61, 0x7f, 0x80, 0xbf, 0xc2, 0xdf, 0xe0, 0xa0, 0x9f, 0xed, 0xef, 0xf0, 0x90, 0x8f, 0xf4,
                                  0xf5, 0xff, 0xc0, 0xc1, 0x0a]) for _ in range(n))
        elif k < 0.7:
            b = "".join(chr(rng.choice([0x41, 0xe9, 0x7ff, 0x800, 0xd7ff, 0xe000, 0xffff, 0x10000, 0x10ffff, 0x20ac]))
                        for _ in range(rng.randint(1, 4))).encode("utf-8")
            if rng.random() < 0.5:
                i = rng.randrange(len(b))
                b = b[:i] + bytes([rng.randrange(256)]) + b[i + 1:]
        else:
            b = bytes(rng.randrange(256) for _ in range(n))
        datas.append(b)
    lines = [vbytes(b) for b in datas]
    mo = vlib.model(1002, lines)
    co = vlib.code(1002, lines)
    import base64
    nb64 = 0
    for b, m, c_ in zip(datas, mo, co):
        ctx.note_case("data" + lines[datas.index(b)] if False else "data" + vbytes(b), True)
        if m != c_:
            ctx.violation("Data::from_bytes: model and code disagree (utf8_valid / base64_standard)",
                          dict(kind=1002, line=vbytes(b), model=m, code=c_))
            continue
        v = parse_val(c_)
        if not v:
            ctx.violation("Data::from_bytes harness produced nothing", dict(kind=1002, line=vbytes(b), code=c_), nfi=True)
            continue
        # oracle: text iff Python decodes it strictly; base64 per the Python library
        try:
            b.decode("utf-8")
            ok = True
        except UnicodeDecodeError:
            ok = False
        if (v[0] == 0) != ok:
            ctx.violation("JSON text/bytes decision is not 'valid UTF-8'", dict(kind=1002, line=vbytes(b), code=c_))
        elif v[0] == 0 and as_bytes(v[1]) != b:
            ctx.violation("JSON text is not the input", dict(kind=1002, line=vbytes(b), code=c_))
        elif v[0] == 1:
            nb64 += 1
            if as_bytes(v[1]) != base64.b64encode(b):
                ctx.violation("JSON bytes is not the standard base64 of the input", dict(kind=1002, line=vbytes(b), code=c_))
    ctx.cov["base64_cases"] = nb64
    nums = [0, 1, 9, 10, 11, 99, 100, 101, 12345, 2 ** 32 - 1, 2 ** 32, 2 ** 63, 2 ** 64 - 1, 10 ** 19, 10 ** 19 - 1]
    nums += [rng.randrange(2 ** rng.randint(1, 64)) for _ in range(ctx.count(200))]
    lines = [vbytes(str(n).encode()) for n in nums]
    mo = vlib.model(1003, lines)
    co = vlib.code(1003, lines)
    for n, m, c_ in zip(nums, mo, co):
        want = vbytes(str(n).encode())
        if m != c_ or c_ != want:
            ctx.violation("DecimalFormatter: model / code / decimal notation disagree",
                          dict(kind=1003, line=str(n), model=m, code=c_, expected=want))


def replay(ctx, data):
    r = data["replay"]
    if r.get("kind") in (1002, 1003):
        m = vlib.model(r["kind"], [r["line"]])
        c = vlib.code(r["kind"], [r["line"]])
        print("model:", m[0], "\ncode: ", c[0])
        if m != c:
            ctx.violation("replayed case still disagrees", r)
        return
    if "c" in r:
        run_batch(ctx, [pl.from_jsonable(r["c"])], cli_every=1 if r.get("kind") == "cli" else 0)
    line = r["case"]
    co = vlib.code(1001, [line])[0]
    v = parse_val(co)
    if v[0] != 0:
        print("harness status", v[0])
        return
    mo = vlib.model(1001, [pl.unparse(v[1])])[0]
    mv = parse_val(mo)
    for k, (a, b) in enumerate(zip(mv, v[2])):
        print("mode %d: %s" % (k, "agree" if a == b else "DIFFER\n  model=%r\n  code =%r" % (a, b)))
        if a != b:
            ctx.violation("replayed printer case: model and code still disagree in mode %d" % k, r, nfi=True)
    print("real outputs:")
    for k, b in enumerate(v[2]):
        print(" ", k, repr(b[0])[:400])



# ----------------------------------------------------------------------------------------------- source tie (DESIGN §4.2)
# the definitions of Gen/DecisionsLib.v this property's Props file ties to the model (`*_generated_eq_model`): when
# tools/gen/decisions_lib.py could not translate the current source text the tie is broken and reported
GEN_LIB_TARGETS = ['requires_path', 'requires_stats', 'quit_early', 'summary_should_quit', 'standard_should_quit', 'match_more_than_limit',
                   'json_should_quit', 'json_match_more_than_limit']
_run_checks = run


def run(ctx):
    _run_checks(ctx)
    vlib.report_gen_drift(ctx, "decisions_lib", GEN_LIB_TARGETS, bool(ctx.violations))
