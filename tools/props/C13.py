"""C13 — multi-line search reports exactly the lines covered by the pattern's matches."""
import vlib
from vlib import parse_val
import searchgen as sg

NEED_RG = True
MANIFEST = dict(
    text="Coq theorems (Props/C13.v): multi_line_eq_ref — MultiLine::run delivers exactly the events of the declarative "
         "multi-line reference ml_ref (lines overlapped by the successive leftmost non-overlapping matches of find_at over "
         "the WHOLE input, touching/overlapping line ranges merged into one block, inversion = the other lines one by one, "
         "context/breaks/numbers/offsets by the grep model) for every input, every configuration SearcherBuilder::build can "
         "produce and every matcher obeying the find_at contract; multi_line_matched_blocks (one matched event per maximal run "
         "of covered lines; a line is in a block iff some match overlaps it; blocks disjoint, increasing, never adjacent: no "
         "line twice), multi_line_inverted_lines, multi_line_run_terminates, find_uses_whole_input (D6), "
         "multi_line_eq_ref_pinned_refuted (D21: the pre-repair sink gave context to the match after the final terminator; "
         "found by this proof, repaired). Tie to the code on every run: model = code = reference with the scripted matcher "
         "(terminator-spanning, anchored needles) AND with the real RegexMatcher whose find_at is tabulated over the input "
         "(look-around at resumption points, \\z, empty matches), plus rg -U --mmap/--no-mmap/stdin on UTF-8/UTF-16 files.",
    note="trusted: Coq kernel, extraction, driver, harness; regex-automata behind find_at (tabulated, not modelled); "
         "fill_multi_line_buffer_from_file/_reader are exercised by the CLI oracle only; stopping sinks are C16's theorem",
    technique="Coq simulation proof (multi-line run = declarative reference) + extracted-model/implementation/reference correspondence incl. tabulated real regex matcher",
    design="§7 C13, notes/C13.md")


def run(ctx):
    rng = ctx.rng
    n = ctx.count(4000)
    cases = sg.regress_cases(True) + [sg.gen_case(rng, multi_line=True) for _ in range(n)]
    lines = [sg.case_val(c) for c in cases]
    co = vlib.code(301, lines)
    mo = vlib.model(301, lines)
    ro = vlib.model(1301, lines)
    feat = {}
    for case, line, c, m, r in zip(cases, lines, co, mo, ro):
        ml = case["lt_mode"] == 0   # otherwise the searcher falls back to the line strategy
        ev = parse_val(c)[1] if c.startswith("(") else []
        multi = any(e[0] == 1 and e[3].count(bytes([case["cfg"]["ltbyte"]])) > 1 for e in ev)
        anch = any(a for a, _, _ in case["needles"])
        for f, on in (("multiline_strategy", ml), ("multi_line_block", multi), ("anchored_needle", anch),
                      ("invert", case["cfg"]["invert"]), ("context", case["cfg"]["after"] + case["cfg"]["before"] > 0)):
            if on:
                feat[f] = feat.get(f, 0) + 1
        ctx.note_case(line, ml and len(ev) > 2)
        if multi:
            ctx.sample(dict(case=sg.describe(case), events=c))
        if c != m:
            ctx.violation("multi-line search_slice: model and code disagree",
                          dict(kind=301, line=line, case=sg.describe(case), model=m, code=c, ref=r), nfi=(not ml or c == r))
        if ml and c != r:
            ctx.violation("multi-line search differs from the specification (lines covered by successive find_at matches)",
                          dict(kind=1301, line=line, case=sg.describe(case), code=c, ref=r))
    # the multi-line heap buffer is kept by the Searcher between searches: a reused Searcher must behave like a fresh one
    ridx = list(range(0, len(lines), 4))
    fresh, reused = vlib.code(204, [lines[i] for i in ridx]), vlib.code(205, [lines[i] for i in ridx])
    for i, a, b in zip(ridx, fresh, reused):
        if a != b:
            ctx.violation("a reused Searcher (multi-line, reader input) delivers different results than a fresh one",
                          dict(kind=205, line=lines[i], case=sg.describe(cases[i]), fresh=a, reused=b))
    regex_cases(ctx, feat)
    inverted_partition(ctx, feat)
    null_data_cli(ctx)
    cli_strategies(ctx)
    ctx.cov["features"] = feat
    ctx.cov["rule"] = ("random multi-line searcher cases (needles touching/spanning the terminator, anchored needles = "
                       "look-behind); non-trivial = multi-line strategy selected and at least one result event")


REGEX_PATTERNS = [
    "a|\\z", "\\z", "b\\n", "\\n", "a\\nb", "(?m)^b", "\\bb\\nc|a", "\\Bb\\nc|a", "a*", "(?m)$", "(?m)^$", "b\\n+", "\\n\\n",
    "[ab]\\n?", "a.b", "x*\\z", "\\s+", "(?m)^", "a|\\n\\z", "c\\n|\\z", "\\b", "ab|\\bc\\nd", "foo|\\Bx\\ny", "\\n\\b", "a\\n?\\z",
    "(?m)a$\\n", "\\A", "[^a]+", "(a|b)\\n(a|b)", "\\r?\\n", "a\\s*\\z", "(?m)^\\n", "b|\\z", "\\w+\\n\\w+", "$",
]
# the witnesses of D6 (look-behind at the resumption point) and D21 (context for the match after the final terminator)
REGEX_CORPUS = [
    (dict(before=1), "a|\\z", b"a\nb\nc\n"), (dict(before=2, after=1), "a|\\z", b"a\nb\nc\nd\n"), (dict(before=1), "\\z", b"a\nb\n"),
    (dict(), "a|\\bb\\nc", b"ab\nc\n"), (dict(), "a|\\Bb\\nc", b"ab\nc\n"), (dict(), "ab|\\bc\\nd", b"abc\nd\n"),
    (dict(), "foo|\\Bx\\ny", b"foox\ny\n"), (dict(before=1, passthru=False, invert=True), "a|\\z", b"a\nb\nc\n"),
    (dict(passthru=True), "a|\\z", b"a\nb\nc\n"), (dict(after=1), "c\\n|\\z", b"a\nc\nb\n"),
]


def regex_cases(ctx, feat):
    """the real RegexMatcher under -U semantics: the harness tabulates find_at over the input; the model
    (multi_line_run) and the reference (ml_ref) run with that table; all three event streams must agree"""
    rng = ctx.rng
    n = ctx.count(1500)
    cases = []
    for over, pat, inp in REGEX_CORPUS:
        c = sg._cfg(multi_line=True)
        c.update(over)
        cases.append((c, pat, inp, False, None, False))
    for crlf in (True, False):       # -x under -U: the line anchors of the wrapper follow --crlf, not the (unset) terminator
        c = sg._cfg(multi_line=True, crlf=crlf)
        cases.append((c, "a\\r?\\nb|c", b"a\r\nb\r\nc\r\nxc\r\n", False, None, True))
        cases.append((c, "c", b"c\r\nxc\r\nc\n", False, None, True))
    for _ in range(n):
        c = sg.gen_cfg(rng, multi_line=True)
        if c["ltbyte"] not in (10, 0):
            c["ltbyte"] = 10
        pat = rng.choice(REGEX_PATTERNS)
        if c["ltbyte"] == 0:
            pat = pat.replace("\\n", "\\x00")
        inp = sg.gen_input(rng, c, max_lines=6, max_len=4)
        if rng.random() < 0.3:
            inp = inp.replace(b"x", b"c")
        reply = (rng.randint(0, 6), rng.choice([1, 2])) if rng.random() < 0.2 else None
        cases.append((c, pat, inp, rng.random() < 0.2, reply, rng.random() < 0.15))

    def rv(reply):
        return "()" if reply is None else vlib.vlist([str(reply[0]), str(reply[1])])
    lines = [vlib.vlist([sg.cfg_val(c), vlib.vbytes(pat.encode()), vlib.vbytes(inp), vlib.vbool(dot), rv(reply), vlib.vbool(whole)])
             for c, pat, inp, dot, reply, whole in cases]
    co = vlib.code(1302, lines)
    mlines, idx = [], []
    for i, ((c, pat, inp, dot, reply, whole), out) in enumerate(zip(cases, co)):
        v = parse_val(out) if out.startswith("(") else None
        if v is None:
            ctx.violation("harness failure " + out[:200], dict(kind=1302, line=lines[i]))
            continue
        if v[0] == 0:
            feat["regex_build_error"] = feat.get("regex_build_error", 0) + 1
            continue
        if v[4] and v[4] != v[2]:
            bad = [k for k in range(len(v[2])) if v[2][k] != v[4][k]][:3]
            ctx.violation("RegexMatcher::find_at(input, at) differs from the regex library's find_at on the whole input "
                          "(look-around must be evaluated against the whole input, not the resumption point)",
                          dict(kind=1302, line=lines[i], case=dict(cfg=c, pattern=pat, input=inp.decode("latin1"), dotall=dot, whole_line=whole),
                               positions=bad, matcher=[v[2][k] for k in bad], regex_crate=[v[4][k] for k in bad]))
        if not v[1]:
            feat["regex_line_strategy"] = feat.get("regex_line_strategy", 0) + 1
            continue
        table = vlib.vlist([("()" if not e else vlib.vlist([str(e[0]), str(e[1])])) for e in v[2]])
        mlines.append(vlib.vlist([sg.cfg_val(c), table, vlib.vbytes(inp), rv(reply)]))
        idx.append(i)
    mo = vlib.model(1303, mlines)
    for i, ml, m in zip(idx, mlines, mo):
        c, pat, inp, dot, reply, whole = cases[i]
        code_res = vlib_to_text(parse_val(co[i])[3])
        mv = parse_val(m) if m.startswith("(") else None
        desc = dict(cfg=c, pattern=pat, input=inp.decode("latin1"), dotall=dot, reply=reply, whole_line=whole)
        feat["regex_multiline"] = feat.get("regex_multiline", 0) + 1
        ctx.note_case(lines[i], len(parse_val(co[i])[3][1]) > 2)
        if mv is None:
            ctx.violation("model failure " + m[:200], dict(kind=1303, line=ml))
            continue
        model_res, ref_res = vlib_to_text(mv[0]), vlib_to_text(mv[1])
        bad_ref = reply is None and code_res != ref_res
        if code_res != model_res:
            ctx.violation("multi-line search with the real regex matcher: model and code disagree",
                          dict(kind=1302, line=lines[i], model_line=ml, case=desc, code=code_res, model=model_res,
                               ref=ref_res), nfi=not bad_ref)
        if bad_ref:
            ctx.violation("multi-line search with the real regex matcher differs from the specification (lines covered "
                          "by the successive find_at matches over the whole input)",
                          dict(kind=1302, line=lines[i], case=desc, code=code_res, ref=ref_res))


def inverted_partition(ctx, feat):
    """independent of any model: with the real RegexMatcher, the lines `-U -v` reports and the lines `-U` reports partition
    the input (every line is reported by exactly one of the two searches)"""
    rng = ctx.rng
    n = ctx.count(500)
    cases = []
    fixed = [("a\\nb|b\\nc", b"a\nbb\nc\n"), ("a\\nb|b", b"a\nbb\nc\n"), ("b\\n|\\nc", b"ab\n\nc\nb\n"), ("a|\\z", b"a\nb\nc\n")]
    for pat, inp in fixed:
        cases.append((sg._cfg(multi_line=True), pat, inp))
    for _ in range(n):
        c = sg._cfg(multi_line=True)
        if rng.random() < 0.2:
            c["crlf"] = True
        pat = rng.choice(REGEX_PATTERNS + ["a\\nb|b\\nc", "b\\n|\\nc", "a\\n|\\nb", "(a|b)\\n(a|b)|b\\nx"])
        inp = sg.gen_input(rng, c, max_lines=7, max_len=3)
        if rng.random() < 0.3:
            inp = inp.replace(b"x", b"c")
        cases.append((c, pat, inp))
    lines_n, lines_i = [], []
    for c, pat, inp in cases:
        ci = dict(c)
        ci["invert"] = True
        lines_n.append(vlib.vlist([sg.cfg_val(c), vlib.vbytes(pat.encode()), vlib.vbytes(inp), vlib.vbool(False), "()", vlib.vbool(False)]))
        lines_i.append(vlib.vlist([sg.cfg_val(ci), vlib.vbytes(pat.encode()), vlib.vbytes(inp), vlib.vbool(False), "()", vlib.vbool(False)]))
    on, oi = vlib.code(1302, lines_n), vlib.code(1302, lines_i)
    for (c, pat, inp), ln, a, b in zip(cases, lines_n, on, oi):
        va = parse_val(a) if a.startswith("(") else None
        vb = parse_val(b) if b.startswith("(") else None
        if va is None or vb is None:
            ctx.violation("harness failure in the inverted-partition case: %s / %s" % (a[:80], b[:80]), dict(kind=1302, line=ln), nfi=True)
            continue
        if va[0] == 0 or vb[0] == 0 or not va[1] or not vb[1]:
            continue        # pattern rejected, or the line strategy was selected (the pattern cannot match the terminator)
        ltb = bytes([c["ltbyte"]])
        total = inp.count(ltb) + (0 if inp.endswith(ltb) or not inp else 1)
        covered = set()
        for e in va[3][1]:
            if e[0] == 1:
                first = e[2][0]
                k = e[3].count(ltb) + (0 if e[3].endswith(ltb) else 1)
                covered.update(range(first, first + k))
        inverted = [e[2][0] for e in vb[3][1] if e[0] == 1]
        feat["inverted_partition"] = feat.get("inverted_partition", 0) + 1
        ctx.note_case("inv" + ln, bool(covered) and bool(inverted))
        if sorted(inverted) != sorted(set(range(1, total + 1)) - covered) or len(set(inverted)) != len(inverted):
            ctx.violation("the lines reported by the inverted multi-line search are not exactly the lines the non-inverted search does not report",
                          dict(kind=1302, line=ln, case=dict(cfg=c, pattern=pat, input=inp.decode("latin1")),
                               matching_lines=sorted(covered), inverted_lines=inverted, total_lines=total))


def vlib_to_text(v):
    return repr(v)


def null_data_cli(ctx):
    """rg -U --null-data: records are separated by NUL; the records reported are exactly those overlapped by the matches
    of the pattern over the whole input (expected from Python's re on the same bytes; ASCII patterns whose meaning is
    the same in both engines)"""
    import os
    import re
    import subprocess
    import tempfile
    rng = ctx.rng
    pool = [("foo[^x]bar", []), ("a.b", ["--multiline-dotall"]), ("a\\x00b", []), ("r[^a-z]+s", []), ("end\\x00?", [])]
    toks = [b"foo", b"bar", b"a", b"b", b"x", b"r", b"s", b"end", b"foo bar", b"a\nb", b""]
    runs = 0
    with tempfile.TemporaryDirectory(dir=vlib.CACHE) as d:
        for i in range(ctx.count(24)):
            recs = [rng.choice(toks) for _ in range(rng.randint(2, 8))]
            if i == 0:
                recs = [b"foo", b"bar", b"zzz"]
            data = b"\0".join(recs) + (b"\0" if rng.random() < 0.8 else b"")
            pat, extra = pool[i % len(pool)]
            pyflags = re.S if extra else 0
            pypat = pat.replace("\\x00", "\\x00").encode()
            f = os.path.join(d, "n%d" % i)
            open(f, "wb").write(data)
            starts = [0]
            for r_ in recs[:-1]:
                starts.append(starts[-1] + len(r_) + 1)
            nrec = len(recs) if (recs[-1] != b"" or not data.endswith(b"\0")) else len(recs)
            covered = set()
            for m in re.finditer(pypat, data, pyflags):
                a, b = m.start(), max(m.start(), m.end() - 1)
                for k, st in enumerate(starts):
                    en = st + len(recs[k])          # position of the record's terminator (or end of input)
                    if st <= b and a <= en and not (k == len(recs) - 1 and recs[k] == b"" and data.endswith(b"\0")):
                        covered.add(k + 1)
            for mode in ("--mmap", "--no-mmap"):
                p = subprocess.run([vlib.RG, "--no-config", "--color", "never", "--no-heading", "-I", "-n", "-a", "-U", "--null-data", mode]
                                   + extra + ["-e", pat, f], stdin=subprocess.DEVNULL, stdout=subprocess.PIPE, stderr=subprocess.PIPE)
                runs += 1
                got = set()
                for piece in p.stdout.split(b"\0"):
                    mm = re.match(rb"^(\d+):", piece)
                    if mm:
                        got.add(int(mm.group(1)))
                ctx.note_case("nul%d%s" % (i, mode), bool(covered))
                if got != covered:
                    ctx.violation("rg -U --null-data does not report exactly the records overlapped by the pattern's matches over the whole input",
                                  dict(kind="cli-null-data", pattern=pat, flags=extra + [mode], data_hex=data.hex(), expected=sorted(covered), got=sorted(got),
                                       stdout=repr(p.stdout[:300])))
    ctx.cov["cli_null_data_runs"] = runs


def cli_strategies(ctx):
    """rg -U on the same file through the memory map, the file reader (whole file read to the heap) and stdin must
    print the same results — also when the file has to be transcoded (UTF-16 with BOM: the decoded text is longer
    than the file) and for files whose size the file system does not report"""
    import os
    import subprocess
    import tempfile
    rng = ctx.rng
    n = ctx.count(12)
    runs = 0
    words = ["alpha", "beta", "\u4e2d\u6587\u5b57\u7b26", "gamma", "\u6f22\u5b57", "needle", "delta"]
    with tempfile.TemporaryDirectory(dir=vlib.CACHE) as d:
        for i in range(n):
            cjk_heavy = rng.random() < 0.6      # decoded UTF-8 longer than the UTF-16 file
            pool = (["\u4e2d\u6587\u5b57\u7b26\u4e32\u6f22\u5b57"] * 6 + words) if cjk_heavy else words
            lines = [" ".join(rng.choice(pool) for _ in range(rng.randint(1, 6))) for _ in range(rng.randint(3, 60))]
            lines.append("needle tail " + rng.choice(words))
            text = "\n".join(lines) + "\n"
            enc = rng.choice(["utf-16le", "utf-16be", "utf-8"])
            data = {"utf-16le": b"\xff\xfe", "utf-16be": b"\xfe\xff", "utf-8": b""}[enc] + text.encode(enc)
            f = os.path.join(d, "f%d" % i)
            open(f, "wb").write(data)
            fixed = [(b"xx foo\nbar\n", "foo\\n\\b"), (b"a\nb\nc\n", "a|\\z"), (b"x\nfoo\nbar", "foo\\n\\b"), (b"foo\n\n", "foo\\n$")]
            if i < len(fixed):
                data, fpat = fixed[i]
                enc = "utf-8"
                open(f, "wb").write(data)
            pat = fpat if i < len(fixed) else rng.choice(["needle", "needle tail \\w+\\n", "\\n\\S+ tail", "a\\n\\S", "\\p{Han}+\\n", "needle tail \\w+\\n\\b",
                              "tail \\w+\\n$", "\\w+\\n\\b"])
            base = [vlib.RG, "--no-config", "--color", "never", "--no-heading", "-n", "-U", "-e", pat]
            outs = []
            for mode in ("--mmap", "--no-mmap"):
                p = subprocess.run(base + ["-I", mode, f], stdin=subprocess.DEVNULL, stdout=subprocess.PIPE, stderr=subprocess.PIPE)
                outs.append((p.returncode, p.stdout))
            p = subprocess.run(base + ["-"], stdin=open(f, "rb"), stdout=subprocess.PIPE, stderr=subprocess.PIPE)
            outs.append((p.returncode, p.stdout))
            runs += 3
            # the lines reported as matching are the same whatever the output mode: -c counts them
            import re as _re
            nmatch = len([x for x in outs[0][1].split(b"\n") if _re.match(rb"^\d+:", x)])
            pc = subprocess.run(base + ["-I", "-c", "--include-zero", "--mmap", f], stdin=subprocess.DEVNULL, stdout=subprocess.PIPE,
                                stderr=subprocess.PIPE)
            runs += 1
            # (under -U, -c counts matches, not lines: only "some line is reported" <=> "count > 0" is mode-independent)
            if (pc.stdout.strip() not in (b"", b"0")) != (nmatch > 0):
                ctx.violation("rg -U -c says the file has no match / a match while rg -U reports / does not report matching lines",
                              dict(kind="cli-count", encoding=enc, pattern=pat, data_hex=data.hex(), count=repr(pc.stdout),
                                   standard=repr(outs[0][1][-400:])))
            ctx.note_case("cli%d" % i + repr((enc, pat, len(data))), outs[0][0] == 0)
            if not (outs[0] == outs[1] == outs[2]):
                ctx.violation("rg -U prints different results through --mmap / --no-mmap / stdin",
                              dict(kind="cli-strategies", encoding=enc, pattern=pat, data_hex=data.hex(),
                                   outs=[repr(o) for o in outs]))
    ctx.cov["cli_strategy_runs"] = runs


def replay(ctx, data):
    line = data["replay"]["line"]
    c = vlib.code(301, [line])[0]
    m = vlib.model(301, [line])[0]
    r = vlib.model(1301, [line])[0]
    print("code :", c, "\nmodel:", m, "\nref  :", r)
    if c != m or c != r:
        ctx.violation("replayed case still disagrees", data["replay"])
