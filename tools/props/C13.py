"""C13 — multi-line search reports exactly the lines covered by the pattern's matches."""
import vlib
from vlib import parse_val
import searchgen as sg

NEED_RG = True
MANIFEST = dict(
    text="Coq theorems: MultiLine::run terminates for every input, sink and matcher obeying the find_at contract (the "
         "advance-by-one rule after an empty match), the search resumes with find_at on the WHOLE input (D6 repaired), and "
         "the multi-line strategy is only selected when the matcher may match the terminator. The full statement "
         "(multi_line_run = ml_ref: lines covered by the successive matches, merged blocks, inversion, context) is NOT yet "
         "proved: it is checked on every run by model = code = executable specification (Spec/MultiLineSpec.v) on generated "
         "cases with terminator-spanning and left-context-sensitive (anchored) needles. D6, D7 fixed.",
    note="partial proof: the event-level theorem multiline_eq_spec is tested, not proved; trusted: Coq kernel, extraction, "
         "driver, harness, scripted matcher mirrors",
    technique="Coq proof (termination, strategy selection) + extracted-model/implementation/specification correspondence",
    design="§7 C13")


def run(ctx):
    rng = ctx.rng
    n = ctx.count(4000)
    cases = sg.regress_cases(True) + [sg.gen_case(rng, multi_line=True) for _ in range(n)]
    lines = [sg.case_val(c) for c in cases]
    co = vlib.code(301, lines)
    mo = vlib.model(301, lines)
    ro = vlib.model(1301, lines)
    feat = {}
    for case, line, c, m, r in zip(cases, lines, co, mo, ro):
        ml = case["lt_mode"] == 0   # otherwise the searcher falls back to the line strategy
        ev = parse_val(c)[1] if c.startswith("(") else []
        multi = any(e[0] == 1 and e[3].count(bytes([case["cfg"]["ltbyte"]])) > 1 for e in ev)
        anch = any(a for a, _, _ in case["needles"])
        for f, on in (("multiline_strategy", ml), ("multi_line_block", multi), ("anchored_needle", anch),
                      ("invert", case["cfg"]["invert"]), ("context", case["cfg"]["after"] + case["cfg"]["before"] > 0)):
            if on:
                feat[f] = feat.get(f, 0) + 1
        ctx.note_case(line, ml and len(ev) > 2)
        if multi:
            ctx.sample(dict(case=sg.describe(case), events=c))
        if c != m:
            ctx.violation("multi-line search_slice: model and code disagree",
                          dict(kind=301, line=line, case=sg.describe(case), model=m, code=c, ref=r), nfi=(not ml or c == r))
        if ml and c != r:
            ctx.violation("multi-line search differs from the specification (lines covered by successive find_at matches)",
                          dict(kind=1301, line=line, case=sg.describe(case), code=c, ref=r))
    cli_strategies(ctx)
    ctx.cov["features"] = feat
    ctx.cov["rule"] = ("random multi-line searcher cases (needles touching/spanning the terminator, anchored needles = "
                       "look-behind); non-trivial = multi-line strategy selected and at least one result event")


def cli_strategies(ctx):
    """rg -U on the same file through the memory map, the file reader (whole file read to the heap) and stdin must
    print the same results — also when the file has to be transcoded (UTF-16 with BOM: the decoded text is longer
    than the file) and for files whose size the file system does not report"""
    import os
    import subprocess
    import tempfile
    rng = ctx.rng
    n = ctx.count(12)
    runs = 0
    words = ["alpha", "beta", "\u4e2d\u6587\u5b57\u7b26", "gamma", "\u6f22\u5b57", "needle", "delta"]
    with tempfile.TemporaryDirectory(dir=vlib.CACHE) as d:
        for i in range(n):
            cjk_heavy = rng.random() < 0.6      # decoded UTF-8 longer than the UTF-16 file
            pool = (["\u4e2d\u6587\u5b57\u7b26\u4e32\u6f22\u5b57"] * 6 + words) if cjk_heavy else words
            lines = [" ".join(rng.choice(pool) for _ in range(rng.randint(1, 6))) for _ in range(rng.randint(3, 60))]
            lines.append("needle tail " + rng.choice(words))
            text = "\n".join(lines) + "\n"
            enc = rng.choice(["utf-16le", "utf-16be", "utf-8"])
            data = {"utf-16le": b"\xff\xfe", "utf-16be": b"\xfe\xff", "utf-8": b""}[enc] + text.encode(enc)
            f = os.path.join(d, "f%d" % i)
            open(f, "wb").write(data)
            pat = rng.choice(["needle", "needle tail \\w+\\n", "\\n\\S+ tail", "a\\n\\S", "\\p{Han}+\\n"])
            base = [vlib.RG, "--no-config", "--color", "never", "--no-heading", "-n", "-U", "-e", pat]
            outs = []
            for mode in ("--mmap", "--no-mmap"):
                p = subprocess.run(base + ["-I", mode, f], stdin=subprocess.DEVNULL, stdout=subprocess.PIPE, stderr=subprocess.PIPE)
                outs.append((p.returncode, p.stdout))
            p = subprocess.run(base + ["-"], stdin=open(f, "rb"), stdout=subprocess.PIPE, stderr=subprocess.PIPE)
            outs.append((p.returncode, p.stdout))
            runs += 3
            ctx.note_case("cli%d" % i + repr((enc, pat, len(data))), outs[0][0] == 0)
            if not (outs[0] == outs[1] == outs[2]):
                ctx.violation("rg -U prints different results through --mmap / --no-mmap / stdin",
                              dict(kind="cli-strategies", encoding=enc, pattern=pat, data_hex=data.hex(),
                                   outs=[repr(o) for o in outs]))
    ctx.cov["cli_strategy_runs"] = runs


def replay(ctx, data):
    line = data["replay"]["line"]
    c = vlib.code(301, [line])[0]
    m = vlib.model(301, [line])[0]
    r = vlib.model(1301, [line])[0]
    print("code :", c, "\nmodel:", m, "\nref  :", r)
    if c != m or c != r:
        ctx.violation("replayed case still disagrees", data["replay"])
