"""C13 — multi-line search reports exactly the lines covered by the pattern's matches."""
import vlib
from vlib import parse_val
import searchgen as sg

NEED_RG = False


def run(ctx):
    rng = ctx.rng
    n = ctx.count(4000)
    cases = [sg.gen_case(rng, multi_line=True) for _ in range(n)]
    lines = [sg.case_val(c) for c in cases]
    co = vlib.code(301, lines)
    mo = vlib.model(301, lines)
    ro = vlib.model(1301, lines)
    feat = {}
    for case, line, c, m, r in zip(cases, lines, co, mo, ro):
        ml = case["lt_mode"] == 0   # otherwise the searcher falls back to the line strategy
        ev = parse_val(c)[1] if c.startswith("(") else []
        multi = any(e[0] == 1 and e[3].count(bytes([case["cfg"]["ltbyte"]])) > 1 for e in ev)
        anch = any(a for a, _, _ in case["needles"])
        for f, on in (("multiline_strategy", ml), ("multi_line_block", multi), ("anchored_needle", anch),
                      ("invert", case["cfg"]["invert"]), ("context", case["cfg"]["after"] + case["cfg"]["before"] > 0)):
            if on:
                feat[f] = feat.get(f, 0) + 1
        ctx.note_case(line, ml and len(ev) > 2)
        if multi:
            ctx.sample(dict(case=sg.describe(case), events=c))
        if c != m:
            ctx.violation("multi-line search_slice: model and code disagree",
                          dict(kind=301, line=line, case=sg.describe(case), model=m, code=c, ref=r), nfi=(not ml or c == r))
        if ml and c != r:
            ctx.violation("multi-line search differs from the specification (lines covered by successive find_at matches)",
                          dict(kind=1301, line=line, case=sg.describe(case), code=c, ref=r))
    ctx.cov["features"] = feat
    ctx.cov["rule"] = ("random multi-line searcher cases (needles touching/spanning the terminator, anchored needles = "
                       "look-behind); non-trivial = multi-line strategy selected and at least one result event")


def replay(ctx, data):
    line = data["replay"]["line"]
    c = vlib.code(301, [line])[0]
    m = vlib.model(301, [line])[0]
    r = vlib.model(1301, [line])[0]
    print("code :", c, "\nmodel:", m, "\nref  :", r)
    if c != m or c != r:
        ctx.violation("replayed case still disagrees", data["replay"])
