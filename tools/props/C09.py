"""C09 — printed lines and their coordinates are the input's own; JSON output is lossless."""
import base64
import json as pyjson
import re

import vlib
from vlib import vbytes, parse_val
from props import printers_lib as pl
from props.printers_lib import mstd, mjson, msum, as_bytes

NEED_RG = True
MANIFEST = dict(
    text="Coq theorems about executable models of the standard and JSON printers. ROUND TRIPS: standard_line_roundtrip — a "
         "reader knowing only the configuration gets back from a printed record the event's own path, line number, "
         "column, byte offset and terminated bytes (guard: separator non-empty and not starting with a digit, the "
         "path-ending byte not in the path, numbers < 2^64; line-oriented records; -o / --vimgrep records and "
         "multi-line blocks have layout theorems read by the same parser); json_roundtrip — the output of a search is "
         "begin, the messages of the delivered events in order, end, and decoding each message (Data as text or base64) "
         "gives back the event's bytes, line number, offset and submatch slices. Also: the prelude of a record is the "
         "event's own path / line number / column / byte offset in fixed order with the configured separators, the "
         "text is the event's bytes with the terminator added iff missing (fast, slow and multi-line paths; "
         "write_colored_matches writes exactly the line); DecimalFormatter round-trips for every u64; base64_standard "
         "round-trips for every byte string (unbounded); Data is text iff utf8_valid; a JSON submatch is the slice of "
         "`lines` at its offsets; a file's messages are begin, one match/context message per delivered event in "
         "stream order carrying that event's bytes, line number and offset, then end. Tie to the code: extracted models vs the real printers on "
         "generated cases; independent oracle: every printed record of rg / the library printers is re-located in the "
         "input bytes (line number, offset, column via an independent regex engine, text), JSON re-assembled.",
    note="trusted: Coq kernel, extraction, OCaml driver, Rust harness, Python re as independent matcher for the column "
         "oracle (restricted pattern pool); utf8_valid is differentially tested against std::str::from_utf8 and "
         "Python's decoder, not proved against a Unicode specification; only-matching / per-match MULTI-LINE paths "
         "have layout + record-origin theorems (every record = prelude with stated coordinates + stated input bytes), with "
         "the observation (outside the property) MultiLineOnlyMatchingColumnIsBlockRelative (column = offset in the block); JSON round trip is for rg's configuration without -m; that the searcher's "
         "events are the input's lines is C03's theorem (checked here by the oracle)",
    technique="Coq proof over executable models + extracted-model/implementation correspondence + input re-location oracle",
    design="§7 C09")

# patterns on which Python's re and the regex crate agree (leftmost-first, same syntax)
PY_PATTERNS = ["a", "b+", "[ab]", "ab|b", "c", "x", "A", "a+b*", "[0-9]", " ", "é", r"\t", "a[bc]?", "y|:"]
ML_PATTERNS = [r"a\nb", r"b\n", r"a\n+", r"[ab]\n[ab]", r"c\n\n?", r"x\ny",
               # line-spanning on DOS files, and touching matches (each match ends where the next one starts)
               r"a\r?\nb", r"[abc]\r?\n", r"[ab1]\r\n[ab1]", r"a1?\n?", r"[ab]1?\n", r"[a-z0-9 ]+\r?\n", r"[ab]1\n[ab]1",
               # matches spanning two or three lines next to single-line ones (multi-line -o / --vimgrep records)
               r"[ab xy1]\n[ab xy1]", r"[ab xy1:-]\n+[ab xy1:-]|[ab]", r"[a-z]\n[a-z]\n[a-z]|[a-z]", r"[ab1]\r?\n[ab1]|1",
               r"[a-z1 ]\n[a-z1 ]", r"[ab xy]+\n[ab xy]+"]
ALPH = b"ab xycA\t1:-"
NAMES = [b"f1", b"f2", b"f3"]


def gen_file(rng, crlf):
    if rng.random() < 0.04:
        return b""
    lines = []
    for _ in range(rng.randint(1, 7)):
        k = rng.random()
        if k < 0.04:
            ln = bytes(rng.choice(ALPH) for _ in range(rng.randint(130, 220)))     # long line
        else:
            ln = bytes(rng.choice(ALPH) for _ in range(rng.choice([0, 1, 2, 3, 5, 8])))
        if rng.random() < 0.15:
            i = rng.randint(0, len(ln))
            ln = ln[:i] + rng.choice([b"\xff", b"\xc3\xa9", b"\xe2\x82", b"\xf0\x9f\x98\x80", b"\xed\xa0\x80", b"\xc0\xaf"]) + ln[i:]
        lines.append(ln)
    term = b"\r\n" if crlf else b"\n"
    s = b""
    for i, ln in enumerate(lines):
        s += ln
        if i + 1 < len(lines) or rng.random() < 0.6:
            s += term if (not crlf or rng.random() < 0.85) else b"\n"
    return s


def gen_case(rng):
    fl = dict(line_number=int(rng.random() < 0.8), binary=0)
    fl["multiline"] = int(rng.random() < 0.3)
    fl["crlf"] = int(rng.random() < 0.2)
    fl["invert"] = int(rng.random() < 0.12)
    fl["ignore_case"] = int(rng.random() < 0.15)
    k = rng.random()
    if k < 0.12:
        fl["passthru"] = 1
    elif k < 0.6:
        fl["after"] = rng.choice([0, 1, 2])
        fl["before"] = rng.choice([0, 1, 2])
    pool = PY_PATTERNS + (ML_PATTERNS * 3 if fl["multiline"] else [])
    pat = rng.choice(pool)
    nfiles = rng.randint(1, 3)
    dos = (not fl["crlf"]) and rng.random() < 0.15      # \r\n line ends searched without --crlf
    files = [(NAMES[i], gen_file(rng, fl["crlf"] or dos)) for i in range(nfiles)]
    ctx_on = bool(fl.get("after") or fl.get("before"))
    named = [
        # hiargs.rs: with context the file separator is the context separator
        ("full", mstd(col=1, bo=1, sc=b"--", ss=b"--" if ctx_on else None)),    # -n -b --column --no-heading -H
        ("vim", mstd(pm=1, pm1=1, col=1, sc=b"--", ss=b"--" if ctx_on else None)),   # --vimgrep
        ("json", mjson()),
        ("omc", mstd(only=1, col=1, bo=1, sc=b"--", ss=b"--" if ctx_on else None)),   # -o -n -b --column
        ("rand", mstd(heading=rng.random() < 0.4, path=rng.random() < 0.8, pm=rng.random() < 0.2, pm1=rng.random() < 0.5,
                      col=rng.random() < 0.5, bo=rng.random() < 0.5, ss=rng.choice([None, b"", b"=="]),
                      sc=rng.choice([None, b"--"]), sm=rng.choice([b":", b"|"]), sx=rng.choice([b"-", b"+"]),
                      pt=rng.choice([None, None, 0]), only=rng.random() < 0.15)),
        ("json_always", mjson(always=1, mx=rng.choice([None, None, 1, 2]))),
        ("count", msum(0, ez=0)), ("files", msum(2, pt=rng.choice([None, 0]))),
    ]
    # a share of the cases is printed a second time through a writer that accepts at most `chunk` bytes per write call
    chunk = rng.choice([1, 2, 3, 4, 5, 6, 7, 16, 100, 1024]) if rng.random() < 0.4 else 0
    return dict(pattern=pat, flags=fl, files=files, modes=[m for _, m in named], names=[n for n, _ in named], mx=None,
                relations=True, chunk=chunk)


# ----------------------------------------------------------------------------- the oracle

def split_lines(data):
    """[(offset, line bytes with terminator)]"""
    out = []
    pos = 0
    for ln in data.splitlines(keepends=True) if False else re.findall(rb"[^\n]*\n|[^\n]+$", data):
        out.append((pos, ln))
        pos += len(ln)
    return out


def strip_term(b):
    if b.endswith(b"\r\n"):
        return b[:-2]
    if b.endswith(b"\n"):
        return b[:-1]
    return b


def content(lbytes, crlf):
    """the content of an input line: without its \\n, and without the \\r before it only under --crlf"""
    b = lbytes[:-1] if lbytes.endswith(b"\n") else lbytes
    if crlf and lbytes.endswith(b"\n") and b.endswith(b"\r"):
        b = b[:-1]
    return b


def rec_text(text, crlf):
    """the text of a printed record (already cut at \\n): under --crlf the printed terminator is \\r\\n"""
    return text[:-1] if crlf and text.endswith(b"\r") else text


def same_line(text, lbytes, crlf):
    """byte-for-byte: the printed text is the input line's content (a \\r before \\n is content unless --crlf)"""
    if crlf:
        # a line that ended in a bare \\n may be re-terminated with \\r\\n by the slow path, and a \\r\\n line keeps it
        return rec_text(text, True) == content(lbytes, True) or text == content(lbytes, True)
    return text == content(lbytes, False)


def py_regex(c):
    flags = re.I if c["flags"].get("ignore_case") else 0
    return re.compile(c["pattern"].encode("utf-8"), flags)


def check_standard_full(ctx, c, out, v, where):
    """mode `full`: f:lnum:col:off:text for matches, f-lnum-off-text for context lines, `--` between groups"""
    fl = c["flags"]
    if not fl.get("line_number"):
        return
    if fl.get("invert") and fl.get("multiline"):
        # whether an inverted context line carries a column depends on matches that include its terminator; the
        # record cannot be parsed unambiguously here (the JSON oracle and the model still cover these cases)
        return
    files = {p: split_lines(d) for p, d in c["files"]}
    rx = py_regex(c)
    seen = {}
    for rec in out.split(b"\n"):
        if rec in (b"", b"--", b"--\r"):
            continue
        # a record carries a column iff match spans were recorded for it: matching lines of a normal search,
        # context lines of an inverted search that contain a match
        if not fl.get("invert"):
            m = re.match(rb"^(f\d)(?::(\d+):(\d+):(\d+):|-(\d+)-(\d+)-)(.*)$", rec, re.S)
        else:
            m = re.match(rb"^(f\d)(?::(\d+):()(\d+):|-(\d+)-(?:\d+-)?(\d+)-)(.*)$", rec, re.S)
            if m and m.group(2) is None:
                # inverted context line: with column when it has a match
                lnum0 = int(m.group(5))
                ls = files[m.group(1)]
                has = 1 <= lnum0 <= len(ls) and rx.search(strip_term(ls[lnum0 - 1][1])) is not None
                m = re.match(rb"^(f\d)(?:-(\d+)-(\d+)-(\d+)-|-(\d+)-(\d+)-)(.*)$" if has
                             else rb"^(f\d)(?::(\d+):(\d+):(\d+):|-(\d+)-(\d+)-)(.*)$", rec, re.S)
                if m and has:
                    m = re.match(rb"^(f\d)()()()-(\d+)-\d+-(\d+)-(.*)$", rec, re.S)
        if not m:
            v("unparsable record", record=rec)
            continue
        path = m.group(1)
        is_match = bool(m.group(2))
        lnum = int(m.group(2) or m.group(5))
        off = int(m.group(4) or m.group(6))
        text = m.group(7)
        lines = files[path]
        if not (1 <= lnum <= len(lines)):
            v("printed line number is not a line of the input", record=rec)
            continue
        loff, lbytes = lines[lnum - 1]
        if not same_line(text, lbytes, fl.get("crlf")):
            v("printed text is not byte-for-byte the input's line at the printed line number", record=rec, line=lbytes)
        if off != loff:
            v("printed byte offset is not the offset of that line", record=rec, expected=loff)
        if lnum in seen.setdefault(path, set()):
            v("a line is printed twice", record=rec)
        seen[path].add(lnum)
        if is_match and not fl.get("multiline") and not fl.get("invert"):
            col = int(m.group(3))
            mm = rx.search(content(lbytes, fl.get("crlf")))
            if mm is None:
                v("a line printed as a match does not match (independent engine)", record=rec)
            elif col != mm.start() + 1:
                v("printed column is not 1 + start of the first match in the line", record=rec, expected=mm.start() + 1)
    if fl.get("passthru"):
        for p, lines in files.items():
            if len(seen.get(p, set())) not in (0, len(lines)):
                v("--passthru did not print every line exactly once", file=p)


def check_vimgrep(ctx, c, out, v, where, multi=False):
    """mode `vim` (--vimgrep = per match, first line only): one record per match; its line number and column are those
    of the start of the match, its text the input line there.  Line mode: matches of each line; multi-line strategy:
    the successive matches of the whole input (independent engine)."""
    fl = c["flags"]
    if not fl.get("line_number") or fl.get("invert"):
        return
    crlf = fl.get("crlf")
    files = {p: split_lines(d) for p, d in c["files"]}
    rx = py_regex(c)
    got = {}
    for rec in out.split(b"\n"):
        if rec in (b"", b"--", b"--\r"):
            continue
        m = re.match(rb"^(f\d):(\d+):(\d+):(.*)$", rec, re.S)
        if not m:
            if re.match(rb"^f\d-\d+-", rec):
                continue    # context line
            v("unparsable --vimgrep record", record=rec)
            continue
        path, lnum, col, text = m.group(1), int(m.group(2)), int(m.group(3)), m.group(4)
        lines = files[path]
        if not (1 <= lnum <= len(lines)) or not same_line(text, lines[lnum - 1][1], crlf):
            v("--vimgrep text is not byte-for-byte the input's line at the printed line number", record=rec)
            continue
        got.setdefault(path, []).append((lnum, col))
    for path, data in c["files"]:
        lines = files[path]
        want = []
        d2_last = False
        if multi:
            starts = [off for off, _ in lines]
            for mm in rx.finditer(data):
                if mm.start() == mm.end():
                    continue
                import bisect
                k = bisect.bisect_right(starts, mm.start()) - 1
                want.append((k + 1, mm.start() - starts[k] + 1))
        else:
            for k, (off, lb) in enumerate(lines):
                ms = [mm.start() + 1 for mm in rx.finditer(content(lb, crlf))]
                # the printers drop an empty match at the very end of an unterminated last line (D2, C10/C19)
                if ms and not lb.endswith(b"\n") and k == len(lines) - 1:
                    last = list(rx.finditer(content(lb, crlf)))[-1]
                    if last.start() == last.end() == len(content(lb, crlf)):
                        ms = ms[:-1]
                        if not ms:
                            d2_last = True
                            ms = [None]      # the line is printed by the fast path, without a column... as path:lnum:text
                want += [(k + 1, col) for col in ms]
        if d2_last:
            continue
        if got.get(path, []) != want:
            v("--vimgrep records are not (line, column) of the start of each match, in order", file=path,
              got=got.get(path, []), expected=want, multi=multi)


OBS_MLOCOL = "observation_MultiLineOnlyMatchingColumnIsBlockRelative"


def check_only_matching_multi(ctx, c, out, json_msgs, v, where):
    """mode `omc` (-o -n -b --column) under the multi-line strategy.  Expected from the input and an independent engine
    (Python re over the whole file): for every non-empty match, one record per line on whose content it has bytes, in
    order, carrying that line's number, the column of the shown part's first byte... as far as the match starts on
    that line (1 + its offset in the line), the byte offset of the match, and exactly those input bytes.  What the
    code prints as column is 1 + the match's start in the searcher's block (theorem 11): accepted, and counted as
    observation_MultiLineOnlyMatchingColumnIsBlockRelative (outside C09, whose statement excludes only-matching), when
    (and only when) it is exactly that number."""
    fl = c["flags"]
    if (not fl.get("line_number") or fl.get("invert") or fl.get("passthru") or fl.get("after") or fl.get("before")):
        return
    crlf = fl.get("crlf")
    rx = py_regex(c)
    feat = ctx.cov.setdefault("features", {})
    # blocks (absolute offset, length) per path from the JSON match messages: only used to classify the known finding
    blocks, nosub = {}, set()
    for m in json_msgs:
        if m[0] == 1:
            path = data_value(m[1][0])[1] if m[1] else None
            blocks.setdefault(path, []).append((m[4], len(data_value(m[2])[1])))
            if not m[5]:
                nosub.add(path)
    got = {}
    for rec in out.split(b"\n"):
        if rec in (b"", b"--", b"--\r"):
            continue
        m = re.match(rb"^(f\d):(\d+):(\d+):(\d+):(.*)$", rec, re.S)
        if not m:
            got.setdefault(rec[:2], []).append(None)
            continue
        got.setdefault(m.group(1), []).append((int(m.group(2)), int(m.group(3)), int(m.group(4)),
                                               rec_text(m.group(5), crlf)))
    for path, data in c["files"]:
        if path in nosub:
            continue     # a block reported without submatch (D2 class) is printed whole, without column
        lines = split_lines(data)
        want, blockcol = [], []
        for mm in rx.finditer(data):
            if mm.start() == mm.end():
                continue
            spanning = 0
            for k, (ls, lb) in enumerate(lines):
                ce = ls + len(content(lb, crlf))
                a, b = max(ls, mm.start()), min(ce, mm.end())
                if a < b:
                    spanning += 1
                    want.append((k + 1, (mm.start() - ls + 1) if mm.start() >= ls else None, mm.start(), data[a:b]))
                    bo = [o for o, n in blocks.get(path, []) if o <= mm.start() < o + n]
                    blockcol.append(mm.start() - bo[0] + 1 if bo else None)
            if where == "library":
                feat["ml_o_matches"] = feat.get("ml_o_matches", 0) + 1
                feat["ml_o_spanning_matches"] = feat.get("ml_o_spanning_matches", 0) + (spanning > 1)
        g = got.get(path, [])
        if where == "library":
            feat["ml_o_records_located"] = feat.get("ml_o_records_located", 0) + len(g)
        if len(g) != len(want) or None in g:
            v("multi-line -o: the records are not one per (match, line with content of the match)", file=path,
              got=g, expected=want)
            continue
        for r_, w_, bc in zip(g, want, blockcol):
            if (r_[0], r_[2], r_[3]) != (w_[0], w_[2], w_[3]):
                v("multi-line -o: line number / byte offset / text of a record are not the input's at the match",
                  file=path, record=r_, expected=w_)
            elif w_[1] is not None and r_[1] != w_[1]:
                if r_[1] == bc:
                    # observation outside the property (C09 excludes only-matching): the proved model says exactly this
                    feat[OBS_MLOCOL] = feat.get(OBS_MLOCOL, 0) + 1
                else:
                    v("multi-line -o: the column of a record is neither the match's column in its line nor its "
                      "1-based offset in the block", file=path, record=r_, expected=w_, block_column=bc)
            elif w_[1] is None and r_[1] != bc:
                v("multi-line -o: continuation line of a spanning match does not repeat the match's column (theorem 11)",
                  file=path, record=r_, block_column=bc)


def data_value(d):
    """harness Data value -> (is_text, bytes)"""
    b = as_bytes(d[1])
    if d[0] == 0:
        return True, b
    return False, base64.b64decode(b)


def is_utf8(b):
    try:
        b.decode("utf-8")
        return True
    except UnicodeDecodeError:
        return False


def check_json(ctx, c, msgs, v, where, always=False):
    fl = c["flags"]
    files = {p: d for p, d in c["files"]}
    cur = None
    last_end = {}
    lines_cat = {}
    began = set()
    for m in msgs:
        t = m[0]
        path = data_value(m[1][0])[1] if m[1] else None
        if t == 0:
            if cur is not None:
                v("begin inside an open file", msg=m)
            if path in began:
                v("two begin messages for one file", msg=m)
            began.add(path)
            cur = path
            last_end[path] = 0
            lines_cat[path] = b""
        elif t in (1, 2):
            if cur != path:
                v("match/context outside begin..end of its file", msg=m)
                continue
            is_text, lb = data_value(m[2])
            if is_text != is_utf8(lb):
                v("lines: text/bytes choice is not 'valid UTF-8'", msg=m)
            off = m[4]
            data = files[path]
            if data[off:off + len(lb)] != lb or not lb:
                v("lines is not the input at absolute_offset", msg=m)
            if off < last_end[path]:
                v("messages are not in input order", msg=m)
            last_end[path] = off + len(lb)
            lines_cat[path] += lb
            if m[3]:
                if m[3][0] != 1 + data[:off].count(b"\n"):
                    v("line_number is not the number of the first line of `lines`", msg=m)
            for s in m[5]:
                st_text, sb = data_value(s[0])
                if st_text != is_utf8(sb):
                    v("submatch: text/bytes choice is not 'valid UTF-8'", msg=m)
                if lb[s[1]:s[2]] != sb or not (s[1] <= s[2] <= len(lb)):
                    v("submatch text is not lines[start..end]", msg=m)
        elif t == 3:
            if cur != path:
                v("end without begin", msg=m)
            cur = None
    if cur is not None:
        v("missing end message")
    if fl.get("passthru") and not always:
        for p, cat in lines_cat.items():
            if cat != files[p]:
                v("--passthru --json: the lines do not reassemble the input", file=p)


def check_case_oracles(ctx, c, outs, where):
    bad = []

    def v(what, **kw):
        bad.append((what, kw))
    check_standard_full(ctx, c, as_bytes(outs["full"][0]), v, where)
    check_vimgrep(ctx, c, as_bytes(outs["vim"][0]), v, where, multi=bool(outs.get("_multi")))
    check_json(ctx, c, outs["json"][0], v, where)
    if outs.get("_multi") and "omc" in outs:
        check_only_matching_multi(ctx, c, as_bytes(outs["omc"][0]), outs["json"][0], v, where)
    for what, kw in bad:
        ctx.violation("%s: %s" % (where, what),
                      dict(kind="oracle", where=where, pattern=c["pattern"], flags=c["flags"],
                           files=[(repr(p), repr(d)) for p, d in c["files"]],
                           detail={k: repr(x)[:600] for k, x in kw.items()}, case=pl.case_val(c), c=pl.jsonable(c)))


def cli_check(ctx, c, outs):
    fl = c["flags"]
    base = pl.cli_flags(fl) + ["--sort", "path", "--with-filename", "--no-heading",
                               "-n" if fl.get("line_number") else "-N", ctx.rng.choice(["--mmap", "--no-mmap"])]
    pat = ["-e", c["pattern"]]
    with pl.Tree(c["files"]) as tree:
        rc, full, err = pl.rg(base + ["-b", "--column"] + pat + tree.names, tree.dir)
        if rc == 2:
            return
        rc2, vim, _ = pl.rg(pl.cli_flags(fl) + ["--sort", "path", "--vimgrep"] + pat + tree.names, tree.dir)
        rc3, js, _ = pl.rg(base + ["--json"] + pat + tree.names, tree.dir)
    ctx.cov["cli_cases"] = ctx.cov.get("cli_cases", 0) + 1
    bad = []

    def v(what, **kw):
        bad.append((what, kw))
    if full != as_bytes(outs["full"][0]):
        v("rg -n -b --column output differs from the library printer", cli=full, library=as_bytes(outs["full"][0]))
    if fl.get("line_number") and vim != as_bytes(outs["vim"][0]):
        v("rg --vimgrep output differs from the library printer", cli=vim, library=as_bytes(outs["vim"][0]))
    # JSON of the CLI, parsed here, through the same oracle
    msgs = []
    for ln in js.split(b"\n"):
        if not ln:
            continue
        try:
            m = pyjson.loads(ln.decode("utf-8"))
        except Exception:
            v("rg --json line is not valid UTF-8 JSON", line=ln)
            continue

        def dv(d):
            if d is None:
                return []
            if "text" in d:
                return [[0, d["text"].encode("utf-8")]]
            return [[1, d["bytes"].encode("ascii")]]
        d = m["data"]
        if m["type"] == "begin":
            msgs.append([0, dv(d["path"])])
        elif m["type"] in ("match", "context"):
            msgs.append([1 if m["type"] == "match" else 2, dv(d["path"]), dv(d["lines"])[0],
                         [] if d["line_number"] is None else [d["line_number"]], d["absolute_offset"],
                         [[dv(s["match"])[0], s["start"], s["end"]] for s in d["submatches"]]])
        elif m["type"] == "end":
            msgs.append([3, dv(d["path"]), [], []])
    check_json(ctx, c, msgs, v, "cli")
    lib = outs["json"][0]
    if len(msgs) != len(lib):
        v("rg --json emits a different number of messages than the library printer", cli=len(msgs), library=len(lib))
    check_standard_full(ctx, c, full, v, "cli")
    for what, kw in bad:
        ctx.violation("cli: " + what, dict(kind="cli", pattern=c["pattern"], flags=fl,
                                           files=[(repr(p), repr(d)) for p, d in c["files"]],
                                           detail={k: repr(x)[:600] for k, x in kw.items()}, case=pl.case_val(c),
                                           c=pl.jsonable(c)))


def run_batch(ctx, cases, cli_every):
    res = pl.run_cases(ctx, cases)
    for k, (c, r) in enumerate(zip(cases, res)):
        if r is None:
            continue
        status, real, model, line = r[:4]
        if status != 0:
            ctx.cov["rejected_patterns"] = ctx.cov.get("rejected_patterns", 0) + 1
            if status != 1:
                # 1 = the pattern was rejected; anything else means the real searcher could not run the case at all
                ctx.violation("the harness could not run a generated case on the real searcher (status %d)" % status,
                              dict(kind=1001, case=line, pattern=c["pattern"], flags=c["flags"],
                                   files=[(repr(p_), repr(d)) for p_, d in c["files"]]), nfi=True)
            continue
        if not r[5]:
            ctx.cov["skipped_searcher_broke_prefix_law_C16"] = ctx.cov.get("skipped_searcher_broke_prefix_law_C16", 0) + 1
            continue
        if not isinstance(model, list) or len(model) != len(real):
            ctx.violation("printer model produced no result (out of fuel / driver failure)",
                          dict(kind=1001, case=line, model=repr(model)), nfi=True)
            continue
        outs = {}
        nontrivial = False
        for j, name in enumerate(c["names"]):
            outs[name] = real[j]
            if model[j] != real[j]:
                ctx.violation("printer model and real printer disagree in mode %s (the C09 theorems no longer describe "
                              "the code)" % name,
                              dict(kind=1001, case=line, mode=c["modes"][j], pattern=c["pattern"], flags=c["flags"],
                                   files=[(repr(p), repr(d)) for p, d in c["files"]], model=repr(model[j])[:3000],
                                   code=repr(real[j])[:3000], c=pl.jsonable(c)), nfi=True)
            if real[j][0]:
                nontrivial = True
        ctx.note_case(line, nontrivial)
        feat = ctx.cov.setdefault("features", {})
        for n in ("multiline", "crlf", "invert", "passthru", "after", "before", "line_number", "ignore_case"):
            if c["flags"].get(n):
                feat[n] = feat.get(n, 0) + 1
        if r[4]:
            feat["multi_line_strategy"] = feat.get("multi_line_strategy", 0) + 1
        if any(not is_utf8(d) for _, d in c["files"]):
            feat["invalid_utf8"] = feat.get("invalid_utf8", 0) + 1
        if any(len(ln) > 128 for _, d in c["files"] for ln in d.split(b"\n")):
            feat["long_line"] = feat.get("long_line", 0) + 1
        if any(d and not d.endswith(b"\n") for _, d in c["files"]):
            feat["no_final_newline"] = feat.get("no_final_newline", 0) + 1
        outs["_multi"] = r[4]
        # every io::Write the printers are given must receive the same bytes: short writes lose nothing
        if c.get("chunk"):
            feat["short_writer"] = feat.get("short_writer", 0) + 1
            for j, sres in enumerate(r[7]):
                if sres != 1:
                    got = sres[1] if isinstance(sres, list) and len(sres) > 1 else None
                    ctx.violation("library: a writer accepting at most %d bytes per write call received different output "
                                  "than an unlimited writer (mode %s): printed bytes are lost or changed"
                                  % (c["chunk"], c["names"][j]),
                                  dict(kind="oracle", where="short-writer", pattern=c["pattern"], flags=c["flags"],
                                       chunk=c["chunk"], mode=c["modes"][j],
                                       files=[(repr(p), repr(d)) for p, d in c["files"]],
                                       unlimited=repr(real[j][0])[:1500], short=repr(got)[:1500],
                                       case=pl.case_val(c), c=pl.jsonable(c)))
        check_case_oracles(ctx, c, outs, "library")
        if nontrivial:
            ctx.sample(dict(pattern=c["pattern"], flags={k2: v2 for k2, v2 in c["flags"].items() if v2},
                            files=[d.decode("latin1")[:80] for _, d in c["files"]],
                            full=as_bytes(outs["full"][0]).decode("latin1")[:300]))
        if cli_every and k % cli_every == 0 and not any(b"\x00" in d for _, d in c["files"]):
            cli_check(ctx, c, outs)


def corpus():
    L = dict(line_number=1, binary=0)

    def mk(pat, fl, files):
        ctx_on = fl.get("after") or fl.get("before")
        named = [("full", mstd(col=1, bo=1, sc=b"--", ss=b"--" if ctx_on else None)),
                 ("vim", mstd(pm=1, pm1=1, col=1, sc=b"--", ss=b"--" if ctx_on else None)),
                 ("json", mjson()), ("heading", mstd(heading=1, ss=b"", col=1)), ("null", mstd(pt=0, bo=1)),
                 ("omc", mstd(only=1, col=1, bo=1, sc=b"--", ss=b"--" if ctx_on else None))]
        return dict(pattern=pat, flags=fl, files=[(NAMES[i], d) for i, d in enumerate(files)],
                    modes=[m for _, m in named] + [msum(0, ez=0), msum(2)], names=[n for n, _ in named] + ["count", "files"],
                    mx=None, relations=True, chunk=1 + (len(pat) + len(files[0])) % 7)
    return [
        mk("a", L, [b"xa\nb\nxxa a\n", b"a"]),
        mk("b", dict(L, after=1, before=1), [b"a\nb\nc\nd\ne\nb\n"]),
        mk("a", dict(L, crlf=1), [b"xa\r\nb\r\na"]),
        mk("a", L, [b"\xffa\xff\n\xc3\xa9a\n"]),
        mk("a", dict(L, passthru=1), [b"x\na\ny", b"q\n"]),
        mk(r"[ab]1\n", dict(L, multiline=1), [b"a1\nb1\n"]),     # observation MultiLineOnlyMatchingColumnIsBlockRelative: 2:4:b1
        mk(r"c\nd|e", dict(L, multiline=1), [b"abc\nde\n", b"xc\nd\nq\ne\n"]),
        mk(r"b\r\nb|a", dict(L, multiline=1, crlf=1), [b"ab\r\nba\r\n"]),
        mk(r"b\nc", dict(L, multiline=1), [b"ab\ncd\n"]),                  # column_number_multi_line of the suite
        mk(r"a\n+", dict(L, multiline=1, after=1), [b"a\n\nb\na\nc\n"]),
        mk("a", dict(L, invert=1, after=1), [b"a\nb\na\n"]),
        mk("x", L, [b"y" * 300 + b"x\n" + b"x" + b"z" * 200]),
        # DOS line ends without --crlf on the paths that trim the terminator and write their own
        mk(r"one\r\nbeta", dict(L, multiline=1), [b"beta one\r\nbeta two\r\nx\r\n"]),
        mk(r"[a-z]+\r?\n", dict(L, multiline=1), [b"ab\r\ncd\r\n\r\nef"]),
        mk("a", L, [b"a\r\nb\r\nxa\r\n"]),
        # touching matches merged into one block, the later ones starting at the beginning of a line (--vimgrep)
        mk(r"a[0-9]\nb[0-9]", dict(L, multiline=1), [b"a1\nb1\na2\nb2\n", b"x\na1\nb1\na2\nb2"]),
        mk(r"[ab]1?\n", dict(L, multiline=1), [b"a1\nb\na\nx\nb1\n"]),
    ]


def directed_line_buffered(ctx):
    """rg --line-buffered --null-data: stdout is a LineWriter, which flushes up to the last \\n of a write and may
    accept only part of the rest; records with an embedded \\n followed by more than its buffer must arrive whole"""
    import os
    import tempfile
    recs = [b"foo head\n" + b"x" * 5000, b"nothing here", b"second foo", b"a\nb foo\n" + b"y" * 3000 + b"\n tail"]
    data = b"".join(r + b"\0" for r in recs)
    d = tempfile.mkdtemp(prefix="lb", dir=vlib.CACHE)
    try:
        f = os.path.join(d, "in.bin")
        open(f, "wb").write(data)
        want = b"".join(r + b"\0" for r in recs if b"foo" in r)
        want_nb = b""
        off = 0
        for i, r in enumerate(recs):
            if b"foo" in r:
                want_nb += b"%d:%d:" % (i + 1, off) + r + b"\0"
            off += len(r) + 1
        for mode in ("--line-buffered", "--block-buffered"):
            for extra, exp in ((["-N"], want), (["-n", "-b"], want_nb)):
                rc, out, err = pl.rg([mode, "--null-data", "-a"] + extra + ["foo", "in.bin"], d)
                ctx.cov["cli_cases"] = ctx.cov.get("cli_cases", 0) + 1
                if out != exp:
                    ctx.violation("cli: rg %s --null-data %s: the printed records are not byte-for-byte the input's records "
                                  "(%d bytes printed, %d expected)" % (mode, " ".join(extra), len(out), len(exp)),
                                  dict(kind="cli-directed", args=[mode, "--null-data", "-a"] + extra + ["foo"],
                                       input_records=[repr(r[:40]) + ("... (%d bytes)" % len(r)) for r in recs],
                                       first_difference=next((i for i in range(min(len(out), len(exp))) if out[i] != exp[i]),
                                                             min(len(out), len(exp)))))
    finally:
        for n in os.listdir(d):
            os.unlink(os.path.join(d, n))
        os.rmdir(d)


def run(ctx):
    rng = ctx.rng
    ctx.cov["rule"] = ("a case = Python-compatible pattern x flags (-n -U --crlf -v -i -A/-B --passthru) x 1-3 files (incl. "
                       "invalid UTF-8, lines > 128 bytes, CRLF, no final newline) x 5 printer configurations (-n -b "
                       "--column; --vimgrep; --json; random heading/--null/separators/-o; --json always-begin-end with -m); "
                       "non-trivial = some configuration printed something; distinct by case text")
    run_batch(ctx, corpus(), cli_every=1)
    directed_line_buffered(ctx)
    n = ctx.count(800)
    run_batch(ctx, [gen_case(rng) for _ in range(n)], cli_every=max(1, n // ctx.count(80)))
    # Data::from_bytes / base64 / DecimalFormatter: model = code = independent oracle
    from props import C10
    C10.check_small_models(ctx)
    ctx.assumptions += [
        "the events a printer receives are lines of the input with their true coordinates: property C03 (the oracle "
        "here re-locates every printed record in the input bytes, so a violation would still be seen)",
        "the matcher is a Section variable (tabulated from the real RegexMatcher); the column oracle uses Python's re "
        "on a pattern pool where both engines agree",
        "std::str::from_utf8 is third-party; utf8_valid is compared with it and with Python's strict decoder per case",
    ]


def replay(ctx, data):
    r = data["replay"]
    if r.get("kind") in (1002, 1003):
        from props import C10
        return C10.replay(ctx, data)
    if r.get("kind") == "cli-directed":
        return directed_line_buffered(ctx)
    if "c" in r:
        run_batch(ctx, [pl.from_jsonable(r["c"])], cli_every=1 if r.get("kind") == "cli" else 0)
