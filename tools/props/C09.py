"""C09 — printed lines and their coordinates are the input's own; JSON output is lossless."""
import base64
import subprocess
import json as pyjson
import re

import vlib
from vlib import vbytes, parse_val
from props import printers_lib as pl
from props.printers_lib import mstd, mjson, msum, as_bytes

NEED_RG = True
MANIFEST = dict(
    text="Coq theorems about executable models of the standard and JSON printers. ROUND TRIPS: standard_line_roundtrip — a "
         "reader knowing only the configuration gets back from a printed record the event's own path, line number, "
         "column, byte offset and terminated bytes (guard: separator non-empty and not starting with a digit, the "
         "path-ending byte not in the path, numbers < 2^64; line-oriented records; -o / --vimgrep records and "
         "multi-line blocks have layout theorems read by the same parser); json_roundtrip — the output of a search is "
         "begin, the messages of the delivered events in order, end, and decoding each message (Data as text or base64) "
         "gives back the event's bytes, line number, offset and submatch slices. Also: the prelude of a record is the "
         "event's own path / line number / column / byte offset in fixed order with the configured separators, the "
         "text is the event's bytes with the terminator added iff missing (fast, slow and multi-line paths; "
         "write_colored_matches writes exactly the line); DecimalFormatter round-trips for every u64; base64_standard "
         "round-trips for every byte string (unbounded); Data is text iff utf8_valid; a JSON submatch is the slice of "
         "`lines` at its offsets; a file's messages are begin, one match/context message per delivered event in "
         "stream order carrying that event's bytes, line number and offset, then end. COLUMN LIMIT AND TRIM "
         "(max_columns_line_or_notice, for every line / configuration / match list): the text of a record is the line "
         "(under --trim minus its longest prefix of ASCII whitespace that is not a terminator byte) or, exactly when "
         "its length in bytes incl. its terminator exceeds --max-columns, the omitted-line notice (with the number of "
         "matches when known) or under --max-columns-preview a prefix ending at the limit-th grapheme boundary plus "
         "the fixed notice; coordinates (line number, offset, column in the untrimmed line) are unaffected; without "
         "limit and trim the model is the old one (no_limit_is_identity). Tie to the code: extracted models vs the real printers on "
         "generated cases; independent oracle: every printed record of rg / the library printers is re-located in the "
         "input bytes (line number, offset, column via an independent regex engine, text), JSON re-assembled.",
    note="trusted: Coq kernel, extraction, OCaml driver, Rust harness, Python re as independent matcher for the column "
         "oracle (restricted pattern pool); utf8_valid is differentially tested against std::str::from_utf8 and "
         "Python's decoder, not proved against a Unicode specification; only-matching / per-match MULTI-LINE paths "
         "have layout + record-origin theorems (every record = prelude with stated coordinates + stated input bytes; with a "
         "column limit or --trim they are modelled and corresponded only), with the observation (outside the property) "
         "MultiLineOnlyMatchingColumnIsBlockRelative (column = offset in the block); bstr's grapheme segmentation is a "
         "universally quantified function in the theorems and tabulated from the real crate per case; JSON round trip is "
         "for rg's configuration without -m; that the searcher's "
         "events are the input's lines is C03's theorem (checked here by the oracle)",
    technique="Coq proof over executable models + extracted-model/implementation correspondence + input re-location oracle",
    design="§7 C09")

# patterns on which Python's re and the regex crate agree (leftmost-first, same syntax)
PY_PATTERNS = ["a", "b+", "[ab]", "ab|b", "c", "x", "A", "a+b*", "[0-9]", " ", "é", r"\t", "a[bc]?", "y|:"]
ML_PATTERNS = [r"a\nb", r"b\n", r"a\n+", r"[ab]\n[ab]", r"c\n\n?", r"x\ny",
               # line-spanning on DOS files, and touching matches (each match ends where the next one starts)
               r"a\r?\nb", r"[abc]\r?\n", r"[ab1]\r\n[ab1]", r"a1?\n?", r"[ab]1?\n", r"[a-z0-9 ]+\r?\n", r"[ab]1\n[ab]1",
               # matches spanning two or three lines next to single-line ones (multi-line -o / --vimgrep records)
               r"[ab xy1]\n[ab xy1]", r"[ab xy1:-]\n+[ab xy1:-]|[ab]", r"[a-z]\n[a-z]\n[a-z]|[a-z]", r"[ab1]\r?\n[ab1]|1",
               r"[a-z1 ]\n[a-z1 ]", r"[ab xy]+\n[ab xy]+"]
ALPH = b"ab xycA\t1:-"
NAMES = [b"f1", b"f2", b"f3"]


def gen_file(rng, crlf):
    if rng.random() < 0.04:
        return b""
    lines = []
    for _ in range(rng.randint(1, 7)):
        k = rng.random()
        if k < 0.04:
            ln = bytes(rng.choice(ALPH) for _ in range(rng.randint(130, 220)))     # long line
        else:
            ln = bytes(rng.choice(ALPH) for _ in range(rng.choice([0, 1, 2, 3, 5, 8])))
        if rng.random() < 0.15:
            i = rng.randint(0, len(ln))
            ln = ln[:i] + rng.choice([b"\xff", b"\xc3\xa9", b"\xe2\x82", b"\xf0\x9f\x98\x80", b"\xed\xa0\x80", b"\xc0\xaf"]) + ln[i:]
        lines.append(ln)
    term = b"\r\n" if crlf else b"\n"
    s = b""
    for i, ln in enumerate(lines):
        s += ln
        if i + 1 < len(lines) or rng.random() < 0.6:
            s += term if (not crlf or rng.random() < 0.85) else b"\n"
    return s


def gen_case(rng):
    fl = dict(line_number=int(rng.random() < 0.8), binary=0)
    fl["multiline"] = int(rng.random() < 0.3)
    fl["crlf"] = int(rng.random() < 0.2)
    fl["invert"] = int(rng.random() < 0.12)
    fl["ignore_case"] = int(rng.random() < 0.15)
    k = rng.random()
    if k < 0.12:
        fl["passthru"] = 1
    elif k < 0.6:
        fl["after"] = rng.choice([0, 1, 2])
        fl["before"] = rng.choice([0, 1, 2])
    pool = PY_PATTERNS + (ML_PATTERNS * 3 if fl["multiline"] else [])
    pat = rng.choice(pool)
    nfiles = rng.randint(1, 3)
    dos = (not fl["crlf"]) and rng.random() < 0.15      # \r\n line ends searched without --crlf
    files = [(NAMES[i], gen_file(rng, fl["crlf"] or dos)) for i in range(nfiles)]
    ctx_on = bool(fl.get("after") or fl.get("before"))
    named = [
        # hiargs.rs: with context the file separator is the context separator
        ("full", mstd(col=1, bo=1, sc=b"--", ss=b"--" if ctx_on else None)),    # -n -b --column --no-heading -H
        ("vim", mstd(pm=1, pm1=1, col=1, sc=b"--", ss=b"--" if ctx_on else None)),   # --vimgrep
        ("json", mjson()),
        ("omc", mstd(only=1, col=1, bo=1, sc=b"--", ss=b"--" if ctx_on else None)),   # -o -n -b --column
        ("rand", mstd(heading=rng.random() < 0.4, path=rng.random() < 0.8, pm=rng.random() < 0.2, pm1=rng.random() < 0.5,
                      col=rng.random() < 0.5, bo=rng.random() < 0.5, ss=rng.choice([None, b"", b"=="]),
                      sc=rng.choice([None, b"--"]), sm=rng.choice([b":", b"|"]), sx=rng.choice([b"-", b"+"]),
                      pt=rng.choice([None, None, 0]), only=rng.random() < 0.15)),
        ("json_always", mjson(always=1, mx=rng.choice([None, None, 1, 2]))),
        ("count", msum(0, ez=0)), ("files", msum(2, pt=rng.choice([None, 0]))),
    ]
    # a share of the cases is printed a second time through a writer that accepts at most `chunk` bytes per write call
    chunk = rng.choice([1, 2, 3, 4, 5, 6, 7, 16, 100, 1024]) if rng.random() < 0.4 else 0
    return dict(pattern=pat, flags=fl, files=files, modes=[m for _, m in named], names=[n for n, _ in named], mx=None,
                relations=True, chunk=chunk)


# ----------------------------------------------------------------------------- the oracle

def split_lines(data):
    """[(offset, line bytes with terminator)]"""
    out = []
    pos = 0
    for ln in data.splitlines(keepends=True) if False else re.findall(rb"[^\n]*\n|[^\n]+$", data):
        out.append((pos, ln))
        pos += len(ln)
    return out


def strip_term(b):
    if b.endswith(b"\r\n"):
        return b[:-2]
    if b.endswith(b"\n"):
        return b[:-1]
    return b


def content(lbytes, crlf):
    """the content of an input line: without its \\n, and without the \\r before it only under --crlf"""
    b = lbytes[:-1] if lbytes.endswith(b"\n") else lbytes
    if crlf and lbytes.endswith(b"\n") and b.endswith(b"\r"):
        b = b[:-1]
    return b


def rec_text(text, crlf):
    """the text of a printed record (already cut at \\n): under --crlf the printed terminator is \\r\\n"""
    return text[:-1] if crlf and text.endswith(b"\r") else text


def same_line(text, lbytes, crlf):
    """byte-for-byte: the printed text is the input line's content (a \\r before \\n is content unless --crlf)"""
    if crlf:
        # a line that ended in a bare \\n may be re-terminated with \\r\\n by the slow path, and a \\r\\n line keeps it
        return rec_text(text, True) == content(lbytes, True) or text == content(lbytes, True)
    return text == content(lbytes, False)


def py_regex(c):
    flags = re.I if c["flags"].get("ignore_case") else 0
    return re.compile(c["pattern"].encode("utf-8"), flags)


def check_standard_full(ctx, c, out, v, where):
    """mode `full`: f:lnum:col:off:text for matches, f-lnum-off-text for context lines, `--` between groups"""
    fl = c["flags"]
    if not fl.get("line_number"):
        return
    if fl.get("invert") and fl.get("multiline"):
        # whether an inverted context line carries a column depends on matches that include its terminator; the
        # record cannot be parsed unambiguously here (the JSON oracle and the model still cover these cases)
        return
    files = {p: split_lines(d) for p, d in c["files"]}
    rx = py_regex(c)
    seen = {}
    for rec in out.split(b"\n"):
        if rec in (b"", b"--", b"--\r"):
            continue
        # a record carries a column iff match spans were recorded for it: matching lines of a normal search,
        # context lines of an inverted search that contain a match
        if not fl.get("invert"):
            m = re.match(rb"^(f\d)(?::(\d+):(\d+):(\d+):|-(\d+)-(\d+)-)(.*)$", rec, re.S)
        else:
            m = re.match(rb"^(f\d)(?::(\d+):()(\d+):|-(\d+)-(?:\d+-)?(\d+)-)(.*)$", rec, re.S)
            if m and m.group(2) is None:
                # inverted context line: with column when it has a match
                lnum0 = int(m.group(5))
                ls = files[m.group(1)]
                has = 1 <= lnum0 <= len(ls) and rx.search(strip_term(ls[lnum0 - 1][1])) is not None
                m = re.match(rb"^(f\d)(?:-(\d+)-(\d+)-(\d+)-|-(\d+)-(\d+)-)(.*)$" if has
                             else rb"^(f\d)(?::(\d+):(\d+):(\d+):|-(\d+)-(\d+)-)(.*)$", rec, re.S)
                if m and has:
                    m = re.match(rb"^(f\d)()()()-(\d+)-\d+-(\d+)-(.*)$", rec, re.S)
        if not m:
            v("unparsable record", record=rec)
            continue
        path = m.group(1)
        is_match = bool(m.group(2))
        lnum = int(m.group(2) or m.group(5))
        off = int(m.group(4) or m.group(6))
        text = m.group(7)
        lines = files[path]
        if not (1 <= lnum <= len(lines)):
            v("printed line number is not a line of the input", record=rec)
            continue
        loff, lbytes = lines[lnum - 1]
        if not same_line(text, lbytes, fl.get("crlf")):
            v("printed text is not byte-for-byte the input's line at the printed line number", record=rec, line=lbytes)
        if off != loff:
            v("printed byte offset is not the offset of that line", record=rec, expected=loff)
        if lnum in seen.setdefault(path, set()):
            v("a line is printed twice", record=rec)
        seen[path].add(lnum)
        if is_match and not fl.get("multiline") and not fl.get("invert"):
            col = int(m.group(3))
            mm = rx.search(content(lbytes, fl.get("crlf")))
            if mm is None:
                v("a line printed as a match does not match (independent engine)", record=rec)
            elif col != mm.start() + 1:
                v("printed column is not 1 + start of the first match in the line", record=rec, expected=mm.start() + 1)
    if fl.get("passthru"):
        for p, lines in files.items():
            if len(seen.get(p, set())) not in (0, len(lines)):
                v("--passthru did not print every line exactly once", file=p)


def check_vimgrep(ctx, c, out, v, where, multi=False):
    """mode `vim` (--vimgrep = per match, first line only): one record per match; its line number and column are those
    of the start of the match, its text the input line there.  Line mode: matches of each line; multi-line strategy:
    the successive matches of the whole input (independent engine)."""
    fl = c["flags"]
    if not fl.get("line_number") or fl.get("invert"):
        return
    crlf = fl.get("crlf")
    files = {p: split_lines(d) for p, d in c["files"]}
    rx = py_regex(c)
    got = {}
    for rec in out.split(b"\n"):
        if rec in (b"", b"--", b"--\r"):
            continue
        m = re.match(rb"^(f\d):(\d+):(\d+):(.*)$", rec, re.S)
        if not m:
            if re.match(rb"^f\d-\d+-", rec):
                continue    # context line
            v("unparsable --vimgrep record", record=rec)
            continue
        path, lnum, col, text = m.group(1), int(m.group(2)), int(m.group(3)), m.group(4)
        lines = files[path]
        if not (1 <= lnum <= len(lines)) or not same_line(text, lines[lnum - 1][1], crlf):
            v("--vimgrep text is not byte-for-byte the input's line at the printed line number", record=rec)
            continue
        got.setdefault(path, []).append((lnum, col))
    for path, data in c["files"]:
        lines = files[path]
        want = []
        d2_last = False
        if multi:
            starts = [off for off, _ in lines]
            for mm in rx.finditer(data):
                if mm.start() == mm.end():
                    continue
                import bisect
                k = bisect.bisect_right(starts, mm.start()) - 1
                want.append((k + 1, mm.start() - starts[k] + 1))
        else:
            for k, (off, lb) in enumerate(lines):
                ms = [mm.start() + 1 for mm in rx.finditer(content(lb, crlf))]
                # the printers drop an empty match at the very end of an unterminated last line (D2, C10/C19)
                if ms and not lb.endswith(b"\n") and k == len(lines) - 1:
                    last = list(rx.finditer(content(lb, crlf)))[-1]
                    if last.start() == last.end() == len(content(lb, crlf)):
                        ms = ms[:-1]
                        if not ms:
                            d2_last = True
                            ms = [None]      # the line is printed by the fast path, without a column... as path:lnum:text
                want += [(k + 1, col) for col in ms]
        if d2_last:
            continue
        if got.get(path, []) != want:
            v("--vimgrep records are not (line, column) of the start of each match, in order", file=path,
              got=got.get(path, []), expected=want, multi=multi)


OBS_MLOCOL = "observation_MultiLineOnlyMatchingColumnIsBlockRelative"


def check_only_matching_multi(ctx, c, out, json_msgs, v, where):
    """mode `omc` (-o -n -b --column) under the multi-line strategy.  Expected from the input and an independent engine
    (Python re over the whole file): for every non-empty match, one record per line on whose content it has bytes, in
    order, carrying that line's number, the column of the shown part's first byte... as far as the match starts on
    that line (1 + its offset in the line), the byte offset of the match, and exactly those input bytes.  What the
    code prints as column is 1 + the match's start in the searcher's block (theorem 11): accepted, and counted as
    observation_MultiLineOnlyMatchingColumnIsBlockRelative (outside C09, whose statement excludes only-matching), when
    (and only when) it is exactly that number."""
    fl = c["flags"]
    if (not fl.get("line_number") or fl.get("invert") or fl.get("passthru") or fl.get("after") or fl.get("before")):
        return
    crlf = fl.get("crlf")
    rx = py_regex(c)
    feat = ctx.cov.setdefault("features", {})
    # blocks (absolute offset, length) per path from the JSON match messages: only used to classify the known finding
    blocks, nosub = {}, set()
    for m in json_msgs:
        if m[0] == 1:
            path = data_value(m[1][0])[1] if m[1] else None
            blocks.setdefault(path, []).append((m[4], len(data_value(m[2])[1])))
            if not m[5]:
                nosub.add(path)
    got = {}
    for rec in out.split(b"\n"):
        if rec in (b"", b"--", b"--\r"):
            continue
        m = re.match(rb"^(f\d):(\d+):(\d+):(\d+):(.*)$", rec, re.S)
        if not m:
            got.setdefault(rec[:2], []).append(None)
            continue
        got.setdefault(m.group(1), []).append((int(m.group(2)), int(m.group(3)), int(m.group(4)),
                                               rec_text(m.group(5), crlf)))
    for path, data in c["files"]:
        if path in nosub:
            continue     # a block reported without submatch (D2 class) is printed whole, without column
        lines = split_lines(data)
        want, blockcol = [], []
        for mm in rx.finditer(data):
            if mm.start() == mm.end():
                continue
            spanning = 0
            for k, (ls, lb) in enumerate(lines):
                ce = ls + len(content(lb, crlf))
                a, b = max(ls, mm.start()), min(ce, mm.end())
                if a < b:
                    spanning += 1
                    want.append((k + 1, (mm.start() - ls + 1) if mm.start() >= ls else None, mm.start(), data[a:b]))
                    bo = [o for o, n in blocks.get(path, []) if o <= mm.start() < o + n]
                    blockcol.append(mm.start() - bo[0] + 1 if bo else None)
            if where == "library":
                feat["ml_o_matches"] = feat.get("ml_o_matches", 0) + 1
                feat["ml_o_spanning_matches"] = feat.get("ml_o_spanning_matches", 0) + (spanning > 1)
        g = got.get(path, [])
        if where == "library":
            feat["ml_o_records_located"] = feat.get("ml_o_records_located", 0) + len(g)
        if len(g) != len(want) or None in g:
            v("multi-line -o: the records are not one per (match, line with content of the match)", file=path,
              got=g, expected=want)
            continue
        for r_, w_, bc in zip(g, want, blockcol):
            if (r_[0], r_[2], r_[3]) != (w_[0], w_[2], w_[3]):
                v("multi-line -o: line number / byte offset / text of a record are not the input's at the match",
                  file=path, record=r_, expected=w_)
            elif w_[1] is not None and r_[1] != w_[1]:
                if r_[1] == bc:
                    # observation outside the property (C09 excludes only-matching): the proved model says exactly this
                    feat[OBS_MLOCOL] = feat.get(OBS_MLOCOL, 0) + 1
                else:
                    v("multi-line -o: the column of a record is neither the match's column in its line nor its "
                      "1-based offset in the block", file=path, record=r_, expected=w_, block_column=bc)
            elif w_[1] is None and r_[1] != bc:
                v("multi-line -o: continuation line of a spanning match does not repeat the match's column (theorem 11)",
                  file=path, record=r_, block_column=bc)


def data_value(d):
    """harness Data value -> (is_text, bytes)"""
    b = as_bytes(d[1])
    if d[0] == 0:
        return True, b
    return False, base64.b64decode(b)


def is_utf8(b):
    try:
        b.decode("utf-8")
        return True
    except UnicodeDecodeError:
        return False


def check_json(ctx, c, msgs, v, where, always=False):
    fl = c["flags"]
    files = {p: d for p, d in c["files"]}
    cur = None
    last_end = {}
    lines_cat = {}
    began = set()
    for m in msgs:
        t = m[0]
        path = data_value(m[1][0])[1] if m[1] else None
        if t == 0:
            if cur is not None:
                v("begin inside an open file", msg=m)
            if path in began:
                v("two begin messages for one file", msg=m)
            began.add(path)
            cur = path
            last_end[path] = 0
            lines_cat[path] = b""
        elif t in (1, 2):
            if cur != path:
                v("match/context outside begin..end of its file", msg=m)
                continue
            is_text, lb = data_value(m[2])
            if is_text != is_utf8(lb):
                v("lines: text/bytes choice is not 'valid UTF-8'", msg=m)
            off = m[4]
            data = files[path]
            if data[off:off + len(lb)] != lb or not lb:
                v("lines is not the input at absolute_offset", msg=m)
            if off < last_end[path]:
                v("messages are not in input order", msg=m)
            last_end[path] = off + len(lb)
            lines_cat[path] += lb
            if m[3]:
                if m[3][0] != 1 + data[:off].count(b"\n"):
                    v("line_number is not the number of the first line of `lines`", msg=m)
            for s in m[5]:
                st_text, sb = data_value(s[0])
                if st_text != is_utf8(sb):
                    v("submatch: text/bytes choice is not 'valid UTF-8'", msg=m)
                if lb[s[1]:s[2]] != sb or not (s[1] <= s[2] <= len(lb)):
                    v("submatch text is not lines[start..end]", msg=m)
        elif t == 3:
            if cur != path:
                v("end without begin", msg=m)
            cur = None
    if cur is not None:
        v("missing end message")
    if fl.get("passthru") and not always:
        for p, cat in lines_cat.items():
            if cat != files[p]:
                v("--passthru --json: the lines do not reassemble the input", file=p)


def check_case_oracles(ctx, c, outs, where):
    bad = []

    def v(what, **kw):
        bad.append((what, kw))
    check_standard_full(ctx, c, as_bytes(outs["full"][0]), v, where)
    check_vimgrep(ctx, c, as_bytes(outs["vim"][0]), v, where, multi=bool(outs.get("_multi")))
    check_json(ctx, c, outs["json"][0], v, where)
    if outs.get("_multi") and "omc" in outs:
        check_only_matching_multi(ctx, c, as_bytes(outs["omc"][0]), outs["json"][0], v, where)
    for what, kw in bad:
        ctx.violation("%s: %s" % (where, what),
                      dict(kind="oracle", where=where, pattern=c["pattern"], flags=c["flags"],
                           files=[(repr(p), repr(d)) for p, d in c["files"]],
                           detail={k: repr(x)[:600] for k, x in kw.items()}, case=pl.case_val(c), c=pl.jsonable(c)))


def cli_check(ctx, c, outs):
    fl = c["flags"]
    base = pl.cli_flags(fl) + ["--sort", "path", "--with-filename", "--no-heading",
                               "-n" if fl.get("line_number") else "-N", ctx.rng.choice(["--mmap", "--no-mmap"])]
    pat = ["-e", c["pattern"]]
    with pl.Tree(c["files"]) as tree:
        rc, full, err = pl.rg(base + ["-b", "--column"] + pat + tree.names, tree.dir)
        if rc == 2:
            return
        rc2, vim, _ = pl.rg(pl.cli_flags(fl) + ["--sort", "path", "--vimgrep"] + pat + tree.names, tree.dir)
        rc3, js, _ = pl.rg(base + ["--json"] + pat + tree.names, tree.dir)
    ctx.cov["cli_cases"] = ctx.cov.get("cli_cases", 0) + 1
    bad = []

    def v(what, **kw):
        bad.append((what, kw))
    if full != as_bytes(outs["full"][0]):
        v("rg -n -b --column output differs from the library printer", cli=full, library=as_bytes(outs["full"][0]))
    if fl.get("line_number") and vim != as_bytes(outs["vim"][0]):
        v("rg --vimgrep output differs from the library printer", cli=vim, library=as_bytes(outs["vim"][0]))
    # JSON of the CLI, parsed here, through the same oracle
    msgs = []
    for ln in js.split(b"\n"):
        if not ln:
            continue
        try:
            m = pyjson.loads(ln.decode("utf-8"))
        except Exception:
            v("rg --json line is not valid UTF-8 JSON", line=ln)
            continue

        def dv(d):
            if d is None:
                return []
            if "text" in d:
                return [[0, d["text"].encode("utf-8")]]
            return [[1, d["bytes"].encode("ascii")]]
        d = m["data"]
        if m["type"] == "begin":
            msgs.append([0, dv(d["path"])])
        elif m["type"] in ("match", "context"):
            msgs.append([1 if m["type"] == "match" else 2, dv(d["path"]), dv(d["lines"])[0],
                         [] if d["line_number"] is None else [d["line_number"]], d["absolute_offset"],
                         [[dv(s["match"])[0], s["start"], s["end"]] for s in d["submatches"]]])
        elif m["type"] == "end":
            msgs.append([3, dv(d["path"]), [], []])
    check_json(ctx, c, msgs, v, "cli")
    lib = outs["json"][0]
    if len(msgs) != len(lib):
        v("rg --json emits a different number of messages than the library printer", cli=len(msgs), library=len(lib))
    check_standard_full(ctx, c, full, v, "cli")
    for what, kw in bad:
        ctx.violation("cli: " + what, dict(kind="cli", pattern=c["pattern"], flags=fl,
                                           files=[(repr(p), repr(d)) for p, d in c["files"]],
                                           detail={k: repr(x)[:600] for k, x in kw.items()}, case=pl.case_val(c),
                                           c=pl.jsonable(c)))


def run_batch(ctx, cases, cli_every):
    res = pl.run_cases(ctx, cases)
    for k, (c, r) in enumerate(zip(cases, res)):
        if r is None:
            continue
        status, real, model, line = r[:4]
        if status != 0:
            ctx.cov["rejected_patterns"] = ctx.cov.get("rejected_patterns", 0) + 1
            if status != 1:
                # 1 = the pattern was rejected; anything else means the real searcher could not run the case at all
                ctx.violation("the harness could not run a generated case on the real searcher (status %d)" % status,
                              dict(kind=1001, case=line, pattern=c["pattern"], flags=c["flags"],
                                   files=[(repr(p_), repr(d)) for p_, d in c["files"]]), nfi=True)
            continue
        if not r[5]:
            ctx.cov["skipped_searcher_broke_prefix_law_C16"] = ctx.cov.get("skipped_searcher_broke_prefix_law_C16", 0) + 1
            continue
        if not isinstance(model, list) or len(model) != len(real):
            ctx.violation("printer model produced no result (out of fuel / driver failure)",
                          dict(kind=1001, case=line, model=repr(model)), nfi=True)
            continue
        outs = {}
        nontrivial = False
        for j, name in enumerate(c["names"]):
            outs[name] = real[j]
            if model[j] != real[j]:
                ctx.violation("printer model and real printer disagree in mode %s (the C09 theorems no longer describe "
                              "the code)" % name,
                              dict(kind=1001, case=line, mode=c["modes"][j], pattern=c["pattern"], flags=c["flags"],
                                   files=[(repr(p), repr(d)) for p, d in c["files"]], model=repr(model[j])[:3000],
                                   code=repr(real[j])[:3000], c=pl.jsonable(c)), nfi=True)
            if real[j][0]:
                nontrivial = True
        ctx.note_case(line, nontrivial)
        feat = ctx.cov.setdefault("features", {})
        for n in ("multiline", "crlf", "invert", "passthru", "after", "before", "line_number", "ignore_case"):
            if c["flags"].get(n):
                feat[n] = feat.get(n, 0) + 1
        if r[4]:
            feat["multi_line_strategy"] = feat.get("multi_line_strategy", 0) + 1
        if any(not is_utf8(d) for _, d in c["files"]):
            feat["invalid_utf8"] = feat.get("invalid_utf8", 0) + 1
        if any(len(ln) > 128 for _, d in c["files"] for ln in d.split(b"\n")):
            feat["long_line"] = feat.get("long_line", 0) + 1
        if any(d and not d.endswith(b"\n") for _, d in c["files"]):
            feat["no_final_newline"] = feat.get("no_final_newline", 0) + 1
        outs["_multi"] = r[4]
        # every io::Write the printers are given must receive the same bytes: short writes lose nothing
        if c.get("chunk"):
            feat["short_writer"] = feat.get("short_writer", 0) + 1
            for j, sres in enumerate(r[7]):
                if sres != 1:
                    got = sres[1] if isinstance(sres, list) and len(sres) > 1 else None
                    ctx.violation("library: a writer accepting at most %d bytes per write call received different output "
                                  "than an unlimited writer (mode %s): printed bytes are lost or changed"
                                  % (c["chunk"], c["names"][j]),
                                  dict(kind="oracle", where="short-writer", pattern=c["pattern"], flags=c["flags"],
                                       chunk=c["chunk"], mode=c["modes"][j],
                                       files=[(repr(p), repr(d)) for p, d in c["files"]],
                                       unlimited=repr(real[j][0])[:1500], short=repr(got)[:1500],
                                       case=pl.case_val(c), c=pl.jsonable(c)))
        check_case_oracles(ctx, c, outs, "library")
        if nontrivial:
            ctx.sample(dict(pattern=c["pattern"], flags={k2: v2 for k2, v2 in c["flags"].items() if v2},
                            files=[d.decode("latin1")[:80] for _, d in c["files"]],
                            full=as_bytes(outs["full"][0]).decode("latin1")[:300]))
        if cli_every and k % cli_every == 0 and not any(b"\x00" in d for _, d in c["files"]):
            cli_check(ctx, c, outs)


def corpus():
    L = dict(line_number=1, binary=0)

    def mk(pat, fl, files):
        ctx_on = fl.get("after") or fl.get("before")
        named = [("full", mstd(col=1, bo=1, sc=b"--", ss=b"--" if ctx_on else None)),
                 ("vim", mstd(pm=1, pm1=1, col=1, sc=b"--", ss=b"--" if ctx_on else None)),
                 ("json", mjson()), ("heading", mstd(heading=1, ss=b"", col=1)), ("null", mstd(pt=0, bo=1)),
                 ("omc", mstd(only=1, col=1, bo=1, sc=b"--", ss=b"--" if ctx_on else None))]
        return dict(pattern=pat, flags=fl, files=[(NAMES[i], d) for i, d in enumerate(files)],
                    modes=[m for _, m in named] + [msum(0, ez=0), msum(2)], names=[n for n, _ in named] + ["count", "files"],
                    mx=None, relations=True, chunk=1 + (len(pat) + len(files[0])) % 7)
    return [
        mk("a", L, [b"xa\nb\nxxa a\n", b"a"]),
        mk("b", dict(L, after=1, before=1), [b"a\nb\nc\nd\ne\nb\n"]),
        mk("a", dict(L, crlf=1), [b"xa\r\nb\r\na"]),
        mk("a", L, [b"\xffa\xff\n\xc3\xa9a\n"]),
        mk("a", dict(L, passthru=1), [b"x\na\ny", b"q\n"]),
        mk(r"[ab]1\n", dict(L, multiline=1), [b"a1\nb1\n"]),     # observation MultiLineOnlyMatchingColumnIsBlockRelative: 2:4:b1
        mk(r"c\nd|e", dict(L, multiline=1), [b"abc\nde\n", b"xc\nd\nq\ne\n"]),
        mk(r"b\r\nb|a", dict(L, multiline=1, crlf=1), [b"ab\r\nba\r\n"]),
        mk(r"b\nc", dict(L, multiline=1), [b"ab\ncd\n"]),                  # column_number_multi_line of the suite
        mk(r"a\n+", dict(L, multiline=1, after=1), [b"a\n\nb\na\nc\n"]),
        mk("a", dict(L, invert=1, after=1), [b"a\nb\na\n"]),
        mk("x", L, [b"y" * 300 + b"x\n" + b"x" + b"z" * 200]),
        # DOS line ends without --crlf on the paths that trim the terminator and write their own
        mk(r"one\r\nbeta", dict(L, multiline=1), [b"beta one\r\nbeta two\r\nx\r\n"]),
        mk(r"[a-z]+\r?\n", dict(L, multiline=1), [b"ab\r\ncd\r\n\r\nef"]),
        mk("a", L, [b"a\r\nb\r\nxa\r\n"]),
        # touching matches merged into one block, the later ones starting at the beginning of a line (--vimgrep)
        mk(r"a[0-9]\nb[0-9]", dict(L, multiline=1), [b"a1\nb1\na2\nb2\n", b"x\na1\nb1\na2\nb2"]),
        mk(r"[ab]1?\n", dict(L, multiline=1), [b"a1\nb\na\nx\nb1\n"]),
    ]


def directed_line_buffered(ctx):
    """rg --line-buffered --null-data: stdout is a LineWriter, which flushes up to the last \\n of a write and may
    accept only part of the rest; records with an embedded \\n followed by more than its buffer must arrive whole"""
    import os
    import tempfile
    recs = [b"foo head\n" + b"x" * 5000, b"nothing here", b"second foo", b"a\nb foo\n" + b"y" * 3000 + b"\n tail"]
    data = b"".join(r + b"\0" for r in recs)
    d = tempfile.mkdtemp(prefix="lb", dir=vlib.CACHE)
    try:
        f = os.path.join(d, "in.bin")
        open(f, "wb").write(data)
        want = b"".join(r + b"\0" for r in recs if b"foo" in r)
        want_nb = b""
        off = 0
        for i, r in enumerate(recs):
            if b"foo" in r:
                want_nb += b"%d:%d:" % (i + 1, off) + r + b"\0"
            off += len(r) + 1
        for mode in ("--line-buffered", "--block-buffered"):
            for extra, exp in ((["-N"], want), (["-n", "-b"], want_nb)):
                rc, out, err = pl.rg([mode, "--null-data", "-a"] + extra + ["foo", "in.bin"], d)
                ctx.cov["cli_cases"] = ctx.cov.get("cli_cases", 0) + 1
                if out != exp:
                    ctx.violation("cli: rg %s --null-data %s: the printed records are not byte-for-byte the input's records "
                                  "(%d bytes printed, %d expected)" % (mode, " ".join(extra), len(out), len(exp)),
                                  dict(kind="cli-directed", args=[mode, "--null-data", "-a"] + extra + ["foo"],
                                       input_records=[repr(r[:40]) + ("... (%d bytes)" % len(r)) for r in recs],
                                       first_difference=next((i for i in range(min(len(out), len(exp))) if out[i] != exp[i]),
                                                             min(len(out), len(exp)))))
    finally:
        for n in os.listdir(d):
            os.unlink(os.path.join(d, n))
        os.rmdir(d)


# ----------------------------------------------------------------------------- --max-columns / --max-columns-preview / --trim (kind 901)

WS = [b" ", b"  ", b"\t", b" \t ", b"\x0b", b"\x0c ", b"\r", b""]
# multi-byte material around the cut: 2/3/4-byte characters, combining mark, regional-indicator pair, ZWJ sequence,
# Hangul jamo, invalid bytes
UNI = ["é".encode(), "€".encode(), "😀".encode(), "é".encode(), "🇩🇪".encode(), "👩‍💻".encode(),
       "가".encode(), b"\xff", b"\xe2\x82", b"\xc3"]
COLS_PATTERNS = ["a", "b+", "[ab]", "x", " ", "é", "a[bc]?", r"\t", "[0-9]", "c"]


def cols_mode_val(m):
    return pl.mode_val(m)[:-1] + " " + pl.onum(m["maxcol"]) + " " + str(int(m["preview"])) + " " + str(int(m["trim"])) + ")"


def cols_case_val(c):
    return vlib.vlist([vbytes(c["pattern"]), pl.flags_val(c["flags"]),
                       vlib.vlist([vlib.vlist([pl.obytes(p), vbytes(i)]) for p, i in c["files"]]),
                       vlib.vlist([cols_mode_val(m) for m in c["modes"]])])


def gen_cols_file(rng, crlf):
    lines = []
    for _ in range(rng.randint(1, 6)):
        parts = [rng.choice(WS) if rng.random() < 0.6 else b""]
        for _ in range(rng.randint(0, 6)):
            k = rng.random()
            if k < 0.3:
                parts.append(rng.choice(UNI))
            elif k < 0.4:
                parts.append(rng.choice(WS))
            else:
                parts.append(bytes(rng.choice(b"ab xc1") for _ in range(rng.randint(1, 4))))
        ln = b"".join(parts).replace(b"\n", b"")
        if not crlf or rng.random() < 0.5:
            ln = ln.replace(b"\r", b"")          # a \r inside a line only sometimes (it is trimmable unless --crlf)
        lines.append(ln)
    term = b"\r\n" if crlf else b"\n"
    s = b""
    for i, ln in enumerate(lines):
        s += ln
        if i + 1 < len(lines) or rng.random() < 0.7:
            s += term if (not crlf or rng.random() < 0.85) else b"\n"
    return s


def cols_full_mode(fl, maxcol, preview, trim, col=1, bo=0, only=0):
    ctx_on = bool(fl.get("after") or fl.get("before"))
    m = mstd(col=col, bo=bo, only=only, sc=b"--", ss=b"--" if ctx_on else None)
    m.update(maxcol=maxcol, preview=preview, trim=trim)
    return m


def gen_cols_case(rng):
    fl = dict(line_number=int(rng.random() < 0.8), binary=0)
    fl["multiline"] = int(rng.random() < 0.15)
    fl["crlf"] = int(rng.random() < 0.25)
    fl["invert"] = int(rng.random() < 0.1)
    fl["ignore_case"] = int(rng.random() < 0.1)
    k = rng.random()
    if k < 0.1:
        fl["passthru"] = 1
    elif k < 0.35:
        fl["after"] = rng.choice([0, 1])
        fl["before"] = rng.choice([0, 1])
    pat = rng.choice(COLS_PATTERNS + ([r"a\n *b", r"[ab]\n", r"c\n\s*"] * 2 if fl["multiline"] else []))
    files = [(NAMES[i], gen_cols_file(rng, fl["crlf"])) for i in range(rng.randint(1, 2))]
    lens = [len(ln) for _, d in files for ln in d.split(b"\n")] or [0]

    def limit():
        k = rng.random()
        if k < 0.12:
            return None
        if k < 0.2:
            return rng.choice([0, 1, 2])
        return max(0, rng.choice(lens) + rng.choice([-4, -3, -2, -1, 0, 0, 1, 2]))
    modes = [cols_full_mode(fl, limit(), int(rng.random() < 0.5), int(rng.random() < 0.5),
                            col=int(rng.random() < 0.6), bo=int(rng.random() < 0.3))]
    for _ in range(2):
        lineonly = True
        m = mstd(heading=rng.random() < 0.3, path=rng.random() < 0.8, pm=lineonly and rng.random() < 0.2,
                 pm1=rng.random() < 0.5, col=rng.random() < 0.5, bo=rng.random() < 0.4, stats=rng.random() < 0.2,
                 ss=rng.choice([None, b"", b"=="]), sc=rng.choice([None, b"--"]), sm=rng.choice([b":", b"|"]),
                 sx=rng.choice([b"-", b"+"]), pt=rng.choice([None, None, 0]), only=lineonly and rng.random() < 0.3,
                 mx=rng.choice([None, None, None, 1, 2]))
        m.update(maxcol=limit(), preview=int(rng.random() < 0.5), trim=int(rng.random() < 0.5))
        modes.append(m)
    return dict(pattern=pat, flags=fl, files=files, modes=modes)


def cols_corpus():
    L = dict(line_number=1, binary=0)

    def mk(pat, fl, files, *ms):
        return dict(pattern=pat, flags=fl, files=[(NAMES[i], d) for i, d in enumerate(files)],
                    modes=[cols_full_mode(fl, *m) for m in ms])
    return [
        # the witnesses of the observations (limit counts the terminator; --trim and the "more matches" count)
        mk("abc", L, [b"abc\n", b"abc"], (3, 0, 0), (3, 1, 0), (4, 0, 0)),
        mk("foo", L, [b"  foo xxxxxxxx\n", b"foo xxxxxxxx\n"], (2, 1, 1), (2, 1, 0), (2, 0, 1)),
        # the printer's own tests: max_columns, max_columns_preview, trim_ascii
        mk("Doctor Watsons|Sherlock", L, [b"For the Doctor Watsons of this world, as opposed to the Sherlock\n"
                                         b"Holmeses, success in the province of detective work must always\n"],
           (63, 0, 0), (46, 1, 0), (46, 1, 1)),
        mk("Watson", L, [b"     Watson\n\t\x0b\x0c Watson  \n\n   \n"], (None, 0, 1), (3, 1, 1), (0, 0, 1), (0, 1, 1)),
        mk("a", dict(L, crlf=1), [b" \r a\r\n\r\r\n a\xc3\xa9\xc3\xa9\r\n"], (2, 1, 1), (3, 1, 0), (1, 0, 1)),
        # cuts next to multi-byte graphemes
        mk("x", L, ["x🇩🇪🇩🇪é\n xééx\n".encode()], (2, 1, 0), (3, 1, 1), (4, 1, 0), (1, 1, 1)),
        mk("x", dict(L, after=1), [b"x\xff\xff\xff\n  \xe2\x82 long context line\n"], (2, 1, 1), (2, 0, 0)),
        mk(r"a\n *b", dict(L, multiline=1), [b"  xa\n   b and more\nz\n"], (4, 1, 1), (4, 0, 0), (None, 0, 1)),
        # -U -o and -U --vimgrep with a limit (the printer's only_matching_max_columns_multi_line tests' shape)
        dict(pattern=r"a+\n *b+", flags=dict(L, multiline=1), files=[(NAMES[0], b"  xaaaaaaaa\n   bbbbbb and more\nz aa\nb\n")],
             modes=[dict(mstd(only=1, col=1), maxcol=mc, preview=pv, trim=tr) for mc, pv, tr in ((5, 0, 0), (5, 1, 1), (3, 1, 0))]
             + [dict(mstd(pm=1, pm1=p1, col=1), maxcol=mc, preview=pv, trim=tr)
                for mc, pv, tr, p1 in ((5, 0, 0, 1), (5, 1, 1, 1), (5, 1, 0, 0), (12, 0, 1, 1))]),
    ]


def observe(ctx, cls):
    """behaviour of --max-columns / --trim that differs from a reading of the documentation but is OUTSIDE property C09
    (whose text excludes trimming and column limits): accepted, only counted in the evidence"""
    feat = ctx.cov.setdefault("features", {})
    feat["observation_" + cls] = feat.get("observation_" + cls, 0) + 1


def cols_independent_oracle(ctx, c, m, out, where):
    """From the documentation alone (no model): in a plain line-oriented run every record is the input line of its
    number: verbatim (minus the trimmed whitespace) when it is not longer than the limit, a notice / preview when longer."""
    fl = c["flags"]
    if fl.get("multiline") or fl.get("invert") or fl.get("after") or fl.get("before") or fl.get("passthru") \
            or not fl.get("line_number") or m["only"] or m["pm"] or m["bo"] or m["heading"] or not m["path"] \
            or m["sm"] != b":" or m["pt"] is not None or m["ss"] is not None:
        return
    files = dict(c["files"])
    term = b"\r\n" if fl.get("crlf") else b"\n"
    for rec in out.split(b"\n"):
        if not rec:
            continue
        mm = re.match(rb"(f\d):(\d+):" + (rb"(\d+):" if m["col"] else rb"()"), rec)
        if not mm:
            ctx.violation("%s: unparsable record under --max-columns/--trim" % where, dict(kind="cols-oracle", rec=repr(rec), c=cols_jsonable(c), mode=repr(m)))
            return
        ctx.cov["cols_oracle_records"] = ctx.cov.get("cols_oracle_records", 0) + 1
        text = rec[mm.end():]
        if fl.get("crlf") and text.endswith(b"\r"):
            text = text[:-1]
        lines = split_lines(files[mm.group(1)])
        line = lines[int(mm.group(2)) - 1][1]
        body = content(line, fl.get("crlf"))
        if m["trim"]:
            body = body.lstrip(b"\t\x0b\x0c " + (b"" if fl.get("crlf") else b"\r"))
        limit = m["maxcol"]
        notice = text.startswith(b"[Omitted long ") if not m["preview"] else (b" [... " in text and not text == body)
        if limit is None or len(body) + len(line) - len(content(line, fl.get("crlf"))) <= limit:
            if text != body:
                ctx.violation("%s: a line not longer than the limit is not printed as it is" % where,
                              dict(kind="cols-oracle", rec=repr(rec), expected=repr(body), c=cols_jsonable(c), mode=repr(m)))
        elif len(body) <= limit:
            # longer than the limit only if its terminator is counted: the code counts it; accepted either way
            if text != body:
                observe(ctx, "MaxColumnsCountsTerminator")
        else:
            ok = notice and (not m["preview"] or body.startswith(text[:text.index(b" [... ")]))
            if not ok:
                ctx.violation("%s: a line longer than the limit is printed neither as notice nor as a preview that is a "
                              "prefix of it" % where,
                              dict(kind="cols-oracle", rec=repr(rec), line=repr(body), c=cols_jsonable(c), mode=repr(m)))


def cols_jsonable(c):
    def jm(m):
        return {k: (v.hex() if isinstance(v, bytes) else v) for k, v in m.items()}
    return dict(pattern=c["pattern"], flags=c["flags"], files=[(p.hex(), d.hex()) for p, d in c["files"]],
                modes=[jm(m) for m in c["modes"]])


def cols_from_jsonable(d):
    def jm(m):
        return {k: (bytes.fromhex(v) if k in ("ss", "sc", "sm", "sx") and isinstance(v, str) else v) for k, v in m.items()}
    return dict(pattern=d["pattern"], flags=d["flags"], files=[(bytes.fromhex(p), bytes.fromhex(x)) for p, x in d["files"]],
                modes=[jm(m) for m in d["modes"]])


def cols_cli_check(ctx, c, real):
    """the rg binary with -M / --max-columns-preview / --trim against the library printer's first mode"""
    fl = c["flags"]
    m = c["modes"][0]
    if any(b"\x00" in d for _, d in c["files"]) or m["pm"]:
        return
    args = pl.cli_flags(fl) + ["--sort", "path", "--with-filename", "--no-heading", "-n" if fl.get("line_number") else "-N",
                               ctx.rng.choice(["--mmap", "--no-mmap"])]
    if m["only"]:
        args.append("-o")
    if m["col"]:
        args.append("--column")
    else:
        args.append("--no-column")
    if m["bo"]:
        args.append("-b")
    if m["maxcol"] is not None:
        args += ["-M", str(m["maxcol"])]
    if m["preview"]:
        args.append("--max-columns-preview")
    if m["trim"]:
        args.append("--trim")
    with pl.Tree(c["files"]) as tree:
        rc, out, err = pl.rg(args + ["-e", c["pattern"]] + tree.names, tree.dir)
    if rc == 2:
        ctx.violation("cli: rg failed on a --max-columns/--trim case: %r" % err[:200],
                      dict(kind="cols-cli", args=args, c=cols_jsonable(c)), nfi=True)
        return
    ctx.cov["cols_cli_cases"] = ctx.cov.get("cols_cli_cases", 0) + 1
    # -M 0 means "no limit" on the command line (hiargs.rs), Some(0) is a limit of 0 for the library
    if m["maxcol"] == 0:
        if b"[Omitted" in out or b" [... " in out:
            ctx.violation("cli: -M 0 must disable the limit", dict(kind="cols-cli", args=args, out=repr(out[:600]), c=cols_jsonable(c)))
        return
    lib = as_bytes(real[0][0])
    if out != lib:
        ctx.violation("cli: rg -M/--max-columns-preview/--trim output differs from the library printer",
                      dict(kind="cols-cli", args=args, cli=repr(out[:1500]), library=repr(lib[:1500]), c=cols_jsonable(c)))
    cols_independent_oracle(ctx, c, m, out, "cli")


def run_cols_batch(ctx, cases, cli_every):
    lines = [cols_case_val(c) for c in cases]
    outs = vlib.code(901, lines)
    parsed, model_in, idx = [], [], []
    for i, o in enumerate(outs):
        v = None
        if o in ("PANIC", "MISSING") or o.startswith("PARSEFAIL"):
            ctx.violation("harness %s on a --max-columns/--trim case" % o, dict(kind=901, line=lines[i], c=cols_jsonable(cases[i])))
        else:
            v = parse_val(o)
            if v[0] == 0:
                model_in.append(pl.unparse(v[1]))
                idx.append(i)
            elif v[0] == 1:
                ctx.cov["rejected_patterns"] = ctx.cov.get("rejected_patterns", 0) + 1
            else:
                # 2: the real searcher failed
                ctx.violation("the harness could not run a generated --max-columns/--trim case (status %d)" % v[0],
                              dict(kind=901, line=lines[i], c=cols_jsonable(cases[i])), nfi=True)
        parsed.append(v)
    mouts = vlib.model(901, model_in)
    feat = ctx.cov.setdefault("cols_features", {})
    for j, i in enumerate(idx):
        c = cases[i]
        v = parsed[i]
        if not v[3]:
            ctx.cov["skipped_searcher_broke_prefix_law_C16"] = ctx.cov.get("skipped_searcher_broke_prefix_law_C16", 0) + 1
            continue
        real = v[2]
        # the one fact the theorems assume about bstr's segmentation (preview_is_a_prefix_within_the_cut): the ends of the
        # graphemes of s ascend strictly and the last one is len(s)
        for row in v[1][4]:
            sbytes, ends = as_bytes(row[0]), (list(row[1]) if isinstance(row[1], (bytes, list)) else [])
            ctx.cov["grapheme_rows"] = ctx.cov.get("grapheme_rows", 0) + 1
            if any(b <= a for a, b in zip([0] + ends, ends)) or (ends[-1] if ends else 0) != len(sbytes):
                ctx.violation("bstr's grapheme ends of %r are %r: not ascending up to the length (assumed contract of "
                              "the preview theorems)" % (sbytes, ends), dict(kind=901, line=lines[i], c=cols_jsonable(c)), nfi=True)
        mo = mouts[j]
        mv = parse_val(mo) if mo.startswith("(") else mo
        if not isinstance(mv, list) or len(mv) != len(real):
            ctx.violation("--max-columns/--trim model produced no result (out of fuel / driver failure)",
                          dict(kind=901, line=lines[i], model=repr(mv)[:500], c=cols_jsonable(c)), nfi=True)
            continue
        nontrivial = False
        for k, m in enumerate(c["modes"]):
            if mv[k] == [77]:
                ctx.violation("the grapheme table of the harness lacks a byte string the model cuts (harness gap, no skip)",
                              dict(kind=901, line=lines[i], mode=repr(m), c=cols_jsonable(c)), nfi=True)
                continue
            if mv[k] != real[k]:
                ctx.violation("standard-printer model with --max-columns/--max-columns-preview/--trim and the real printer "
                              "disagree (max_columns_line_or_notice no longer describes the code)",
                              dict(kind=901, line=lines[i], mode=repr(m), pattern=c["pattern"], flags=c["flags"],
                                   files=[(repr(p), repr(d)) for p, d in c["files"]], model=repr(mv[k])[:3000],
                                   code=repr(real[k])[:3000], c=cols_jsonable(c)), nfi=True)
            out = as_bytes(real[k][0])
            if out:
                nontrivial = True
            if b"[Omitted long" in out:
                feat["omitted"] = feat.get("omitted", 0) + 1
            if b" [... " in out:
                feat["preview"] = feat.get("preview", 0) + 1
            if b" more match" in out:
                feat["preview_with_count"] = feat.get("preview_with_count", 0) + 1
            if m["trim"] and out:
                feat["trim"] = feat.get("trim", 0) + 1
            cols_independent_oracle(ctx, c, m, out, "library")
        ctx.note_case(lines[i], nontrivial)
        if cli_every and j % cli_every == 0:
            cols_cli_check(ctx, c, real)
        if nontrivial and ctx.rng.random() < 0.05:
            ctx.sample(dict(pattern=c["pattern"], cols=[(m["maxcol"], m["preview"], m["trim"]) for m in c["modes"]],
                            files=[d.decode("latin1")[:80] for _, d in c["files"]],
                            out=as_bytes(real[0][0]).decode("latin1")[:300]))


def directed_cols_findings(ctx):
    """observations outside property C09 (its text excludes trimming and column limits), proved on the model as
    limit_ignores_terminator_refuted / preview_count_under_trim_refuted / vimgrep_one_line_per_match_refuted: counted in the
    evidence as observation_<Class> when the rg binary still shows them, never reported"""
    rc, a, _ = pl.rg(["-N", "-M", "3", "abc"], vlib.CACHE, stdin=b"abc\n")
    rc, b, _ = pl.rg(["-N", "-M", "3", "abc"], vlib.CACHE, stdin=b"abc")
    if a != b"abc\n" and b == b"abc\n":
        observe(ctx, "MaxColumnsCountsTerminator")
    rc, t, _ = pl.rg(["--trim", "-M", "2", "--max-columns-preview", "--column", "foo"], vlib.CACHE, stdin=b"  foo xxxxxxxx\n")
    rc, u, _ = pl.rg(["-M", "2", "--max-columns-preview", "--column", "foo"], vlib.CACHE, stdin=b"foo xxxxxxxx\n")
    if b"0 more matches" in u and b"0 more matches" not in t:
        observe(ctx, "PreviewCountUnderTrim")
    rc, v5, _ = pl.rg(["-U", "--vimgrep", "-M", "5", r"a+\nb"], vlib.CACHE, stdin=b"aaaaaaaaaa\nb\n")
    rc, v50, _ = pl.rg(["-U", "--vimgrep", "-M", "50", r"a+\nb"], vlib.CACHE, stdin=b"aaaaaaaaaa\nb\n")
    if v50.count(b"\n") == 1 and v5.count(b"\n") == 2:
        observe(ctx, "VimgrepOneLineLostOnLongLine")
    # colours are outside the model; this one is observed on the binary only
    rc, plain, _ = pl.rg(["--trim", "-M", "5", "-N", "abc"], vlib.CACHE, stdin=b"      abc\n")
    p = subprocess.run([vlib.RG, "--no-config", "--color", "always", "--trim", "-M", "5", "-N", "abc"], cwd=vlib.CACHE,
                       input=b"      abc\n", stdout=subprocess.PIPE, stderr=subprocess.PIPE)
    if plain == b"abc\n" and b"[Omitted" in p.stdout:
        observe(ctx, "ColourChangesOmittedLines")


def run_cols(ctx):
    ctx.cov["cols_rule"] = ("a case = pattern x flags x 1-2 files whose lines carry ASCII-whitespace prefixes and multi-byte "
                            "graphemes x 3 printer configurations with max_columns near the line lengths (None, 0, len-4..len+2), "
                            "preview, trim; model (kind 901) = real printer byte for byte; the first configuration also "
                            "against the rg binary (-M/--max-columns-preview/--trim) and a documentation-level oracle")
    run_cols_batch(ctx, cols_corpus(), cli_every=1)
    directed_cols_findings(ctx)
    n = ctx.count(300)
    run_cols_batch(ctx, [gen_cols_case(ctx.rng) for _ in range(n)], cli_every=max(1, n // ctx.count(40)))


def run(ctx):
    rng = ctx.rng
    ctx.cov["rule"] = ("a case = Python-compatible pattern x flags (-n -U --crlf -v -i -A/-B --passthru) x 1-3 files (incl. "
                       "invalid UTF-8, lines > 128 bytes, CRLF, no final newline) x 5 printer configurations (-n -b "
                       "--column; --vimgrep; --json; random heading/--null/separators/-o; --json always-begin-end with -m); "
                       "non-trivial = some configuration printed something; distinct by case text")
    run_batch(ctx, corpus(), cli_every=1)
    directed_line_buffered(ctx)
    n = ctx.count(800)
    run_batch(ctx, [gen_case(rng) for _ in range(n)], cli_every=max(1, n // ctx.count(80)))
    run_cols(ctx)
    # Data::from_bytes / base64 / DecimalFormatter: model = code = independent oracle
    from props import C10
    C10.check_small_models(ctx)
    ctx.assumptions += [
        "the events a printer receives are lines of the input with their true coordinates: property C03 (the oracle "
        "here re-locates every printed record in the input bytes, so a violation would still be seen)",
        "the matcher is a Section variable (tabulated from the real RegexMatcher); the column oracle uses Python's re "
        "on a pattern pool where both engines agree",
        "std::str::from_utf8 is third-party; utf8_valid is compared with it and with Python's strict decoder per case",
    ]


def replay(ctx, data):
    r = data["replay"]
    if r.get("kind") in (1002, 1003):
        from props import C10
        return C10.replay(ctx, data)
    if r.get("kind") == "cli-directed":
        return directed_line_buffered(ctx)
    if r.get("kind") in (901, "cols-cli", "cols-oracle"):
        directed_cols_findings(ctx)
        return run_cols_batch(ctx, [cols_from_jsonable(r["c"])], cli_every=1)
    if "c" in r:
        run_batch(ctx, [pl.from_jsonable(r["c"])], cli_every=1 if r.get("kind") == "cli" else 0)
