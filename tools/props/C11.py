"""C11 — line-mode matcher promises hold for every accepted pattern over all lines."""
import glob
import os
import re

import vlib
from vlib import vbytes, vlist, vopt, vbool, parse_val

NEED_RG = False
MANIFEST = dict(
    text="Coq theorems by induction on the HIR, for all haystacks, unbounded: ends_spec (executable semantics = "
         "declarative relation), strip_sound / strip_rejects_not_alters / strip_error_witness (terminator stripping "
         "removes exactly the terminator-containing matches; rejection only for a literal containing the terminator or "
         "a class with no other member), non_matching_sound (a byte declared non-matching occurs in no match, incl. "
         "the UTF-8 byte ranges of Unicode classes), terminator_withheld_with_anchors + build_line_terminator_promise, "
         "extract_invariant / inner_literals_sound / candidate_never_skips_a_matching_line (the whole inner-literal "
         "extractor: cross, union, choose, repetition shapes, class expansion, limits, "
         "optimize_for_prefix_by_preference, is_good): every match contains an extracted literal. Tie to the code: "
         "hooks dump the translated and final HIR, the non-matching set and the literal sequences; the extracted "
         "models run on the same HIRs (grammar patterns, every string literal of the repository's tests, arbitrary "
         "HIR values) and every observable is diffed; the Coq HIR semantics is compared with regex-automata "
         "(find/is_match/find_iter/shortest_match and LookMatcher) on generated lines, and the three promises are "
         "checked on every semantic match.",
    note="trusted: Coq kernel, extraction, OCaml driver, Rust harness; regex-syntax parser/translator and its "
         "simplifying Hir constructors (the model's stripped HIR is rebuilt through them before comparison); "
         "regex-automata assumed to implement Spec/RegexSem.v (differentially tested every run)",
    technique="Coq proof over executable model + extracted-model/implementation correspondence + semantic oracle",
    design="§7 C11, §6 RegexSem, A.3")

LOOK_NAMES = ["Start", "End", "StartLF", "EndLF", "StartCRLF", "EndCRLF", "WordAscii", "WordAsciiNegate",
              "WordUnicode", "WordUnicodeNegate", "WordStartAscii", "WordEndAscii", "WordStartUnicode",
              "WordEndUnicode", "WordStartHalfAscii", "WordEndHalfAscii", "WordStartHalfUnicode",
              "WordEndHalfUnicode"]


def unparse(v):
    if isinstance(v, bytes):
        return vbytes(v)
    if isinstance(v, int):
        return str(v)
    return vlist([unparse(x) for x in v])


def L(v):
    """python value as a list (hex-printed lists come back as bytes)"""
    if isinstance(v, bytes):
        return list(v)
    if isinstance(v, int):
        return []
    return v


# ----------------------------------------------------------------------------- pattern grammar

LITS = ["a", "b", "c", "ab", "abc", "foo", "x", "Z", "é", "日", "-", " ", "_", "0", "aé", "\\n", "\\r", "\\x00",
        "\\.", "ß", "K", "k", "S"]
ESCAPES = ["\\w", "\\s", "\\d", "\\W", "\\S", "\\D", "\\b", "\\B", ".", "\\pL", "\\b{start}", "\\b{end}",
           "\\b{start-half}", "\\b{end-half}"]
CLASSES = ["[ab]", "[^a]", "[a-c]", "[a\\n]", "[^\\n]", "[\\r\\n]", "[a\\r]", "[^\\r]", "[\\x00a]", "[é日]", "[a-zé]",
           "[\\n]", "[^a\\n]", "[0-9A-Fa-f]", "[[:alpha:]]", "[\\s]", "[a-j]", "[a-k]", "[α-ω]", "[\\x00-\\x7f]",
           "[\\n\\r]", "[ab\\n]"]
ANCHORS = ["^", "$", "\\A", "\\z"]
REPS = ["?", "*", "+", "??", "*?", "+?", "{2}", "{1,3}", "{2,}", "{0,2}", "{1,2}?", "{0}", "{3}", "{11}", "{2,4}",
        "{0,1}"]


def gen_atom(rng, depth):
    k = rng.randint(0, 11)
    if k <= 3:
        return rng.choice(LITS)
    if k <= 5:
        return rng.choice(ESCAPES)
    if k <= 7:
        return rng.choice(CLASSES)
    if k == 8:
        return rng.choice(ANCHORS[:2] if rng.random() < 0.8 else ANCHORS)
    if depth <= 0:
        return rng.choice(LITS)
    inner = gen_pattern(rng, depth - 1)
    return rng.choice(["(%s)", "(?:%s)", "(?i:%s)", "(?-u:%s)", "(?:%s)", "(?s:%s)", "(?m:%s)", "(?P<n>%s)"]) % inner


def gen_concat(rng, depth):
    parts = []
    for _ in range(rng.choice([1, 1, 2, 2, 3, 4])):
        a = gen_atom(rng, depth)
        if rng.random() < 0.3:
            if len(a) > 1 and not a.startswith(("\\", "[", "(")):
                a = "(?:%s)" % a
            a += rng.choice(REPS)
        parts.append(a)
    return "".join(parts)


def gen_pattern(rng, depth=2):
    n = rng.choice([1, 1, 1, 2, 2, 3])
    return "|".join(gen_concat(rng, depth) for _ in range(n))


COUNTED_PREFIX = [("\\b[A-Z]x:", b"Qx:"), ("\\b[A-Z]:", b"Q:"), (":", b":"), ("\\w:", b"k:"), ("[A-Z]+-", b"QK-"), ("", b"")]
COUNTED_UNIT = [("(ab)", b"ab"), ("(?:xy)", b"xy"), ("a", b"a"), ("(a|b)", None), ("[ab]c", None), ("(?:ab|c)", b"ab")]
COUNTED_SUFFIX = [(";z", b";z"), (";", b";"), ("y\\b", b"y"), ("", b"")]


def gen_counted(rng):
    """a counted repetition (count around the extractor's limit_repeat = 10) of a short unit between literals, with
    lines that contain exactly k copies for k around the bounds: (pattern, lines)"""
    pre, pre_s = rng.choice(COUNTED_PREFIX)
    unit, unit_s = rng.choice(COUNTED_UNIT)
    suf, suf_s = rng.choice(COUNTED_SUFFIX)
    n = rng.choice([9, 10, 10, 11, 11, 12, 12, 13, 20])
    form = rng.randint(0, 3)
    m = None
    if form == 0 or form == 1:
        q = "{%d}" % n
    elif form == 2:
        m = n + rng.choice([1, 2, 3])
        q = "{%d,%d}" % (n, m)
    else:
        q = "{%d,}" % n
    if rng.random() < 0.15:
        q += "?"
    pat = pre + unit + q + suf

    def copies(k):
        if unit_s is not None:
            return unit_s * k
        if unit == "(a|b)":
            return bytes(rng.choice(b"ab") for _ in range(k))
        return b"".join(bytes([rng.choice(b"ab")]) + b"c" for _ in range(k))
    ks = {n - 1, n, n + 1, 10, 11, (m or n) + 1, m or n}
    lines = []
    for k in sorted(x for x in ks if x >= 0):
        lead = rng.choice([b"foo ", b"", b" ", b"x ", b"foo Q"]) if pre_s[:1] != b"Q" else rng.choice([b"foo ", b"", b" "])
        lines.append(lead + pre_s + copies(k) + suf_s + rng.choice([b" bar", b"", b" ", b"z"]))
    rng.shuffle(lines)
    return pat, lines


LIT_PIECES = ["a", "b", "foo", "\r", "\n", "\r\n", "\x00", " ", "é", "x", "\r", "A"]


def gen_literal_case(rng):
    """plain literal patterns (candidates for the fixed-strings shortcut) that may hold raw CR / LF / NUL, under the
    three terminators, with lines that contain the patterns' own text"""
    pats = ["".join(rng.choice(LIT_PIECES) for _ in range(rng.randint(1, 3))) for _ in range(rng.choice([1, 1, 2, 3]))]
    o = default_opts(lt=rng.choice([10, 10, 0, None]), crlf=rng.random() < 0.45, fixed=rng.random() < 0.4,
                     ban=rng.choice([None, 0]), icase=rng.random() < 0.1, smart=rng.random() < 0.1,
                     word=rng.random() < 0.1, whole=rng.random() < 0.05)
    lines = []
    for p in pats:
        b = p.encode("utf-8")
        lines += [b, rng.choice([b"z ", b"", b"a"]) + b + rng.choice([b"", b" q", b"b"])]
    lines += gen_lines(rng, pats, o, 2)
    return dict(patterns=pats, opts=o, lines=lines)


ANCHORED = ["\\A[0-9]+", "\\A[a-z]+", "\\A\\w+", "\\A\\d+x?", "(?-m:^)[a-z]+", "\\A[0-9]", "\\A[a-z]{2,}\\z", "\\A.", "foo\\z", "\\Afoo", "(?-m:foo$)", "(?-m:^)foo", "fo+\\z", "\\Aa|b\\z", "foo(?-m:$)|bar", "\\A(?:foo|bar)", "[a-z]+\\z", "\\Afoo\\z",
            "(?-m:^foo$)", "ba?r\\z", "\\w+\\z"]


def gen_anchor_case(rng):
    """haystack anchors x -x / -w: the anchored match is possible only at the start / end of the haystack while other
    lines match on their own; the terminator must then be withheld"""
    pat = rng.choice(ANCHORED)
    o = default_opts(whole=rng.random() < 0.5, word=rng.random() < 0.4, crlf=rng.random() < 0.25, unicode=rng.random() < 0.8)
    pool = [b"foo", b"bar", b"foo", b"a", b"b", b"x foo", b"foo x", b"fooo", b"br", b"", b"zz", b"foo bar", b"123", b"7", b"42x",
            b"-", b" 9", b"Q"]
    lines = [rng.choice(pool) for _ in range(rng.randint(2, 5))]
    if rng.random() < 0.5:
        lines.insert(0, rng.choice([b"-", b"", b" ", b"Q!"]))      # the anchored line is not the first one
    return dict(patterns=[pat], opts=o, lines=lines)


NEST_PRE = [("", b""), ("\\s+", b" "), ("\\b[A-Z]", b"Q"), ("\\s+[A-Z]", b" Q")]
NEST_L1 = ["foo", "ab", "Sher", "x1"]
NEST_IN = [("(\\w+bar)", [b"xbar", b"zzbar", b"_bar"]), ("(\\d+bar)", [b"1bar", b"42bar"]), ("([a-z]+x)", [b"ax", b"qqx"]),
           ("(?:\\w{2,}k)", [b"abk", b"zzzk"]), ("(\\w+?b(a)r)", [b"xbar"]), ("(?P<n>[0-9]+-)", [b"7-", b"00-"])]
NEST_L2 = ["baz", "lock", "q", "END"]


def gen_nested_literal(rng):
    """literal + nested group + literal (the inner-literal extractor must cross / choose across the group), optionally
    in an alternation and behind a prefix that disables prefix acceleration: (pattern, lines)"""
    pre, pre_s = rng.choice(NEST_PRE)
    l1, (inn, inn_s), l2 = rng.choice(NEST_L1), rng.choice(NEST_IN), rng.choice(NEST_L2)
    core = l1 + inn + l2
    alt = rng.random() < 0.5
    suf, suf_s = rng.choice([("", b""), ("\\s+", b" "), ("\\b", b"")])
    pat = pre + ("(" + core + "|Moriarty)" if alt else core) + suf
    lines = []
    for mid in inn_s + [b""]:
        lines.append(rng.choice([b"", b"zz", b"- "]) + pre_s + l1.encode() + mid + l2.encode() + suf_s + rng.choice([b"", b"w", b"."]))
    lines.append(b" " + l1.encode() + l2.encode() + b" ")
    if alt:
        lines.append(pre_s + b"Moriarty" + suf_s + b"x")
    rng.shuffle(lines)
    return pat, lines


NONUTF8 = [("\\s+((?-u:\\xFF)herlock|[A-Z]atso[a-z]|Moriarty)\\s+", [b" \xffherlock ", b" Watson ", b" Moriarty ", b" herlock "]),
           ("\\w(?-u:\\xFF\\xFE)x|\\dq(?-u:\\xC3)", [b"a\xff\xfex", b"1q\xc3", b"a\xffx", b"1q"]),
           ("[a-z]+(?-u:\\xE9)t\\b", [b"caf\xe9t", b"caf\xc3\xa9t", b"\xe9t"]),
           ("\\b(?-u:[\\xF0-\\xF1])ab\\s", [b"\xf0ab ", b"\xf1ab\t", b"\xf2ab "]),
           ("(?-u:\\x80)foo\\w+|bar(?-u:\\xBF)\\d", [b"\x80foox", b"bar\xbf1", b"foox", b"bar1"]),
           ("\\s(?-u:\\xC3)(?-u:\\x28)z+", [b" \xc3(zz", b" \xc3\xa9zz"])]


def gen_nonutf8_case(rng):
    """patterns whose inner literals are not UTF-8, with haystacks that hold those bytes"""
    pat, hay = rng.choice(NONUTF8)
    o = default_opts(word=rng.random() < 0.2, crlf=rng.random() < 0.15, ban=None)
    lines = [rng.choice([b"", b"x ", b"- "]) + h + rng.choice([b"", b" y"]) for h in hay] + [b"plain", b""]
    rng.shuffle(lines)
    return dict(patterns=[pat], opts=o, lines=lines)


def scrape_repo_patterns():
    """every short Rust string literal in the repository's regex-related tests (most are patterns)"""
    pats = set()
    files = glob.glob(os.path.join(vlib.REPO, "crates", "regex", "src", "*.rs")) + \
        glob.glob(os.path.join(vlib.REPO, "tests", "*.rs")) + \
        glob.glob(os.path.join(vlib.REPO, "crates", "searcher", "src", "**", "*.rs"), recursive=True) + \
        glob.glob(os.path.join(vlib.REPO, "crates", "printer", "src", "*.rs"))
    for f in files:
        try:
            t = open(f, encoding="utf-8").read()
        except Exception:
            continue
        for m in re.finditer(r'r"([^"\n]{1,40})"', t):
            pats.add(m.group(1))
        for m in re.finditer(r'r#"([^\n]{1,40}?)"#', t):
            pats.add(m.group(1))
        for m in re.finditer(r'(?<![r#])"((?:[^"\\\n]|\\.){1,40})"', t):
            s = m.group(1)
            try:
                s2 = bytes(s, "utf-8").decode("unicode_escape").encode("latin1").decode("utf-8")
            except Exception:
                continue
            if "\x00" in s2:
                continue
            pats.add(s2)
    return sorted(pats)


def gen_options(rng):
    lt = rng.choice([10, 10, 10, 10, 0, None, 65 if rng.random() < 0.2 else 10])
    crlf = rng.random() < 0.25
    ban = rng.choice([None, 0, 0])
    unicode = rng.random() < 0.8
    word = rng.random() < 0.15
    whole = rng.random() < 0.1
    icase = rng.random() < 0.15
    smart = rng.random() < 0.1
    fixed = rng.random() < 0.05
    multi = rng.random() < 0.85
    dotall = rng.random() < 0.1
    return dict(lt=lt, ban=ban, crlf=crlf, unicode=unicode, word=word, whole=whole, icase=icase, smart=smart,
                fixed=fixed, multi=multi, dotall=dotall)


def opts_val(o):
    return vlist([vopt(None if o["lt"] is None else str(o["lt"])), vopt(None if o["ban"] is None else str(o["ban"])),
                  vbool(o["crlf"]), vbool(o["unicode"]), vbool(o["word"]), vbool(o["whole"]), vbool(o["icase"]),
                  vbool(o["smart"]), vbool(o["fixed"]), vbool(o["multi"]), vbool(o["dotall"])])


def term_bytes(o):
    if o["crlf"]:
        return b"\r\n"
    return bytes([o["lt"] if o["lt"] is not None else 10])


def pattern_alphabet(pats):
    al = set()
    for p in pats:
        for ch in p:
            if ch.isalnum() or ch in " -_":
                al.update(ch.encode("utf-8"))
    return al


def gen_lines(rng, pats, o, n):
    al = sorted(pattern_alphabet(pats) | set(term_bytes(o)) | {13, 10, 32, 45, 97})
    extra = [b"\xc3\xa9", b"\xe6\x97\xa5", b"\xff", b"\xc3", b"\x00", b"A", b"_", b"\xce\xb2", b"\xa9", b"\xf0\x9f\x98\x80"]
    lines = []
    for _ in range(n):
        ln = b""
        for _ in range(rng.choice([0, 1, 2, 3, 3, 4, 5, 6, 8])):
            if rng.random() < 0.15:
                ln += rng.choice(extra)
            else:
                ln += bytes([rng.choice(al)])
        lines.append(ln)
    return lines


# ----------------------------------------------------------------------------- checks

def hir_feature_stats(ctx, hv, stats):
    """count HIR node kinds of a parsed HIR value"""
    v = L(hv)
    if not v:
        return
    t = v[0]
    stats[t] = stats.get(t, 0) + 1
    if t == 5:
        hir_feature_stats(ctx, v[4], stats)
    elif t == 6:
        hir_feature_stats(ctx, v[1], stats)
    elif t in (7, 8):
        for x in L(v[1]):
            hir_feature_stats(ctx, x, stats)


def sem_matches(mv):
    """model 1103 output for one line -> set of (i, j)"""
    res = set()
    for p in L(mv):
        p = L(p)
        for j in L(p[1]):
            res.add((p[0], j))
    return res


def check_line_semantics(ctx, what, replay, sem, is_match, find, shortest, allm):
    """real regex results on one haystack against the Coq semantics' match set"""
    ok = True
    if is_match != bool(sem):
        ctx.violation("%s: is_match=%s but the HIR semantics has %d matches" % (what, is_match, len(sem)), replay)
        ok = False
    if find is not None:
        if tuple(find) not in sem:
            ctx.violation("%s: find returned %s which is not a match of the HIR semantics" % (what, find), replay)
            ok = False
        elif sem and find[0] != min(i for i, _ in sem):
            ctx.violation("%s: find returned %s but the leftmost match starts at %d" % (what, find, min(i for i, _ in sem)),
                          replay)
            ok = False
    elif sem:
        ok = False
    if shortest is not None and shortest not in {j for _, j in sem}:
        ctx.violation("%s: shortest_match end %s is no match end of the HIR semantics" % (what, shortest), replay)
        ok = False
    for m in allm:
        if tuple(m) not in sem:
            ctx.violation("%s: find_iter produced %s which is not a match of the HIR semantics" % (what, m), replay)
            ok = False
    return ok


def strip_crlf_two_pass(hirs, bans):
    """model pass \\r, rebuild through regex-syntax (harness 1109), model pass \\n.
    returns per HIR: (ban_result, strip_result) as parsed values; strip_result = [0, hir] or [1, kind, byte]"""
    o1 = vlib.model(1107, [vlist([h, "0", "13", str(b)]) for h, b in zip(hirs, bans)])
    res = [None] * len(hirs)
    todo, todo_idx = [], []
    for i, o in enumerate(o1):
        if o.startswith(("MISSING", "STACK", "PARSEFAIL")):
            res[i] = (None, None)
            continue
        a = L(parse_val(o))
        st = L(a[0])
        if st[0] == 0:
            todo.append(unparse(st[1]))
            todo_idx.append(i)
        res[i] = (L(a[1]), st)
    normed = vlib.code(1109, todo)
    ok_idx = [i for i, n_ in zip(todo_idx, normed) if not n_.startswith(("PANIC", "MISSING", "PARSEFAIL"))]
    o2 = vlib.model(1107, [vlist([n_, "0", "10", "0"]) for n_ in normed if not n_.startswith(("PANIC", "MISSING", "PARSEFAIL"))])
    for i, o in zip(ok_idx, o2):
        if o.startswith(("MISSING", "STACK", "PARSEFAIL")):
            res[i] = (res[i][0], None)
        else:
            res[i] = (res[i][0], L(L(parse_val(o))[0]))
    return res


def model_build(ctx, opts, translated, m_in):
    """the builder model per case; CRLF cases are driven pass by pass with regex-syntax's rebuild in between
    (Model/RegexBuild.v strip_from_match's [norm])"""
    out = vlib.model(1101, m_in)
    ci = [k for k, o in enumerate(opts) if o["crlf"]]
    if not ci:
        return out
    two = strip_crlf_two_pass([translated[k] for k in ci], [o["ban"] if (o := opts[k])["ban"] is not None else 0 for k in ci])
    wrap_in, wrap_idx = [], []
    for k, (ban, st) in zip(ci, two):
        if st is None:
            out[k] = "MISSING"
        elif opts[k]["ban"] is not None and ban and ban[0] == 1:
            out[k] = unparse(ban)
        elif st[0] == 1:
            out[k] = unparse(st)
        else:
            o2 = dict(opts[k], ban=None)
            wrap_in.append(vlist([opts_val(o2), unparse(st[1])]))
            wrap_idx.append(k)
    for k, o in zip(wrap_idx, vlib.model(1101, wrap_in)):
        out[k] = o
    return out


def run_builder_cases(ctx, cases, stats):
    """cases: list of dict(patterns=[str], opts=dict, lines=[bytes])"""
    rng = ctx.rng
    lines1 = [vlist([vlist([vbytes(p) for p in c["patterns"]]), opts_val(c["opts"])]) for c in cases]
    code = vlib.code(1101, lines1)
    # --- A: builder model on the translated HIR
    m_in, m_idx = [], []
    parsed = []
    for i, o in enumerate(code):
        if o in ("PANIC", "MISSING") or o.startswith("PARSEFAIL"):
            ctx.violation("harness %s on builder case" % o, dict(kind=1101, case=repr(cases[i]), line=lines1[i]))
            parsed.append(None)
            continue
        v = parse_val(o)
        parsed.append(v)
        tr = L(v[0])
        if tr:
            m_in.append(vlist([opts_val(cases[i]["opts"]), unparse(tr[0])]))
            m_idx.append(i)
    mo = model_build(ctx, [cases[i]["opts"] for i in m_idx], [unparse(L(parsed[i][0])[0]) for i in m_idx], m_in)
    # --- A': the fixed-strings shortcut (Config::is_fixed_strings): taken iff the model says so, and then the final
    #         HIR is the (wrapped) alternation of the literals
    fx_idx = [i for i, v in enumerate(parsed) if v is not None]
    fx_out = vlib.model(1111, [vlist([opts_val(cases[i]["opts"]),
                               vlist([vbytes(p) for p in cases[i]["patterns"]])]) for i in fx_idx])
    fx_cmp, fx_cmp_idx = [], []
    for i, o in zip(fx_idx, fx_out):
        if o.startswith(("MISSING", "STACK", "PARSEFAIL")):
            continue
        fv = L(parse_val(o))
        verdict = L(parsed[i][1])
        took = (not L(parsed[i][0])) and verdict[0] == 0
        rep = dict(kind=1111, patterns=cases[i]["patterns"], opts=cases[i]["opts"], model=o[:200], code=unparse(parsed[i][1])[:500])
        if bool(fv[0]) != took and verdict[0] != 2:
            ctx.violation("fixed-strings shortcut: model is_fixed_strings=%s but the code %s it (verdict %s) "
                          "(fixed_strings_shortcut_sound no longer describes the code)"
                          % (bool(fv[0]), "took" if took else "did not take", verdict[:3]), rep, nfi=True)
        elif fv[0] and took:
            stats["fixed_shortcut"] = stats.get("fixed_shortcut", 0) + 1
            fx_cmp.append(vlist([unparse(fv[1]), unparse(verdict[1])]))
            fx_cmp_idx.append(i)
    for i, o in zip(fx_cmp_idx, vlib.code(1106, fx_cmp)):
        r = L(parse_val(o)) if not o.startswith(("PANIC", "MISSING", "PARSEFAIL")) else [0, 0]
        if r[1] == 1 and r[0] != 1:
            ctx.violation("fixed-strings shortcut: final HIR is not the alternation of the literal patterns",
                          dict(kind=1111, patterns=cases[i]["patterns"], opts=cases[i]["opts"]), nfi=True)
    cmp_in, cmp_idx = [], []
    for k, i in enumerate(m_idx):
        c = cases[i]
        verdict = L(parsed[i][1])
        stats["translated"] = stats.get("translated", 0) + 1
        if mo[k].startswith(("MISSING", "STACK", "PARSEFAIL")):
            ctx.violation("model %s on builder case" % mo[k], dict(kind=1101, case=repr(c), line=m_in[k]), nfi=True)
            continue
        mv = L(parse_val(mo[k]))
        rep = dict(kind=1101, patterns=c["patterns"], opts=c["opts"], model=mo[k], code=unparse(parsed[i][1])[:2000])
        if verdict[0] == 2:
            # regex-automata/regex-syntax build error after translation (size limits): model must not be asked
            stats["build_error_after_translation"] = stats.get("build_error_after_translation", 0) + 1
            continue
        if verdict[0] == 1:
            stats["rejected_%d" % verdict[1]] = stats.get("rejected_%d" % verdict[1], 0) + 1
            if mv[0] != 1 or list(mv[1:3]) != list(verdict[1:3]):
                ctx.violation("builder verdict: code rejects (kind %s byte %s), model says %s (theorems "
                              "strip_rejects_not_alters/strip_error_witness no longer describe the code)"
                              % (verdict[1], verdict[2], mo[k][:80]), rep, nfi=True)
            continue
        if mv[0] != 0:
            ctx.violation("builder verdict: code accepts, model rejects %s" % mo[k][:80], rep, nfi=True)
            continue
        stats["accepted"] = stats.get("accepted", 0) + 1
        if L(mv[2]) != L(verdict[2]):
            ctx.violation("advertised line terminator differs: model %s code %s (terminator_withheld_with_anchors)"
                          % (L(mv[2]), L(verdict[2])), rep, nfi=True)
        cmp_in.append(vlist([unparse(mv[1]), unparse(verdict[1])]))
        cmp_idx.append(i)
    co = vlib.code(1106, cmp_in)
    for k, i in enumerate(cmp_idx):
        r = L(parse_val(co[k])) if not co[k].startswith(("PANIC", "MISSING", "PARSEFAIL")) else [0, 0]
        rep = dict(kind=1106, patterns=cases[i]["patterns"], opts=cases[i]["opts"], pair=cmp_in[k][:3000])
        if r[1] != 1:
            stats["roundtrip_failed"] = stats.get("roundtrip_failed", 0) + 1
            continue
        if r[0] != 1:
            ctx.violation("final HIR differs: the model's strip/wrap result rebuilt through regex-syntax's constructors "
                          "is not the code's final HIR (strip_sound/strip_rejects_not_alters no longer describe the code)",
                          rep, nfi=True)
    # --- B: passes on the code's final HIR;  C: semantics on lines
    p_in, p_idx, s_in, s_code_in = [], [], [], []
    for i, v in enumerate(parsed):
        if v is None:
            continue
        verdict = L(v[1])
        if verdict[0] != 0:
            continue
        c = cases[i]
        hir_feature_stats(ctx, verdict[1], stats.setdefault("hir_nodes", {}))
        p_in.append(vlist([opts_val(c["opts"]), str(verdict[8]), unparse(verdict[1])]))
        p_idx.append(i)
        buf = b"".join(l + term_bytes(c["opts"]) for l in c["lines"])
        s_in.append(vlist([unparse(verdict[1]), vlist([vbytes(l) for l in c["lines"]] + [vbytes(buf)])]))
        s_code_in.append(vlist([vlist([vbytes(p) for p in c["patterns"]]), opts_val(c["opts"]),
                                vlist([vbytes(l) for l in c["lines"]])]))
    po = vlib.model(1102, p_in)
    so = vlib.model(1103, s_in)
    sc = vlib.code(1103, s_code_in)
    for k, i in enumerate(p_idx):
        c = cases[i]
        verdict = L(parsed[i][1])
        rep = dict(kind=1102, patterns=c["patterns"], opts=c["opts"], final=unparse(verdict[1])[:3000])
        if po[k].startswith(("MISSING", "STACK", "PARSEFAIL")):
            ctx.violation("model %s on passes case" % po[k], rep, nfi=True)
            continue
        pv = L(parse_val(po[k]))
        code_nmb = bytes(L(verdict[3]))
        model_nmb = bytes(L(pv[0]))
        nontrivial = False
        if code_nmb != model_nmb:
            diff = [b for b in range(256) if code_nmb[b] != model_nmb[b]]
            ctx.violation("non_matching_bytes differs at bytes %s (non_matching_sound no longer describes the code)"
                          % diff[:10], dict(rep, model=list(model_nmb), code=list(code_nmb)), nfi=True)
        for name, a, b in (("Extractor::extract (tagged seq)", pv[1], verdict[4]),
                           ("extract_untagged", pv[2], verdict[5]),
                           ("InnerLiterals (fast line literals)", pv[3], verdict[6])):
            if unparse(a) != unparse(b):
                ctx.violation("%s differs: model %s code %s (inner_literals_sound no longer describes the code)"
                              % (name, unparse(a)[:300], unparse(b)[:300]), rep, nfi=True)
        if pv[4] != verdict[7]:
            ctx.violation("fast line regex presence differs: model %s code %s" % (pv[4], verdict[7]), rep, nfi=True)
        if L(pv[5]) != L(verdict[2]):
            ctx.violation("advertised terminator (on the final HIR) differs: model %s code %s" % (L(pv[5]), L(verdict[2])), rep, nfi=True)
        if L(verdict[6]):
            stats["fast_regex"] = stats.get("fast_regex", 0) + 1
            nontrivial = True
        if L(verdict[4])[0] != [] and L(L(verdict[4])[0]):
            stats["finite_raw_seq"] = stats.get("finite_raw_seq", 0) + 1
        if not L(verdict[4])[1]:
            stats["nonprefix_seq"] = stats.get("nonprefix_seq", 0) + 1
        # --- C: semantics + property oracles
        rep = dict(kind=1103, patterns=c["patterns"], opts=c["opts"], lines=[l.hex() for l in c["lines"]],
                   final=unparse(verdict[1])[:3000])
        if so[k].startswith(("MISSING", "STACK", "PARSEFAIL")) or sc[k].startswith(("MISSING", "PANIC", "PARSEFAIL")):
            ctx.violation("semantics run failed: model %s code %s" % (so[k][:30], sc[k][:30]), rep, nfi=True)
            continue
        smv = L(parse_val(so[k]))
        scv = L(parse_val(sc[k]))
        if not scv:
            continue
        per, bufcand, buf, bufm = L(scv[0]), L(scv[1]), bytes(L(scv[2])), [L(x) for x in L(scv[3])]
        adv = L(verdict[2])
        tset = set()
        if adv:
            tset = {13, 10} if adv[0] == 1 else {adv[1]}
        nm = {b for b in range(256) if code_nmb[b]}
        fl = [bytes(L(L(x)[0])) for x in L(L(verdict[6])[0])] if L(verdict[6]) else []
        any_match = False
        if fl and tset and any(x in tset for l in fl for x in l):
            ctx.violation("a fast-line literal contains the advertised line terminator: %r (hypothesis of C01 "
                          "c01_lines_reported_iff_content_matches)" % fl, rep)

        def find_lit(hay):
            """Model/CoreLinePaths.v find_lit: leftmost occurrence, first literal in list order"""
            for q in range(len(hay) + 1):
                for l in fl:
                    if hay.startswith(l, q):
                        return q + len(l)
            return None
        haystacks = list(c["lines"]) + [buf]
        for li, hay in enumerate(haystacks):
            sem = sem_matches(smv[li])
            any_match = any_match or bool(sem)
            if li < len(c["lines"]):
                pl = L(per[li])
                find = L(L(pl[1])[0]) if L(pl[1]) else None
                shortest = L(pl[2])[0] if L(pl[2]) else None
                allm = [L(x) for x in L(pl[3])]
                check_line_semantics(ctx, "line %d" % li, rep, sem, bool(pl[0]), find, shortest, allm)
                cand = L(pl[4])
                if fl:
                    e = find_lit(hay)
                    stats["find_lit_compared"] = stats.get("find_lit_compared", 0) + 1
                    if (cand[1] if cand else None) != e or (cand and cand[0] != 1):
                        ctx.violation("find_candidate_line answers %s but the literal search model (find_lit) gives %s on %r "
                                      "(Model/CoreLinePaths.v regex_find_candidate no longer describes the code)"
                                      % (cand, e, hay), rep, nfi=True)
                if sem and not cand:
                    ctx.violation("find_candidate_line returns None on a line that has a match (line %d)" % li, rep)
            else:
                check_line_semantics(ctx, "buffer", rep, sem, bool(sem) if not bufm else True,
                                     bufm[0] if bufm else None, None, bufm)
            # C11-1 / C11-3 on every match of the semantics (a superset of what the engine reports)
            for (a, b) in sem:
                seg = hay[a:b]
                if tset and any(x in tset for x in seg):
                    ctx.violation("a match contains the advertised line terminator: %s in %r (strip_sound)" % ((a, b), hay), rep)
                    break
                if any(x in nm for x in seg):
                    ctx.violation("a match contains a byte declared non-matching: %s in %r (non_matching_sound)" % ((a, b), hay), rep)
                    break
                if fl and not any(l in seg for l in fl):
                    ctx.violation("a match %r contains none of the fast-line literals %r (inner_literals_sound)" % (seg, fl), rep)
                    break
        # C11-4 on the buffer
        if adv and c["lines"]:
            tb = term_bytes(c["opts"])
            starts, pos = [], 0
            for l in c["lines"]:
                starts.append(pos)
                pos += len(l) + len(tb)
            semb = sem_matches(smv[len(c["lines"])])

            def content_match(kk):
                return any(starts[kk] <= a and b <= starts[kk] + len(c["lines"][kk]) for a, b in semb)
            if not bufcand:
                limit = len(starts)
            else:
                p = bufcand[1]
                q = p - 1 if bufcand[0] == 1 and p > 0 else p
                limit = len(starts) if p >= len(buf) and bufcand[0] == 0 else max(kk for kk in range(len(starts)) if starts[kk] <= q)
            for kk in range(limit):
                if content_match(kk):
                    ctx.violation("find_candidate_line passes over line %d which contains a match (answer %s) "
                                  "(inner_literals_sound / candidate_never_skips)" % (kk, bufcand), dict(rep, buffer=buf.hex()))
                    break
            # the same promise read line by line: a line that matches on its own (its content taken as the haystack,
            # which is what the slow line path tests) must not be passed over either when the matcher advertises the
            # terminator.  Only for "\n"-based terminators (a NUL-advertising matcher is never given the fast path) and
            # for lines that really are lines (no "\n" / terminator byte inside).
            if (adv == [0, 10] or adv[0] == 1) and not any(10 in l or (adv[0] == 0 and adv[1] in l) for l in c["lines"]):
                stats["per_line_candidate_checks"] = stats.get("per_line_candidate_checks", 0) + 1
                for kk in range(limit):
                    if sem_matches(smv[kk]):
                        ctx.violation("the matcher advertises its line terminator, yet find_candidate_line passes over line %d "
                                      "(%r), which matches on its own (answer %s on the buffer) "
                                      "(terminator_withheld_with_anchors / line-mode promise)"
                                      % (kk, c["lines"][kk], bufcand), dict(rep, buffer=buf.hex()))
                        break
            stats["cand_" + ("none" if not bufcand else ("confirmed" if bufcand[0] == 0 else "candidate"))] = \
                stats.get("cand_" + ("none" if not bufcand else ("confirmed" if bufcand[0] == 0 else "candidate")), 0) + 1
        ctx.note_case(lines1[i] + repr(c["lines"]), any_match and (nontrivial or bool(tset)))
        if any_match and nontrivial:
            ctx.sample(dict(patterns=c["patterns"], opts={k2: v2 for k2, v2 in c["opts"].items() if v2},
                            literals=unparse(verdict[6])[:200], lines=[repr(l) for l in c["lines"][:3]]))


# ----------------------------------------------------------------------------- arbitrary HIR values

def gen_hir(rng, depth):
    k = rng.randint(0, 13)
    if depth <= 0:
        k = rng.randint(0, 6)
    if k == 0:
        return "(0)"
    if k <= 2:
        return vlist(["1", vbytes(bytes(rng.choice([97, 98, 99, 10, 13, 0, 32, 0xc3, 0xa9, 120, 0xff]) for _ in range(rng.randint(1, 4))))])
    if k == 3:
        rs = sorted(rng.sample([0, 9, 10, 11, 13, 14, 32, 97, 98, 99, 105, 110, 127, 128, 200, 255], 2 * rng.randint(0, 3)))
        pairs = [(rs[i], rs[i + 1] if rng.random() < 0.7 else rs[i]) for i in range(0, len(rs), 2)]
        return vlist(["2", vlist([vlist([str(a), str(b)]) for a, b in pairs])])
    if k == 4:
        rs = sorted(rng.sample([0, 9, 10, 11, 13, 14, 97, 99, 107, 127, 128, 233, 0x7ff, 0x800, 0xd7ff, 0xe000, 0xffff,
                                0x10000, 0x10ffff, 0x3b1, 0x3c9, 0x65e5], 2 * rng.randint(0, 3)))
        pairs = [(rs[i], rs[i + 1] if rng.random() < 0.7 else rs[i]) for i in range(0, len(rs), 2)]
        return vlist(["3", vlist([vlist([str(a), str(b)]) for a, b in pairs])])
    if k <= 6:
        return vlist(["4", str(rng.randint(0, 17))])
    if k <= 8:
        mn = rng.choice([0, 0, 1, 1, 2, 3, 11])
        mx = rng.choice([None, None, mn, mn + 1, mn + 2, 1])
        if mx is not None and mx < mn:
            mx = mn
        return vlist(["5", str(mn), vopt(None if mx is None else str(mx)), vbool(rng.random() < 0.7), gen_hir(rng, depth - 1)])
    if k == 9:
        return vlist(["6", gen_hir(rng, depth - 1)])
    subs = [gen_hir(rng, depth - 1) for _ in range(rng.randint(2, 4))]
    return vlist(["7" if k <= 11 else "8", vlist(subs)])


def run_hir_cases(ctx, n, stats):
    rng = ctx.rng
    cases = []
    for _ in range(n):
        h = gen_hir(rng, rng.choice([1, 2, 2, 3]))
        crlf = rng.random() < 0.3
        byte = rng.choice([10, 10, 0, 97, 13, 200])
        ban = rng.choice([0, 97, 10])
        lines = gen_lines(rng, ["abcx"], dict(crlf=crlf, lt=byte if byte < 128 else 10), 4)
        cases.append((h, crlf, byte, ban, lines))
    cin = [vlist([h, vbool(c), str(b), str(bn), vlist([vbytes(l) for l in ls])]) for h, c, b, bn, ls in cases]
    co = vlib.code(1107, cin)
    m1, m2, m3, idx = [], [], [], []
    for i, o in enumerate(co):
        if o in ("PANIC", "MISSING") or o.startswith("PARSEFAIL"):
            ctx.violation("harness %s on HIR case" % o, dict(kind=1107, line=cin[i]))
            continue
        v = L(parse_val(o))
        h, crlf, byte, ban, lines = cases[i]
        nh = unparse(v[0])
        m1.append(vlist([nh, vbool(crlf), str(byte), str(ban)]))
        m2.append(vlist([opts_val(dict(lt=10, ban=None, crlf=False, unicode=True, word=False, whole=False, icase=False,
                                       smart=False, fixed=False, multi=True, dotall=False)), "0", nh]))
        m3.append(vlist([nh, vlist([vbytes(l) for l in lines])]))
        idx.append((i, v))
    o1 = vlib.model(1107, m1)
    o2 = vlib.model(1102, m2)
    o3 = vlib.model(1103, m3)
    cmp_in, cmp_rep = [], []
    crlf_ids = [(i, v) for (i, v) in idx if cases[i][1]]
    crlf_fix = {}
    for (i, v), (_, st) in zip(crlf_ids, strip_crlf_two_pass([unparse(v[0]) for i, v in crlf_ids], [0] * len(crlf_ids))):
        crlf_fix[i] = st
    for k, (i, v) in enumerate(idx):
        rep = dict(kind=1107, case=cin[i], normalised=unparse(v[0])[:3000])
        h, crlf, byte, ban, lines = cases[i]
        if any(x.startswith(("MISSING", "STACK", "PARSEFAIL")) for x in (o1[k], o2[k], o3[k])):
            ctx.violation("model failed on HIR case: %s %s %s" % (o1[k][:20], o2[k][:20], o3[k][:20]), rep, nfi=True)
            continue
        a = L(parse_val(o1[k]))
        ms, mb = L(a[0]), L(a[1])
        cs, cb = L(v[1]), L(v[2])
        hir_feature_stats(ctx, v[0], stats.setdefault("hir_nodes_arbitrary", {}))
        if list(mb) != list(cb):
            ctx.violation("ban::check differs: model %s code %s" % (mb, cb), rep, nfi=True)
        if crlf_fix.get(i) is not None:
            ms = crlf_fix[i]
        if ms[0] != cs[0] or (ms[0] == 1 and list(ms) != list(cs)):
            ctx.violation("strip_from_match verdict differs: model %s code %s" % (unparse(ms)[:100], unparse(cs)[:100]), rep, nfi=True)
        elif ms[0] == 0:
            cmp_in.append(vlist([unparse(ms[1]), unparse(cs[1])]))
            cmp_rep.append(rep)
            stats["strip_ok"] = stats.get("strip_ok", 0) + 1
        else:
            stats["strip_err_%d" % ms[1]] = stats.get("strip_err_%d" % ms[1], 0) + 1
        pv = L(parse_val(o2[k]))
        if bytes(L(pv[0])) != bytes(L(v[3])):
            ctx.violation("non_matching_bytes differs on an arbitrary HIR", dict(rep, model=unparse(pv[0]), code=unparse(v[3])), nfi=True)
        if unparse(pv[1]) != unparse(v[4]):
            ctx.violation("Extractor::extract differs on an arbitrary HIR: model %s code %s" % (unparse(pv[1])[:300], unparse(v[4])[:300]), rep, nfi=True)
        if unparse(pv[2]) != unparse(v[5]):
            ctx.violation("extract_untagged differs on an arbitrary HIR: model %s code %s" % (unparse(pv[2])[:300], unparse(v[5])[:300]), rep, nfi=True)
        raw = L(v[4])
        key = "rawseq_" + ("inf" if not L(raw[0]) else "finite") + ("" if raw[1] else "_nonprefix")
        stats[key] = stats.get(key, 0) + 1
        if L(v[5]):
            stats["untagged_finite"] = stats.get("untagged_finite", 0) + 1
        # semantics of arbitrary HIRs against a meta regex built from them
        mm = L(v[6])
        lits = [bytes(L(L(x)[0])) for x in L(L(v[5])[0])] if L(v[5]) else None
        rawl = [(bytes(L(L(x)[0])), L(x)[1]) for x in L(L(raw[0])[0])] if L(raw[0]) else None
        nmb = bytes(L(v[3]))
        smv = L(parse_val(o3[k]))
        h, crlf, byte, ban, lines = cases[i]
        nontriv = False
        for li, hay in enumerate(lines):
            sem = sem_matches(smv[li])
            if mm:
                allm = [L(x) for x in L(L(mm[0])[li])]
                check_line_semantics(ctx, "arbitrary HIR line %d" % li, dict(rep, line=hay.hex()), sem, bool(allm),
                                     allm[0] if allm else None, None, allm)
            for (x, y) in sem:
                seg = hay[x:y]
                nontriv = True
                if any(nmb[b] for b in seg):
                    ctx.violation("arbitrary HIR: a match contains a byte declared non-matching (non_matching_sound)", dict(rep, line=hay.hex()))
                    break
                if lits is not None and lits and not any(l in seg for l in lits):
                    ctx.violation("arbitrary HIR: a match %r contains none of the extracted literals %r (inner_literals_sound)"
                                  % (seg, lits), dict(rep, line=hay.hex()))
                    break
                if rawl is not None and raw[1] and not any((seg == l if e else seg.startswith(l)) for l, e in rawl):
                    ctx.violation("arbitrary HIR: a match %r is not covered by the prefix sequence %r (tseq invariant)"
                                  % (seg, rawl), dict(rep, line=hay.hex()))
                    break
        ctx.note_case(cin[i], nontriv)
    ro = vlib.code(1106, cmp_in)
    for k, o in enumerate(ro):
        r = L(parse_val(o)) if not o.startswith(("PANIC", "MISSING", "PARSEFAIL")) else [0, 0]
        if r[1] == 1 and r[0] != 1:
            ctx.violation("strip_from_match result differs on an arbitrary HIR (after rebuilding the model's result through "
                          "regex-syntax's constructors)", dict(cmp_rep[k], pair=cmp_in[k][:3000]), nfi=True)
        elif r[1] != 1:
            stats["roundtrip_failed_arbitrary"] = stats.get("roundtrip_failed_arbitrary", 0) + 1


def run_look_cases(ctx, n, stats):
    rng = ctx.rng
    pieces = [b"a", b"_", b" ", b"\n", b"\r", b"\r\n", b"\xc3\xa9", b"\xce\xb2", b"\xe6\x97\xa5", b"\xf0\x9f\x98\x80", b"\xff",
              b"\xc3", b"\xa9", b"\xe6\x97", b"\xf0\x9f", b"\xed\xa0\x80", b"\xc0\x80", b"\xf4\x90\x80\x80", b"-", b"9", b"\xe2\x80\x8d",
              b"\xcc\x81", b"\xef\xbc\xa1", b"\xf5", b"\xe0\x80\x80", b"\xf0\x80\x80\x80"]
    cases = []
    for _ in range(n):
        hay = b"".join(rng.choice(pieces) for _ in range(rng.randint(0, 6)))
        cases.append((rng.randint(0, 17), hay))
    lines = [vlist([str(k), vbytes(h)]) for k, h in cases]
    mo = vlib.model(1105, lines)
    co = vlib.code(1105, lines)
    for (k, h), m, c, line in zip(cases, mo, co, lines):
        ctx.note_case(line, len(h) > 1)
        stats["look_" + LOOK_NAMES[k]] = stats.get("look_" + LOOK_NAMES[k], 0) + 1
        if m != c:
            ctx.violation("look-around %s: Spec/RegexSem.v look_matches differs from regex-automata's LookMatcher on %r: "
                          "model %s code %s" % (LOOK_NAMES[k], h, m, c), dict(kind=1105, line=line), nfi=True)


def run_tables(ctx):
    rng = ctx.rng
    cps = list(range(0, 0x300)) + [rng.randint(0, 0x10ffff) for _ in range(3000)] + \
        [0xd7ff, 0xd800, 0xdfff, 0xe000, 0x10ffff, 0x2fa1d, 0x30000, 0x3134a, 0xe0100, 0xe01ef]
    line = vlist([vlist([str(c) for c in cps]), vlist([str(b) for b in range(256)])])
    m = vlib.model(1190, [line])
    c = vlib.code(1190, [line])
    if m != c:
        ctx.violation("PERL_WORD / BYTE_FREQUENCIES tables of Model/RegexTables.v differ from regex-syntax (regenerate with "
                      "tools/gen_regex_tables.py)", dict(kind=1190), nfi=True)


CORPUS = [
    (["a\\b"], {}), (["\\w+foo\\w+"], {}), (["foo|bar"], {}), (["[a\\n]"], {}), (["\\n"], {}), (["a\\nb"], {}),
    (["[^a]"], {}), ([".*"], {}), (["\\s+"], {}), (["^$"], {}), (["\\Afoo"], {}), (["foo\\z"], {}), (["(?s:.)"], {}),
    (["\\r"], dict(crlf=True)), (["[^x]"], dict(crlf=True)), (["a\\s"], dict(crlf=True)), (["$"], dict(crlf=True)),
    (["\\B"], dict(crlf=True)), (["foo"], dict(word=True)), (["foo"], dict(whole=True)), (["é+"], {}), (["(?-u:\\xFF)"], {}),
    (["\\x00"], dict(ban=0)), (["[\\x00]"], dict(ban=0)), (["a\\x00?"], dict(ban=0)), (["abc"], dict(lt=0)),
    (["[^a]"], dict(lt=0)), (["\\w{3}bar"], {}), (["(foo|bar)\\s+baz"], {}), (["a{2,}b"], {}), (["(?i)foobar\\d"], {}),
    (["\\pL{2}quux"], {}), (["a", "b\\d"], {}), (["x*yz"], {}), (["(?:ab){11}"], {}), (["[a-k]z"], {}), (["[a-j]zz"], {}),
    (["Z|[\\r\\n]"], dict(crlf=True, word=True)), (["ZZ|[\\r\\n]"], dict(crlf=True)), (["Z|\\n"], {}), (["ZZ|\\n"], {}),
    (["a\rb"], dict(crlf=True)), (["a\rb"], dict(crlf=True, fixed=True)), (["a\nb"], {}), (["a\rb"], {}), (["a\x00b"], dict(lt=0, ban=None)),
    (["foo(\\w+bar)baz"], dict(word=True)), (["\\s+([A-Z]foo(\\d+bar)baz|Moriarty)\\s+"], {}),
    (["\\s+((?-u:\\xFF)herlock|[A-Z]atso[a-z]|Moriarty)\\s+"], dict(ban=None)), (["\\A[0-9]+"], {}),
    (["foo\\z"], dict(whole=True)), (["(?-m:foo$)"], dict(whole=True)), (["\\Afoo"], dict(word=True)),
    (["(?:é\\.|x|K)K"], dict(crlf=True, unicode=False, dotall=True)), (["(?:ab|cd)ef"], {}), (["a(?:bc|de)(?:f|gh)"], {}),
    (["(?:ab|cd)(?:ef|g)\\b"], {}), (["(?:ab|c\\d)ef"], {}),
    (["foo", "b\r"], dict(crlf=True)), (["a.b"], dict(fixed=True)), (["ab", "cd"], {}),
    (["foo\\w*?bar|quuux"], {}), (["\\bsherlock\\b"], {}), (["a|"], {}), (["(a|ab)(c|bcd)(d*)"], {}),
]


def default_opts(**kw):
    o = dict(lt=10, ban=0, crlf=False, unicode=True, word=False, whole=False, icase=False, smart=False, fixed=False,
             multi=True, dotall=False)
    o.update(kw)
    return o


def run(ctx):
    rng = ctx.rng
    stats = {}
    ctx.cov["rule"] = ("builder cases: pattern from the grammar / repository tests x option set; non-trivial = the final HIR "
                       "has a match on one of the generated lines and either a terminator is advertised or a fast line "
                       "regex exists; arbitrary-HIR cases: non-trivial = some generated line has a match; distinct by text")
    run_tables(ctx)
    run_look_cases(ctx, ctx.count(1500), stats)
    cases = []
    for pats, kw in CORPUS:
        o = default_opts(**kw)
        cases.append(dict(patterns=pats, opts=o, lines=gen_lines(rng, pats, o, 6) + [b"foo", b"a b", b"xfoobar1 baz", b" fooxbarbaz ", b" Qfoo1barbaz ",
                                                                                     b" \xffherlock ", b"123"]))
    scraped = scrape_repo_patterns()
    stats["scraped_patterns"] = len(scraped)
    take = scraped if not ctx.quick() else rng.sample(scraped, min(len(scraped), 500))
    for p in take:
        o = default_opts() if rng.random() < 0.5 else gen_options(rng)
        cases.append(dict(patterns=[p], opts=o, lines=gen_lines(rng, [p], o, 5)))
    for _ in range(ctx.count(1200)):
        np = 1 if rng.random() < 0.85 else rng.randint(2, 3)
        pats = [gen_pattern(rng) for _ in range(np)]
        o = gen_options(rng)
        cases.append(dict(patterns=pats, opts=o, lines=gen_lines(rng, pats, o, 6)))
    for _ in range(ctx.count(120)):
        pat, lines = gen_nested_literal(rng)
        cases.append(dict(patterns=[pat], opts=default_opts(word=rng.random() < 0.5, icase=rng.random() < 0.1), lines=lines))
    for _ in range(ctx.count(80)):
        cases.append(gen_nonutf8_case(rng))
    stats["nested_literal_cases"] = ctx.count(120)
    stats["nonutf8_literal_cases"] = ctx.count(80)
    for _ in range(ctx.count(150)):
        cases.append(gen_anchor_case(rng))
    stats["haystack_anchor_cases"] = ctx.count(150)
    for _ in range(ctx.count(250)):
        cases.append(gen_literal_case(rng))
    stats["literal_control_cases"] = ctx.count(250)
    for _ in range(ctx.count(120)):
        pat, lines = gen_counted(rng)
        o = default_opts(word=rng.random() < 0.3, crlf=rng.random() < 0.15, icase=rng.random() < 0.1)
        cases.append(dict(patterns=[pat], opts=o, lines=lines))
        stats["counted_repetition_cases"] = stats.get("counted_repetition_cases", 0) + 1
    run_builder_cases(ctx, cases, stats)
    run_hir_cases(ctx, ctx.count(1500), stats)
    ctx.cov["stats"] = {str(k): v for k, v in sorted(stats.items(), key=lambda kv: str(kv[0]))}
    ctx.assumptions += [
        "regex-syntax's parser/translator and simplifying Hir constructors are outside the model (the model starts at the "
        "translated HIR dumped by the hook; its stripped result is rebuilt through the same constructors before comparison)",
        "regex-automata is assumed to implement Spec/RegexSem.v; every run compares find/is_match/find_iter/LookMatcher with "
        "the extracted semantics on the generated lines",
        "Regex::is_accelerated() is an input of the InnerLiterals::new model (read through a hook)",
    ]


def replay(ctx, data):
    r = data["replay"]
    stats = {}
    if "patterns" in r and "opts" in r:
        lines = [bytes.fromhex(x) for x in r.get("lines", [])] or [b"a", b"foo"]
        run_builder_cases(ctx, [dict(patterns=r["patterns"], opts=r["opts"], lines=lines)], stats)
    elif r.get("kind") == 1105:
        m = vlib.model(1105, [r["line"]])
        c = vlib.code(1105, [r["line"]])
        print("model", m, "code", c)
        if m != c:
            ctx.violation("replayed look case still differs", r, nfi=True)
    else:
        print("replay of this kind is not supported; case:", r.get("case"))
