"""C08 — multi-threaded search output is a permutation of the single-threaded per-file blocks."""
import json
import os
import re

import vlib
from vlib import vbytes, vlist, vopt, vbool, parse_val
from props import cli_common as K

NEED_RG = True
MANIFEST = dict(
    text="Coq theorems about a model of search_parallel (per-file step = one atomic BufferWriter print of 'separator? ++ "
         "block'), search (printer-owned separator), files/files_parallel (single printing thread as a queue), with the "
         "thread count, driver choice, sort handling and separator ownership REGENERATED from hiargs.rs/main.rs: "
         "par_output_is_block_permutation_partial (every completion order: stdout = blocks in that order joined by the "
         "separator exactly between non-empty blocks; same multiset as -j1), exit_status_order_independent, "
         "exit_status_serial_eq_parallel, sort_forces_one_thread, sort_forces_serial_driver, sorted_output_equals_j1, "
         "separator_has_one_owner. Tie: rg -j1 vs -jN (N in 2..16) on generated trees in standard (heading / no heading / "
         "context), -c, -l, --json, --files modes under perturbed timing (files of very different sizes, a slow --pre on "
         "random files): outputs split into per-file blocks, compared as multisets + separator placement + status; the "
         "model replays the observed completion order and must reproduce the -jN bytes; --sort compared exactly; the "
         "real termcolor BufferWriter vs the model's rule at library level. PARTIAL: atomicity of a block print is "
         "termcolor's lock (trusted); absence of tearing under the OS scheduler is exercised, not proved.",
    note="known finding SeparatorTerminatorDiffers (--crlf/--null-data: separator line ends in the searcher's terminator "
         "with one thread, in \\n with several). Under a per-file error -j1 keeps the partial output and -jN drops the "
         "buffer: by construction, not checked (DESIGN §7 C08 scope note).",
    technique="Coq proof over generated decision expressions + executable model; CLI-level differential testing "
              "-j1/-jN with block grammar; library-level BufferWriter correspondence",
    design="§7 C08, §4.2")
KNOWN_SEP = "SeparatorTerminatorDiffers"
GEN_TARGETS = ["threads", "choose_driver", "walk_sorted_by_name", "sort_is_identity", "printer_owns_separator",
               "file_separator"]

MODES = ["noheading", "heading", "context", "context_heading", "count", "list", "json", "files", "passthru_nh",
         "after_only", "before_only", "c2a0"]
CONTEXT_NH = ("context", "after_only", "before_only", "c2a0")


# lines no glob parser accepts (unclosed class, unclosed alternation, reversed range, dangling escape).  rg's guide and
# gitignore(5): such a line is reported and skipped; the other lines of the file stay in force.
MALFORMED = ["broken[", "a{b", "[z-a]", "x\\"]


def add_partially_invalid_ignores(rng, root, dirs, files):
    """ignore files (.ignore, .rgignore, .gitignore inside a repository) below the root directory with malformed lines
    among valid rules that hide files which exist in that directory or below it.  Returns the hidden-file predicate's
    data: [(directory, [glob...])]."""
    made = []
    real = [d for d in dirs if d != "."]
    for d in real:
        if rng.random() >= 0.45:
            continue
        below = [f for f in files if f.startswith(d + "/")]
        if not below:
            continue
        kind = rng.choice([".ignore", ".rgignore", ".gitignore"])
        if kind == ".gitignore":
            os.makedirs(os.path.join(root, ".git"), exist_ok=True)
        rules = [os.path.basename(f) for f in rng.sample(below, min(len(below), rng.randint(1, 2)))]
        if rng.random() < 0.5:
            rules.append(rng.choice(["slow*", "bin*.txt", "*.log", "f1*"]))
        if d == "d0" and rng.random() < 0.4:
            rules.append(rng.choice(["sub", "sub/", "/sub"]))          # hides a directory: in force under `-g *.txt` too
        lines = list(rules)
        for b in rng.sample(MALFORMED, rng.randint(1, 2)):
            lines.insert(rng.randint(0, len(lines)), b)
        with open(os.path.join(root, d, kind), "w") as f:
            f.write("".join(l + "\n" for l in lines))
        os.chmod(os.path.join(root, d, kind), 0o644)
        made.append((d, rules))
    return made


def badglob_tree(root):
    """corner tree: a sub-directory whose ignore file has malformed lines among valid rules; the valid rules hide files in
    it and below it, and a same-named file elsewhere stays visible.  One directory per kind of ignore file."""
    os.makedirs(os.path.join(root, ".git"))
    for d, kind in (("sub", ".ignore"), ("rgi", ".rgignore"), ("giti", ".gitignore")):
        os.makedirs(os.path.join(root, d, "deep"))
        with open(os.path.join(root, d, kind), "w") as f:
            f.write("secret.txt\nbroken[\n*.log\na{b\n[z-a]\nx\\\n")
        for n in ("secret.txt", "visible.txt", "trace.log", "deep/secret.txt", "deep/keep.txt"):
            with open(os.path.join(root, d, n), "w") as f:
                f.write("a hit in %s/%s\n" % (d, n))
    os.makedirs(os.path.join(root, "other"))
    for n in ("other/secret.txt", "other/a.txt", "top.txt"):
        with open(os.path.join(root, n), "w") as f:
            f.write("a hit in %s\n" % n)
    for dp, ds, fs in os.walk(root):
        os.chmod(dp, 0o755)
        for x in fs:
            os.chmod(os.path.join(dp, x), 0o644)
    hidden = ["%s/%s" % (d, n) for d in ("sub", "rgi", "giti") for n in ("secret.txt", "trace.log", "deep/secret.txt")]
    shown = ["%s/%s" % (d, n) for d in ("sub", "rgi", "giti") for n in ("visible.txt", "deep/keep.txt")] + [
        "other/secret.txt", "other/a.txt", "top.txt"]
    return hidden, shown


def gen_tree(rng, root):
    files = []
    ndirs = rng.randint(1, 3)
    dirs = ["."] + ["d%d" % i for i in range(ndirs)] + ["d0/sub"]
    for d in dirs:
        os.makedirs(os.path.join(root, d), exist_ok=True)
        os.chmod(os.path.join(root, d), 0o755)
    nfiles = rng.randint(2, 12)
    for i in range(nfiles):
        d = rng.choice(dirs)
        slow = rng.random() < 0.3
        name = ("slow%d.txt" if slow else "f%d.txt") % i
        size = rng.choice([0, 3, 3, 10, 10, 200, 5000, 40000])
        p_hit = rng.choice([0.0, 0.0, 0.05, 0.3, 1.0])
        lines = []
        for j in range(size):
            if rng.random() < p_hit:
                lines.append("line %d has a hit in it" % j)
            else:
                lines.append("line %d is plain filler text" % j)
        path = os.path.normpath(os.path.join(d, name))
        with open(os.path.join(root, path), "w") as f:
            f.write("".join(l + "\n" for l in lines))
        os.chmod(os.path.join(root, path), 0o644)
        files.append(path)
    # files with NUL bytes (a match after the NUL): skipped when found by traversal, searched when named explicitly
    for d in dirs:
        if rng.random() < 0.6:
            name = os.path.normpath(os.path.join(d, "bin%d.txt" % len(files)))
            with open(os.path.join(root, name), "wb") as f:
                f.write(b"binary \x00\x00 start\nline with a hit after the nul\nmore\n")
            os.chmod(os.path.join(root, name), 0o644)
            files.append(name)
    # one ordinary top-level file to be named explicitly next to the directories
    with open(os.path.join(root, "top.txt"), "w") as f:
        f.write("first line\nthe top file has a hit\n")
    os.chmod(os.path.join(root, "top.txt"), 0o644)
    files.append("top.txt")
    add_partially_invalid_ignores(rng, root, dirs, files)
    add_links(rng, root, dirs, files)
    with open(os.path.join(root, "pre.sh"), "w") as f:
        f.write('#!/bin/sh\ncase "$1" in *slow*) sleep 0.0%d;; esac\nexec cat "$1"\n' % rng.randint(1, 6))
    os.chmod(os.path.join(root, "pre.sh"), 0o755)
    return files


def add_links(rng, root, dirs, files):
    """symbolic links (names without '-' and ':', so the block grammar still finds the path): directory links to `.`,
    `..`, a sibling directory, an ancestor two levels up; dangling links; links to files.  They only matter with -L."""
    n = 0
    def link(target, at):
        nonlocal n
        p = os.path.join(root, at)
        if not os.path.lexists(p):
            os.symlink(target, p)
            n += 1
    real = [d for d in dirs if d != "."]
    for d in real:
        if rng.random() < 0.6:
            link(".", os.path.join(d, "self%d" % n))                     # its own containing directory
        if rng.random() < 0.3:
            link("..", os.path.join(d, "par%d" % n))                     # the parent
        if rng.random() < 0.3:
            sib = rng.choice(real)
            if sib != d and not sib.startswith(d + "/") and not d.startswith(sib + "/"):
                link(os.path.relpath(sib, d), os.path.join(d, "sib%d" % n))   # a sibling: files reachable twice
        if rng.random() < 0.2:
            link("no_such_target", os.path.join(d, "dang%d.txt" % n))    # dangling
    if rng.random() < 0.5:
        link("../..", os.path.join("d0/sub", "up%d" % n))                # an ancestor two levels up
    if rng.random() < 0.3:
        link(".", "rootself%d" % n)
    for f in files:
        if rng.random() < 0.15:
            d = rng.choice(dirs)
            link(os.path.relpath(f, d), os.path.join(d, "lf%d.txt" % n))  # a link to a file


def corpus_tree(root):
    """corner case kept from a past failure: a directory that contains a link to itself, files beside and below it"""
    for d in ("sub/deep", "other"):
        os.makedirs(os.path.join(root, d))
    for d in ("sub", "sub/deep", "other"):
        os.chmod(os.path.join(root, d), 0o755)
    for path, text in (("sub/f.txt", "alpha\nhit one\n"), ("sub/deep/h.txt", "hit two\nbeta\n"),
                       ("other/g.txt", "gamma\nhit three\n")):
        with open(os.path.join(root, path), "w") as f:
            f.write(text)
        os.chmod(os.path.join(root, path), 0o644)
    for path in ("top.txt", "sub/bin1.txt", "sub/deep/bin2.txt", "other/bin3.txt", "other/bin4.txt"):
        with open(os.path.join(root, path), "wb") as f:
            f.write(b"the top file has a hit\n" if path == "top.txt" else b"nul \x00 byte\na hit after it\n")
        os.chmod(os.path.join(root, path), 0o644)
    os.symlink(".", os.path.join(root, "sub/self"))
    os.symlink("..", os.path.join(root, "sub/deep/up"))
    # links to files whose own length (= length of the target path) and whose target's length lie on different sides
    # of --max-filesize 25: a short link to a long file, a long link to a short file
    with open(os.path.join(root, "sub/long.txt"), "w") as f:
        f.write("".join("line %d of a long file with a hit\n" % i for i in range(12)))
    with open(os.path.join(root, "sub/deep/a_short_file_with_a_long_name.txt"), "w") as f:
        f.write("tiny hit\n")
    for x in ("sub/long.txt", "sub/deep/a_short_file_with_a_long_name.txt"):
        os.chmod(os.path.join(root, x), 0o644)
    os.symlink("../sub/long.txt", os.path.join(root, "other/l1.txt"))                                    # 15 / 400 bytes
    os.symlink("../sub/deep/a_short_file_with_a_long_name.txt", os.path.join(root, "other/l2.txt"))     # 45 / 9 bytes
    with open(os.path.join(root, "pre.sh"), "w") as f:
        f.write('#!/bin/sh\nexec cat "$1"\n')
    os.chmod(os.path.join(root, "pre.sh"), 0o755)


def explicit_paths(root):
    """an explicit file followed by the top-level directories: `rg pat file dir...`"""
    ds = sorted(x for x in os.listdir(root) if os.path.isdir(os.path.join(root, x)) and not os.path.islink(os.path.join(root, x)))
    return ["top.txt"] + ds


def mode_args(mode, noglob=False):
    a = ["--color", "never"]
    if mode == "noheading":
        a += ["--no-heading", "-n"]
    elif mode == "heading":
        a += ["--heading", "-n"]
    elif mode == "context":
        a += ["--no-heading", "-n", "-C", "1"]
    elif mode == "after_only":
        a += ["--no-heading", "-n", "-A", "1"]
    elif mode == "before_only":
        a += ["--no-heading", "-n", "-B", "2"]
    elif mode == "c2a0":
        a += ["--no-heading", "-n", "-C", "2", "-A", "0"]
    elif mode == "context_heading":
        a += ["--heading", "-n", "-A", "1"]
    elif mode == "count":
        a += ["-c"]
    elif mode == "list":
        a += ["-l"]
    elif mode == "json":
        a += ["--json"]
    elif mode == "passthru_nh":
        a += ["--no-heading", "-n", "--passthru"]
    # `-g *.txt` whitelists: a whitelisted file is searched whatever the ignore files say (only rules hiding directories
    # still count); `-g !pre.sh` selects the same files of the generated trees and leaves the ignore files in force
    glob = "!pre.sh" if noglob else "*.txt"
    if mode == "files":
        return a + ["--files", "-g", glob]
    return a + ["-e", "hit", "-g", glob]


def separator_of(mode):
    """the file separator line (without terminator) the mode's configuration implies, or None"""
    if mode in ("heading", "context_heading"):
        return b""
    if mode in CONTEXT_NH:
        return b"--"          # any context at all (before or after) turns the context separator into the file separator
    return None


ELAPSED = re.compile(rb'"elapsed(_total)?":\{[^}]*\}')


def split_blocks(mode, out):
    """-> (list of (path, block bytes), list of separator positions, problems).  Block grammar per mode."""
    lines = out.split(b"\n")
    if lines and lines[-1] == b"":
        lines.pop()
    sep = separator_of(mode)
    keyed = []
    cur_heading = None
    summary = None
    for ln in lines:
        key = None
        if mode in ("noheading", "passthru_nh") + CONTEXT_NH:
            m = re.match(rb"([^:\-]+\.txt)[:\-]", ln)
            key = m.group(1) if m else None
        elif mode in ("count",):
            m = re.match(rb"(.+\.txt):\d+$", ln)
            key = m.group(1) if m else None
        elif mode in ("list", "files"):
            key = ln if ln.endswith(b".txt") else None
        elif mode in ("heading", "context_heading"):
            if re.match(rb"\d+[:\-]", ln):
                key = cur_heading
            elif ln.endswith(b".txt"):
                cur_heading = ln
                key = ln
            elif ln == b"--" and mode == "context_heading":
                key = cur_heading          # a context break inside the file
            else:
                key = None
                if ln == b"":
                    cur_heading = None
        elif mode == "json":
            try:
                o = json.loads(ln)
            except ValueError:
                o = None
            if o and o.get("type") == "summary":
                summary = ln
                continue
            if o and "path" in o.get("data", {}):
                key = o["data"]["path"].get("text", "").encode()
            ln = ELAPSED.sub(b'"elapsed":0', ln)
        keyed.append((key, ln))
    # an inner `--` of the no-heading context mode belongs to the file when both neighbours are that file
    if mode in CONTEXT_NH:
        for i, (k, ln) in enumerate(keyed):
            if k is None and ln == b"--" and 0 < i < len(keyed) - 1 and keyed[i - 1][0] is not None \
                    and keyed[i - 1][0] == keyed[i + 1][0]:
                keyed[i] = (keyed[i - 1][0], ln)
    blocks = []
    layout = []          # sequence of 'B' (block) / 'S' (separator line) / 'X' (unexplained line)
    problems = []
    for k, ln in keyed:
        if k is None:
            if sep is not None and ln == sep:
                layout.append("S")
            else:
                layout.append("X")
                problems.append("line belongs to no file: %r" % ln[:80])
            continue
        if blocks and layout and layout[-1] == "B" and blocks[-1][0] == k:
            blocks[-1][1].append(ln)
        else:
            blocks.append((k, [ln]))
            layout.append("B")
    res = [(k, b"".join(l + b"\n" for l in ls)) for k, ls in blocks]
    paths = [k for k, _ in res]
    if len(set(paths)) != len(paths):
        problems.append("a file is reported in two separate places: %r" % [p for p in paths if paths.count(p) > 1][:3])
    lay = "".join(layout)
    if sep is not None:
        if not re.fullmatch(r"(B(SB)*)?", lay):
            problems.append("separator lines are not exactly between blocks: layout %s" % lay[:80])
    else:
        if "S" in lay or "X" in lay:
            problems.append("unexpected lines between blocks: layout %s" % lay[:80])
    return res, problems, summary


def check_cli(ctx, rng, ntrees, runs_per_tree, directed=True):
    trees = []
    jobs = []
    root = K.mktree("c08")
    corpus_tree(root)
    trees.append(root)
    for mode in ("noheading", "files", "heading", "count") if directed else ():
        for n in (2, 4, 8):
            jobs.append(dict(root=root, mode=mode, n=n, pre=False, sort=False, follow=True, explicit=False))
    for mode in ("noheading", "count", "list") if directed else ():
        for n in (2, 3, 8):
            jobs.append(dict(root=root, mode=mode, n=n, pre=False, sort=False, follow=False, explicit=True))
    for mode, n in (("noheading", 2), ("files", 4), ("list", 8)) if directed else ():
        jobs.append(dict(root=root, mode=mode, n=n, pre=False, sort=False, follow=True, explicit=False, maxsize=25))
    for mode, n in (("after_only", 2), ("before_only", 3), ("c2a0", 4), ("context", 2), ("after_only", 8)) if directed else ():
        jobs.append(dict(root=root, mode=mode, n=n, pre=False, sort=False, follow=False, explicit=True))
    for mode, n in (("noheading", 2), ("heading", 4), ("context", 3), ("count", 8), ("json", 2)) if directed else ():
        jobs.append(dict(root=root, mode=mode, n=n, pre=False, sort=False, follow=False, explicit=False, stats=True))
    root = K.mktree("c08")
    bg_hidden, bg_shown = badglob_tree(root)
    trees.append(root)
    for mode, n in (("noheading", 2), ("files", 4), ("list", 8), ("count", 3), ("json", 2), ("heading", 16), ("files", 2)) if directed else ():
        jobs.append(dict(root=root, mode=mode, n=n, pre=False, sort=False, follow=False, explicit=False, badglob=True, noglob=True))
    if directed:
        jobs.append(dict(root=root, mode="list", n=4, pre=False, sort=False, follow=False, explicit=True, badglob=True, noglob=True))
    for _ in range(ntrees):
        root = K.mktree("c08")
        gen_tree(rng, root)
        trees.append(root)
        for _ in range(runs_per_tree):
            mode = rng.choice(MODES)
            n = rng.randint(2, 16)
            pre = rng.random() < 0.35 and mode != "files"
            sort = rng.random() < 0.15
            jobs.append(dict(root=root, mode=mode, n=n, pre=pre, sort=sort, follow=rng.random() < 0.45,
                             explicit=rng.random() < 0.4, noglob=rng.random() < 0.5,
                             maxsize=rng.choice([None, None, None, 12, 25, 40, 100, 3000]),
                             stats=(rng.random() < 0.3 and mode not in ("files",))))
    def run(j):
        base = mode_args(j["mode"], j.get("noglob", False))
        if j["pre"]:
            base = base + ["--pre", "./pre.sh"]
        if j["sort"]:
            base = base + ["--sort", "path"]
        if j["follow"]:
            base = ["-L"] + base
        if j.get("maxsize"):
            base = ["--max-filesize", str(j["maxsize"])] + base
        if j.get("stats") and j["mode"] != "json":
            base = ["--stats"] + base
        if j["explicit"]:
            base = base + explicit_paths(j["root"])
        r1 = K.run_rg(["-j1"] + base, j["root"], nobody=False, timeout=150)
        rn = K.run_rg(["-j%d" % j["n"]] + base, j["root"], nobody=False, timeout=150)
        rn2 = rn if rn["timeout"] else K.run_rg(["-j%d" % j["n"]] + base, j["root"], nobody=False, timeout=150)
        return r1, rn, rn2
    res = K.pmap(run, jobs, workers=6)
    mlines, mmeta = [], []
    stat = ctx.cov.setdefault("modes", {})
    orders_differ = 0
    for j, (r1, rn, rn2) in zip(jobs, res):
        key = "%s%s%s%s%s%s%s" % (j["mode"], "/pre" if j["pre"] else "", "/sort" if j["sort"] else "",
                                  "/L" if j["follow"] else "", "/file+dirs" if j["explicit"] else "",
                                  "/maxsize" if j.get("maxsize") else "", "/stats" if j.get("stats") else "")
        stat[key] = stat.get(key, 0) + 1
        replay = dict(kind="cli", mode=j["mode"], n=j["n"], pre=j["pre"], sort=j["sort"], follow=j["follow"],
                      tree=tree_listing(j["root"]),
                      args=" ".join((["--stats"] if j.get("stats") and j["mode"] != "json" else []) +
                                    (["--max-filesize", str(j["maxsize"])] if j.get("maxsize") else []) +
                                    (["-L"] if j["follow"] else []) + mode_args(j["mode"], j.get("noglob", False)) +
                                    (explicit_paths(j["root"]) if j["explicit"] else [])),
                      j1=dict(status=r1["status"], out=repr(r1["out"][:400]), err=repr(r1["err"][:200])),
                      jn=dict(status=rn["status"], out=repr(rn["out"][:400]), err=repr(rn["err"][:200])))
        if (rn["timeout"] or rn2["timeout"]) and not r1["timeout"] and r1["secs"] < 10:
            ctx.violation("-j%d did not finish within 150 s on a tree where -j1 took %.1f s (the parallel walker visits more "
                          "than the single-threaded one)" % (j["n"], r1["secs"]), replay)
            continue
        has_stats = bool(j.get("stats")) and j["mode"] != "json"
        if has_stats:
            o1, t1 = strip_stats(j["mode"], r1["out"], False)
            on, tn = strip_stats(j["mode"], rn["out"], True)
            on2, tn2 = strip_stats(j["mode"], rn2["out"], True)
            ctx.cov["stats_runs"] = ctx.cov.get("stats_runs", 0) + 1
            if t1 is None or tn is None or tn2 is None:
                ctx.violation("--stats: no statistics block at the end of the output", replay, nfi=True)
                continue
            if tn != t1 or tn2 != t1:
                ctx.violation("--stats totals differ between -j1 and -j%d: %r vs %r" % (j["n"], t1, tn if tn != t1 else tn2),
                              replay)
                continue
            r1, rn, rn2 = dict(r1, out=o1), dict(rn, out=on), dict(rn2, out=on2)
        b1, p1, s1 = split_blocks(j["mode"], r1["out"])
        ctx.note_case(repr((j["root"], j["mode"], j["n"], j["pre"], j["sort"], j["follow"], j["explicit"])), len(b1) >= 2)
        if j["follow"]:
            ctx.cov["follow_runs"] = ctx.cov.get("follow_runs", 0) + 1
            if r1["err"]:
                ctx.cov["follow_runs_with_loop_or_dangling_messages"] = ctx.cov.get(
                    "follow_runs_with_loop_or_dangling_messages", 0) + 1
        # diagnostics: only the walker's messages about links (loops, dangling targets) under -L are expected; each is
        # determined by its path, so the two runs must print the same multiset of lines
        e1 = canon_err(r1["err"])
        if any(l[0] == "badglob" for l in e1):
            ctx.cov["runs_with_partially_invalid_ignore_file"] = ctx.cov.get("runs_with_partially_invalid_ignore_file", 0) + 1
        if j.get("badglob") and j["mode"] in ("files", "list") and not j["explicit"]:
            # the documented behaviour on the fixed tree: the valid rules next to the malformed lines stay in force
            got = set(os.path.normpath(x.decode()) for x in r1["out"].split(b"\n") if x)
            if got != set(bg_shown):
                ctx.violation("-j1: a partially invalid ignore file: listed %r, expected %r (hidden by the valid rules: %r)" % (
                    sorted(got), sorted(bg_shown), bg_hidden), replay)
                continue
        unexpected = [l for l in e1 if l[0] == "other" or (l[0] == "nothing searched" and not j.get("maxsize"))
                      or (l[0] in ("loop", "nofile") and not j["follow"])]
        if unexpected:
            ctx.violation("diagnostics in an error-free tree: %r" % unexpected[:2], replay, nfi=True)
            continue
        bad_err = [r for r in (rn, rn2) if canon_err(r["err"]) != e1]
        if p1:
            # a -j1 output that breaks the grammar is a failing input when the -jN output of the same tree obeys it
            # (then it cannot be a permutation of it), and always when it is the separator rule that is broken: which
            # line separates two files is fixed by the mode, not by the other run
            _, pn_, _ = split_blocks(j["mode"], rn["out"])
            sep_rule = any("separator lines" in x or "unexpected lines between" in x for x in p1)
            both_same = bool(pn_) and [x.split(":")[0] for x in pn_] == [x.split(":")[0] for x in p1]
            full = dict(replay, j1_full=repr(r1["out"][:3000]), jn_full=repr(rn["out"][:3000]))
            ctx.violation("the -j1 output does not follow the block grammar%s: %s" % (
                "" if both_same else " while the -j%d output does" % j["n"], p1[0]), full,
                nfi=(both_same and not sep_rule))
            continue
        failed = False
        for r in (rn, rn2):
            bn, pn, sn = split_blocks(j["mode"], r["out"])
            failed = True
            if r["status"] != r1["status"]:
                ctx.violation("exit status differs: -j1 %d, -j%d %d" % (r1["status"], j["n"], r["status"]), replay)
                break
            if pn:
                ctx.violation("-j%d output: %s" % (j["n"], pn[0]), replay)
                break
            if sorted(bn) != sorted(b1):
                only1 = [p for p, _ in b1 if p not in dict(bn)]
                onlyn = [p for p, _ in bn if p not in dict(b1)]
                ctx.violation("-j%d blocks are not a permutation of the -j1 blocks (missing %r, extra %r, or a block's "
                              "bytes differ)" % (j["n"], only1[:3], onlyn[:3]), replay)
                break
            norm = (lambda b: ELAPSED.sub(b'"elapsed":0', b)) if j["mode"] == "json" else (lambda b: b)
            if j["sort"] and norm(r["out"]) != norm(r1["out"]):
                ctx.violation("--sort path: -j%d output differs from -j1" % j["n"], replay)
                break
            failed = False
            if j["mode"] == "json" and json_totals(sn) != json_totals(s1):
                ctx.violation("--json summary totals differ between -j1 and -j%d: %r vs %r" % (
                    j["n"], json_totals(s1), json_totals(sn)), replay)
                failed = True
                break
            if [p for p, _ in bn] != [p for p, _ in b1]:
                orders_differ += 1
        if failed:
            continue
        if bad_err:
            ctx.violation("-j%d prints different diagnostics than -j1 (same blocks): %r vs %r" % (
                j["n"], bad_err[0]["err"][:200], r1["err"][:200]), replay)
            continue
        # the model replays the completion order observed in the -jN output and must give exactly its bytes
        bn, pn, sn = split_blocks(j["mode"], rn["out"])
        if not pn and j["mode"] != "json" and len(rn["out"]) < 60000 and not has_stats:
            sepb = separator_of(j["mode"])
            for which, blocks, thr, actual in (("par", bn, j["n"], rn["out"]), ("ser", b1, 1, r1["out"])):
                if j["sort"]:
                    thr = 1
                items = [vlist(["2", str(i + 1), "0", vbytes(b), "0"]) for i, (_, b) in enumerate(blocks)]
                mode = 1 if j["mode"] == "files" else 0
                line = vlist(["2", str(mode), "0", "0", "0", "0", "0", "()", vopt(str(thr)), "0", "4", "0", "1", "()",
                              vopt(None if sepb is None else vbytes(sepb)), vbytes(b"\n"), "1", vlist(items)])
                mlines.append(line)
                mmeta.append((which, actual, replay))
    mo = vlib.model(803, mlines)
    for (which, actual, replay), m in zip(mmeta, mo):
        mv = parse_val(m) if m.startswith("(") else None
        m_out = (mv[1] if isinstance(mv[1], bytes) else b"") if mv else None
        if mv is None:
            ctx.violation("the extracted model failed on a replayed run: " + m[:60], dict(replay, which=which), nfi=True)
        elif m_out != actual:
            ctx.violation("model of %s replaying the observed block order does not reproduce rg's stdout (separator "
                          "rule / theorem par_output_is_block_permutation no longer describes the code)" % (
                              "search_parallel" if which == "par" else "search"),
                          dict(replay, which=which, model=repr((m_out or b"")[:300])), nfi=True)
    ctx.cov["runs_with_a_different_block_order"] = ctx.cov.get("runs_with_a_different_block_order", 0) + orders_differ
    ctx.cov["cli_jobs"] = ctx.cov.get("cli_jobs", 0) + len(jobs)
    for root in trees:
        K.rmtree(root)


STATS_RE = re.compile(rb"\n(\d+) matches\n(\d+) matched lines\n(\d+) files contained matches\n(\d+) files searched\n"
                      rb"(\d+) bytes printed\n(\d+) bytes searched\n[0-9.]+ seconds spent searching\n[0-9.]+ seconds\n$")


def strip_stats(mode, out, parallel):
    """-> (output without the statistics block, totals) ; totals = (matches, matched lines, files with matches, files
    searched, bytes searched) — bytes printed and the timings are not compared.  With several threads the block goes
    through the buffer writer and is therefore preceded by the file separator line if anything was printed before."""
    m = STATS_RE.search(out)
    if not m:
        return out, None
    body = out[:m.start()]
    totals = tuple(int(m.group(i)) for i in (1, 2, 3, 4, 6))
    sep = separator_of(mode)
    if parallel and sep is not None and body.endswith(b"\n" + sep + b"\n"):
        body = body[:len(body) - len(sep) - 1]
    return body, totals


def json_totals(summary_line):
    if not summary_line:
        return None
    try:
        st = json.loads(summary_line)["data"]["stats"]
    except (ValueError, KeyError):
        return None
    return tuple(st.get(k) for k in ("matches", "matched_lines", "searches_with_match", "searches", "bytes_searched"))


def canon_err(err):
    """stderr as a sorted list of (kind, path...): the serial walker (walkdir) and the parallel walker word the same
    fact differently ('IO error for operation on P: ...' vs 'P: ...'), so only kind and path are kept"""
    res = []
    for l in err.split(b"\n"):
        if not l:
            continue
        m = re.match(rb"rg: File system loop found: (\S+) points to an ancestor (\S+)$", l)
        if m:
            res.append(("loop", os.path.normpath(m.group(1).decode()), os.path.normpath(m.group(2).decode())))
            continue
        m = re.match(rb"rg: (?:IO error for operation on )?(\S+?): (?:IO error for operation on \S+: )?No such file or directory", l)
        if m:
            res.append(("nofile", os.path.normpath(m.group(1).decode())))
            continue
        m = re.match(rb"(?:rg: )?(\S+): line (\d+): error parsing glob ", l)
        if m:
            # a malformed line of an ignore file: a fact about (file, line); compared as a set (a directory reachable
            # through several links is read several times)
            t = ("badglob", os.path.normpath(m.group(1).decode("latin1")), int(m.group(2)))
            if t not in res:
                res.append(t)
            continue
        if l.startswith(b"rg: No files were searched") or l.startswith(b"Running with --debug will show"):
            res.append(("nothing searched", ""))          # e.g. --max-filesize below every file's size
            continue
        res.append(("other", l.decode("latin1")))
    return sorted(res)


def tree_listing(root):
    res = []
    for d, ds, fs in os.walk(root):
        for x in sorted(ds + fs):
            p = os.path.join(d, x)
            rel = os.path.relpath(p, root)
            if os.path.islink(p):
                res.append("%s -> %s" % (rel, os.readlink(p)))
            elif os.path.isdir(p):
                res.append(rel + "/")
            else:
                res.append("%s (%d bytes)" % (rel, os.path.getsize(p)))
    return sorted(res)


def check_bufwriter(ctx, rng, n):
    cases = []
    for _ in range(n):
        sep = rng.choice([None, b"", b"--", b"==\r"])
        bufs = []
        for _ in range(rng.randint(0, 6)):
            bufs.append(rng.choice([b"", b"", b"a\n", b"x:1:hit\nx:2:hit\n", b"\n", b"no newline"]))
        cases.append(vlist([vopt(None if sep is None else vbytes(sep)), vlist([vbytes(b) for b in bufs])]))
    mo = vlib.model(801, cases)
    co = vlib.code(801, cases)
    for c, m, k in zip(cases, mo, co):
        ctx.note_case(c, "x" in c)
        if m != k:
            ctx.violation("termcolor BufferWriter::print vs the model's separator rule (bw_print): model %s code %s" % (m, k),
                          dict(kind=801, case=c, model=m, code=k), nfi=True)


def check_walk_race(ctx):
    """one directed schedule of the parallel walker (library level, yield hook): an idle worker is held up between its
    successful steal and its re-activation; every entry must still be visited exactly once, as by the serial walk"""
    root = K.mktree("c08")
    for n in ("a", "b", "c"):
        with open(os.path.join(root, n + ".txt"), "w") as f:
            f.write("hit %s\n" % n)
    os.mkdir(os.path.join(root, "d"))
    with open(os.path.join(root, "d", "e.txt"), "w") as f:
        f.write("hit e\n")
    line = vlist([vbytes(root.encode()), "250", "25", "3"])
    out = vlib.code(804, [line])[0]
    ctx.note_case("walk-race", True)
    v = parse_val(out) if out.startswith("(") else None
    if v is None:
        ctx.violation("walk-race harness failed: " + out[:80], dict(kind=804, line=line), nfi=True)
    else:
        missing = [m.decode() if isinstance(m, bytes) else "" for m in v[0]]
        extra = [m.decode() if isinstance(m, bytes) else "" for m in v[1]]
        ctx.cov["walk_race_entries"] = v[3]
        if missing or extra or v[2]:
            ctx.violation("parallel walk (2 threads, idle worker delayed between steal and re-activation) does not visit "
                          "the entries of the serial walk exactly once: missing %r, extra %r, %d duplicates" % (
                              [os.path.relpath(m, root) for m in missing], [os.path.relpath(m, root) for m in extra], v[2]),
                          dict(kind=804, tree=tree_listing(root), activate_sleep_ms=250, visit_sleep_ms=25, rounds=3,
                               missing=missing, extra=extra, duplicates=v[2]))
    K.rmtree(root)


def check_crlf_known(ctx):
    """the listed known finding, replayed"""
    root = K.mktree("c08")
    for n in ("a.txt", "b.txt"):
        with open(os.path.join(root, n), "wb") as f:
            f.write(b"hit\r\nzzz\r\n")
        os.chmod(os.path.join(root, n), 0o644)
    base = ["--color", "never", "--crlf", "--no-heading", "-A1", "-e", "hit", "a.txt", "b.txt"]
    r1 = K.run_rg(["-j1"] + base, root, nobody=False)
    rn = K.run_rg(["-j2"] + base, root, nobody=False)
    ctx.note_case("crlf-known", True)
    if b"--\r\n" in r1["out"] and b"--\r\n" not in rn["out"] and b"--\n" in rn["out"]:
        ctx.known(KNOWN_SEP, "rg --crlf -A1: separator line is '--\\r\\n' with -j1 and '--\\n' with -j2")
    elif r1["out"].replace(b"--\r\n", b"--\n") != rn["out"].replace(b"--\r\n", b"--\n") and \
            sorted(r1["out"].split(b"--\r\n")) != sorted(rn["out"].split(b"--\r\n")):
        ctx.violation("--crlf: -j1 and -j2 outputs differ by more than the separator's terminator",
                      dict(kind="crlf", j1=repr(r1["out"]), jn=repr(rn["out"])))
    K.rmtree(root)


def run(ctx):
    rng = ctx.rng
    ctx.cov["rule"] = ("trees of 2-12 *.txt files (0..40000 lines, hit density 0/5%%/30%%/100%%) in up to 5 directories; per "
                       "tree several runs: mode in %s x N in 2..16 x slow --pre on 'slow*' files (35%%) x --sort path "
                       "(15%%) x --stats (30%%, totals compared) x --max-filesize (40%%; 12..3000 bytes) x explicit `top.txt dir...` arguments (40%%; directories hold files with NUL bytes) x -L (45%%; trees contain directory links to '.', '..', a sibling, an ancestor two levels up, "
                       "dangling links and links to files); a fixed corner tree (directory containing a link to itself) first; "
                       "every configuration run once with -j1 and twice with -jN. non-trivial = at least two "
                       "non-empty blocks." % ", ".join(MODES))
    check_bufwriter(ctx, rng, ctx.count(150))
    check_crlf_known(ctx)
    check_walk_race(ctx)
    # the fixed corner trees first: when one of them already shows a failing input, the generated trees are skipped (a
    # walker that loses a directory's matcher can take very long on trees with directory links)
    check_cli(ctx, rng, 0, 0, directed=True)
    if any(not nfi for _, nfi, _ in ctx.violations):
        ctx.notes.append("a fixed corner tree gave a failing input: the generated trees were not run")
    else:
        check_cli(ctx, rng, max(4, ctx.count(8)), 9, directed=False)
    K.report_drift(ctx, GEN_TARGETS, bool(ctx.violations))
    ctx.assumptions += [
        "PARTIAL: a worker's bufwtr.print(buffer) is atomic (termcolor's stdout lock) — trusted, exercised only",
        "the completion order of the workers is universally quantified in the theorems (C07 supplies 'each file exactly "
        "once'); the check recovers the observed order from the -jN output",
        "runs with per-file errors are out of scope by construction (-j1 keeps partial output, -jN drops the buffer)",
        "--stats is outside the compared modes (timings; the statistics block goes through the buffer writer and "
        "therefore gets a separator line in front with several threads)",
    ]


def replay(ctx, data):
    print("replay: re-running the whole check")
    run(ctx)
