"""C15 — exit status and error reporting contract (command-line level correspondence with injected faults)."""
import os
import re

import vlib
from vlib import vbytes, vlist, vopt, vbool, parse_val
from props import cli_common as K

NEED_RG = True
MANIFEST = dict(
    text="Coq theorems about the exit-status expression REGENERATED from main.rs on every run (status_table) and about a "
         "model of search/search_parallel/files/files_parallel as folds over per-file outcomes with the errored/matched/"
         "searched flags, early breaks and main()'s broken-pipe handling: run_status (status = table of 'some file "
         "matched' x 'a diagnostic was due', all four drivers, any walk), error_does_not_suppress_others (serial and "
         "parallel), broken_pipe_is_quiet_zero (any file index, four drivers), invalid_args_no_results. Tie: real rg runs "
         "(as uid nobody) on generated trees with mode-000 files/directories, dangling symlinks, missing paths, files "
         "removed during the run, invalid regex/glob/encoding/flags, stdout closed after k bytes, -j1 and -jN: "
         "(status, stdout, stderr kinds) vs the extracted model and vs the property's table directly. "
         "PARTIAL: whether the OS reports a closed pipe promptly and the timing of flag updates across threads are runtime "
         "behaviour (exercised under a timeout, not proved).",
    note="two defects found and repaired by fix: commits (status 1 when the pipe closes during the first matching file "
         "with one thread; 'preprocessor command failed: Broken pipe' + status 2 with --pre); one known finding "
         "(BrokenPipeParallelBeforeAnyMatch). Trusted: translator tools/gen/rsexpr.py, the scenario-to-item mapping "
         "of this check, Coq kernel, extraction, driver.",
    technique="Coq proof over generated decision expressions + executable model; CLI-level model/implementation "
              "correspondence with fault injection; property-table oracle",
    design="§7 C15, §4.2")
KNOWN_PIPE = "BrokenPipeParallelBeforeAnyMatch"
GEN_TARGETS = ["exit_code", "choose_driver", "threads", "quit_after_match", "stats_is_some", "matches_possible",
               "sort_is_identity"]

PAT = "hit"
PRE_SCRIPT = os.path.join(vlib.CACHE, "tmp_c15pre", "pre.sh")


def make_pre_script():
    d = os.path.dirname(PRE_SCRIPT)
    os.makedirs(d, exist_ok=True)
    os.chmod(d, 0o755)
    with open(PRE_SCRIPT, "w") as f:
        f.write('#!/bin/sh\ncat "$1" || exit 9\ncase "$1" in *pf) exit 3;; esac\nexit 0\n')
    os.chmod(PRE_SCRIPT, 0o755)


# ----------------------------------------------------------------------------------------------- scenarios

def gen_lines(rng, match, n=None):
    n = n if n is not None else rng.randint(1, 4)
    lines = []
    for i in range(n):
        if match and (i == 0 or rng.random() < 0.5):
            lines.append("x hit %d" % rng.randint(0, 99))
        else:
            lines.append("other %d" % rng.randint(0, 99))
    return lines


def gen_entry(rng, depth, names):
    name = names.pop()
    r = rng.random()
    if depth == 0 and r < 0.10:
        return dict(name=name, kind="missing")
    if r < 0.32:
        return dict(name=name, kind="file", lines=gen_lines(rng, True))
    if r < 0.52:
        return dict(name=name, kind="file", lines=gen_lines(rng, False))
    if r < 0.62:
        return dict(name=name, kind="unreadable", lines=gen_lines(rng, rng.random() < 0.7))
    if r < 0.68:
        # searched through --pre; the command prints the file, then exits 3 without a word on stderr
        return dict(name=name + "pf", kind="prefail", lines=gen_lines(rng, rng.random() < 0.6))
    if r < 0.74:
        return dict(name=name, kind="dangling")
    if depth >= 1 and r < 0.80:
        return dict(name=name, kind="looplink")          # a link to the directory that contains it
    if r < 0.86:
        return dict(name=name, kind="lockeddir")
    if depth < 2:
        kids = [gen_entry(rng, depth + 1, names) for _ in range(rng.randint(0, 4))]
        return dict(name=name, kind="dir", children=kids)
    return dict(name=name, kind="file", lines=gen_lines(rng, True))


def gen_scenario(rng, force=None):
    names = ["n%02d" % i for i in range(40)]
    rng.shuffle(names)
    n = rng.randint(1, 5)
    entries = [gen_entry(rng, 0, names) for _ in range(n)]
    mode = rng.choice(["std", "std", "std", "count", "list", "files", "quiet", "quiet"])
    threads = 1 if rng.random() < 0.5 else rng.randint(2, 8)
    has_dir = any(e["kind"] == "dir" for e in entries)
    sort = None
    if rng.random() < 0.35:
        sort = rng.choice(["sort", "sortr"])
    implicit = rng.random() < 0.12
    if implicit:
        sort = sort or ("sort" if threads == 1 else None)
    def any_prefail(es):
        return any(e["kind"] == "prefail" or any_prefail(e.get("children", [])) for e in es)
    s = dict(entries=entries, mode=mode, threads=threads, sort=sort, implicit=implicit, pre=any_prefail(entries),
             no_messages=rng.random() < 0.15, follow=rng.random() < 0.3, max0=rng.random() < 0.04,
             stats=(mode in ("quiet", "std", "count") and rng.random() < 0.35))
    if force:
        s.update(force)
    return s


def materialize(s, root):
    def mk(e, d):
        p = os.path.join(d, e["name"])
        k = e["kind"]
        if k in ("file", "unreadable", "prefail"):
            with open(p, "w") as f:
                f.write("".join(l + "\n" for l in e["lines"]))
            os.chmod(p, 0 if k == "unreadable" else 0o644)
        elif k == "dangling":
            os.symlink("nowhere_" + e["name"], p)
        elif k == "looplink":
            os.symlink(".", p)
        elif k == "lockeddir":
            os.mkdir(p)
            with open(os.path.join(p, "inner"), "w") as f:
                f.write("hit inside\n")
            os.chmod(p, 0)
        elif k == "dir":
            os.mkdir(p)
            os.chmod(p, 0o755)
            for c in e["children"]:
                mk(c, p)
    for e in s["entries"]:
        mk(e, root)


def hay_out(s, path, lines, one_file):
    """what rg prints for a readable file in this mode (stdout is not a tty: no heading, no line numbers)"""
    hits = [l for l in lines if PAT in l]
    m = s["mode"]
    pre = b"" if one_file else path.encode() + b":"
    if m == "std":
        return b"".join(pre + l.encode() + b"\n" for l in hits)
    if m == "count":
        return pre + str(len(hits)).encode() + b"\n" if hits else b""
    if m == "list":
        return path.encode() + b"\n" if hits else b""
    return b""


def walk_items(s):
    """the walker's yield sequence for the scenario in single-threaded order, as model items:
    list of dict(kind=err|skip|hay, path, res, out)"""
    ents = s["entries"]
    one_file = (not s["implicit"]) and len(ents) == 1 and ents[0]["kind"] != "dir" and ents[0]["kind"] != "lockeddir"
    items = []

    def visit(e, prefix, depth):
        path = prefix + e["name"]
        k = e["kind"]
        if k == "missing":
            items.append(dict(kind="err", path=path))
        elif k == "dangling":
            # explicit: stat fails; below a directory: not a file, skipped — unless -L, which makes it an error
            if depth == 0 or s["follow"]:
                items.append(dict(kind="err", path=path))
            else:
                items.append(dict(kind="skip", path=path))
        elif k == "looplink":
            # followed only under -L: then the walker reports a file system loop (an error); otherwise not a file
            items.append(dict(kind="err" if s["follow"] else "skip", path=path))
        elif k == "lockeddir":
            items.append(dict(kind="skip", path=path))      # the directory entry itself
            items.append(dict(kind="err", path=path))       # reading it fails
        elif k == "dir":
            items.append(dict(kind="skip", path=path))
            for c in sorted(e["children"], key=lambda c: c["name"]):
                visit(c, path + "/", depth + 1)
        elif k == "file":
            if s["mode"] == "files":
                items.append(dict(kind="hay", path=path, res=0, out=path.encode() + b"\n"))
            else:
                hit = any(PAT in l for l in e["lines"])
                items.append(dict(kind="hay", path=path, res=0 if hit else 1, out=hay_out(s, path, e["lines"], one_file)))
        elif k == "unreadable":
            if s["mode"] == "files":
                items.append(dict(kind="hay", path=path, res=0, out=path.encode() + b"\n"))
            else:
                items.append(dict(kind="hay", path=path, res=2, out=b""))
        elif k == "prefail":
            hit = any(PAT in l for l in e["lines"])
            out = hay_out(s, path, e["lines"], one_file)
            if s["mode"] == "files":
                items.append(dict(kind="hay", path=path, res=0, out=path.encode() + b"\n"))
            elif s["max0"]:
                items.append(dict(kind="hay", path=path, res=1, out=b""))
            elif hit and s["mode"] in ("list", "quiet") and not s.get("stats"):
                # the search stops at the first match: the command is cut short, silent -> not an error (C18)
                items.append(dict(kind="hay", path=path, res=0, out=out))
            else:
                # its output was consumed, it exited 3: an error; one thread has already printed the matching lines
                # (standard mode; a count is only printed when a search finishes)
                items.append(dict(kind="hay", path=path, res=2, out=out if s["mode"] == "std" else b""))
    if s["implicit"]:
        for e in sorted(ents, key=lambda c: c["name"]):
            if e["kind"] != "missing":
                visit(e, "", 1)
    else:
        for e in ents:
            visit(e, "", 0)
    if s["sort"] == "sortr":
        # HiArgs::sort collects, then sorts by path descending; walker errors were reported while collecting.
        errs = [i for i in items if i["kind"] != "hay"]
        hays = sorted([i for i in items if i["kind"] == "hay"], key=lambda i: i["path"].split("/"), reverse=True)
        items = errs + hays
    return items, one_file


def args_of(s):
    a = ["--color", "never"]
    m = s["mode"]
    if m == "count":
        a.append("-c")
    elif m == "list":
        a.append("-l")
    elif m == "files":
        a.append("--files")
    elif m == "quiet":
        a.append("-q")
    a += ["-j", str(s["threads"])]
    if s["sort"] == "sort":
        a += ["--sort", "path"]
    elif s["sort"] == "sortr":
        a += ["--sortr", "path"]
    if s["no_messages"]:
        a.append("--no-messages")
    if s["follow"]:
        a.append("-L")
    if s["max0"]:
        a += ["-m", "0"]
    if s.get("stats"):
        a.append("--stats")
    if s.get("pre") and m != "files":
        a += ["--pre", PRE_SCRIPT]
    if m != "files":
        a += ["-e", PAT]
    if not s["implicit"]:
        a += [e["name"] for e in s["entries"]]
    return a


def model_line(s, items, one_file, pipe_at=None, avail=4):
    """case line for kind 1501"""
    ids = {}
    its = []
    par = not (s["threads"] == 1 or s["sort"] or one_file)
    for n, it in enumerate(items):
        ids[it["path"]] = n + 1
        if it["kind"] == "err":
            its.append(vlist(["0", str(n + 1)]))
        elif it["kind"] == "skip":
            its.append(vlist(["1"]))
        else:
            res, pr = it["res"], 0
            if pipe_at == n:
                if par or s["mode"] == "files":
                    pr = 1
                else:
                    res = 3
            its.append(vlist(["2", str(n + 1), str(res), vbytes(it["out"]), str(pr)]))
    mode = 1 if s["mode"] == "files" else 0
    smode = dict(std=0, count=3, list=1, files=0, quiet=0)[s["mode"]]
    sort = vopt(None) if not s["sort"] else vopt(vlist([vbool(s["sort"] == "sortr"), "0"]))
    line = vlist(["2", str(mode), str(smode), "0", vbool(s["max0"]), vbool(s["mode"] == "quiet"),
                  vbool(bool(s.get("stats"))), sort,
                  vopt(str(s["threads"])), vbool(one_file), str(avail), vbool(s["implicit"]),
                  vbool(not s["no_messages"]), vbytes(b""), vopt(None), vbytes(b"\n"), "1", vlist(its)])
    return line, ids


def classify_stderr(err):
    """stderr -> list of (kind, path); kinds as the model's diag numbers, except that a walker error (0) and a failed
    search (1) are both reported as 1: for a path given on the command line the two messages have the same shape"""
    res = []
    text = err.decode("utf-8", "replace")
    for line in text.split("\n"):
        if not line.strip():
            continue
        if line.startswith("Running with --debug"):
            continue
        m = re.match(r"rg: (?:\./)?(.*?): IO error for operation on (.*?): ", line)
        if m:
            res.append((1, m.group(1)))
            continue
        if line.startswith("rg: No files were searched"):
            res.append((3, ""))
            continue
        m = re.match(r"rg: File system loop found: (?:\./)?(\S+) points to an ancestor ", line)
        if m:
            res.append((1, m.group(1)))
            continue
        m = re.match(r"rg: (?:\./)?(.*?): (Permission denied|No such file or directory|Is a directory)", line)
        if m:
            res.append((1, m.group(1)))
            continue
        m = re.match(r"rg: (.*?): (preprocessor command|\s*$)", line)
        if m:
            res.append((1, m.group(1)))
            continue
        res.append((9, line))
    return res


def property_status(any_match, quiet, any_error):
    """the property statement, directly"""
    if any_match and (quiet or not any_error):
        return 0
    if any_error:
        return 2
    return 1


# ----------------------------------------------------------------------------------------------- fault runs

def check_fault_scenarios(ctx, scns, avail):
    make_pre_script()
    roots = []
    jobs = []
    for s in scns:
        root = K.mktree("c15")
        roots.append(root)
        materialize(s, root)
        jobs.append((s, root))
    results = K.pmap(lambda j: K.run_rg(args_of(j[0]), j[1]), jobs)
    lines, meta = [], []
    for (s, root), r in zip(jobs, results):
        items, one_file = walk_items(s)
        line, ids = model_line(s, items, one_file, avail=avail)
        lines.append(line)
        meta.append((s, items, one_file, ids, r))
    mouts = vlib.model(1501, lines)
    stats = ctx.cov.setdefault("fault_kinds", {})
    for (s, items, one_file, ids, r), line, mo in zip(meta, lines, mouts):
        replay = dict(kind="fault", scenario=s, args=args_of(s), rg=dict(status=r["status"], out=repr(r["out"]),
                                                                         err=repr(r["err"])), model=mo)
        if r["timeout"]:
            ctx.violation("rg did not finish", replay)
            continue
        if not mo.startswith("("):
            ctx.violation("model failed on a fault scenario: " + mo, replay, nfi=True)
            continue
        mv = parse_val(mo)
        m_status, m_out = mv[0], (mv[1] if isinstance(mv[1], bytes) else b"")
        m_diags = [(d[0], d[1]) for d in mv[2]] if isinstance(mv[2], list) else []
        m_threads = mv[5]
        par = m_threads != 1
        quiet = s["mode"] == "quiet"
        kinds = set()

        def coll(e):
            kinds.add(e["kind"])
            for c in e.get("children", []):
                coll(c)
        for e in s["entries"]:
            coll(e)
        for k in kinds:
            stats[k] = stats.get(k, 0) + 1
        key = "%s/%s/%s" % (s["mode"], "par" if par else "ser", s["sort"])
        ctx.cov.setdefault("modes", {})[key] = ctx.cov.setdefault("modes", {}).get(key, 0) + 1
        ctx.note_case(line, bool(kinds & {"unreadable", "missing", "dangling", "lockeddir", "prefail", "looplink"}))
        # ---- model vs code
        path_of = {v: k for k, v in ids.items()}
        got_diags = classify_stderr(r["err"])
        rg_out = r["out"]
        if s.get("stats"):
            mm = re.search(rb"(^|\n)\n\d+ matches\n\d+ matched lines\n", rg_out)
            if mm:
                rg_out = rg_out[:mm.start() + (1 if mm.group(1) else 0)]
            ctx.cov["stats_runs"] = ctx.cov.get("stats_runs", 0) + 1
        exp_diags = [(max(k, 1) if k < 2 else k, path_of.get(i, "")) for k, i in m_diags]
        ordered = (not par) and s["sort"] != "sortr" and not (s["implicit"] and not s["sort"])
        has_dir = any(e["kind"] == "dir" for e in s["entries"]) or s["implicit"]
        if has_dir and not s["sort"]:
            ordered = False           # readdir order is not known to the check
        bad = None
        if r["status"] != m_status:
            bad = "status: rg %d, model %d" % (r["status"], m_status)
        elif quiet and not s.get("stats") and (par or not ordered):
            if not set(got_diags) <= set((k, p) for k, p in _all_possible_diags(s, items)):
                bad = "stderr has a diagnostic that no item explains: %r" % (got_diags,)
        elif ordered:
            if got_diags != exp_diags:
                bad = "stderr (ordered): rg %r, model %r" % (got_diags, exp_diags)
            elif rg_out != m_out:
                bad = "stdout: rg %r, model %r" % (rg_out, m_out)
        else:
            if sorted(got_diags) != sorted(exp_diags):
                bad = "stderr (as multiset): rg %r, model %r" % (got_diags, exp_diags)
            elif sorted(rg_out.split(b"\n")) != sorted(m_out.split(b"\n")):
                bad = "stdout (as multiset of lines): rg %r, model %r" % (rg_out, m_out)
        # ---- the property's table, directly on the scenario
        searched = [i for i in items if i["kind"] == "hay"]
        any_match = any(i["res"] == 0 for i in searched)
        any_error = any(i["kind"] == "err" or (i["kind"] == "hay" and i["res"] == 2) for i in items)
        if s["implicit"] and not searched and s["mode"] != "files":
            any_error = True          # "No files were searched" is an error message
        if s["max0"] and s["mode"] != "files":
            any_error, any_match = False, False     # -m0: nothing can match, nothing is searched
        want = property_status(any_match, quiet, any_error)
        oracle_bad = None
        if r["status"] != want:
            oracle_bad = "property table gives %d, rg exited with %d" % (want, r["status"])
        if any_error and not quiet and not s["no_messages"] and not r["err"]:
            oracle_bad = "a fault was injected but stderr is empty"
        if s["no_messages"] and r["err"]:
            oracle_bad = "--no-messages but stderr is not empty"
        if not par and s["mode"] in ("std", "count", "list") and not quiet and not s["max0"]:
            # every readable matching file must be reported although other files failed
            for i in searched:
                if i["res"] == 0 and i["out"] and i["out"] not in r["out"]:
                    oracle_bad = "the results of %s are missing from stdout" % i["path"]
        if oracle_bad:
            ctx.violation("C15 oracle: " + oracle_bad, replay)
        elif bad:
            ctx.violation("model and rg disagree (%s); theorem run_status / error_does_not_suppress_others no longer "
                          "describes the code" % bad, replay, nfi=True)
        ctx.sample(dict(args=" ".join(args_of(s)), status=r["status"], stderr=r["err"].decode("latin1")[:200]))
    for root in roots:
        K.rmtree(root)


def _all_possible_diags(s, items):
    res = []
    for i in items:
        if i["kind"] == "err":
            res.append((1, i["path"]))
        elif i["kind"] == "hay" and i["res"] == 2:
            res.append((1, i["path"]))
    if s["implicit"]:
        res.append((3, ""))
    return res


# ----------------------------------------------------------------------------------------------- invalid arguments

INVALID = [
    (["-e", "(", "."], "regex"), (["-e", "a{2,1}", "."], "regex"), (["-e", "\\p{Nope}", "."], "regex"),
    (["-g", "{", "-e", "hit", "."], "glob"), (["-g", "[z-a]", "-e", "hit", "."], "glob"),
    (["--iglob", "**a", "--files", "."], None),
    (["-E", "no-such-encoding", "-e", "hit", "."], "encoding"), (["--no-such-flag", "hit"], "flag"),
    (["-t", "nosuchtype", "hit", "."], "type"), (["--sort", "size", "hit", "."], "flag"),
    (["-j", "x", "hit", "."], "flag"), (["-m", "-3", "hit", "."], "flag"), (["--pre-glob", "{", "--pre", "cat", "hit", "."], "glob"),
    (["--type-add", "bad", "hit", "."], "type"), (["-A", "x", "hit"], "flag"), (["--colors", "zzz", "hit"], "flag"),
    (["-f", "no_such_pattern_file", "."], "file"), ([], "flag"),
    # an invalid value is an error whatever else is (not) given: the flag it modifies may be absent
    (["--pre-glob", "{", "-e", "hit", "."], "glob"), (["--pre-glob", "[z-a]", "-e", "hit", "."], "glob"),
    (["--pre-glob", "a{b", "--files", "."], "glob"), (["--pre", "cat", "--pre-glob", "a{b", "-e", "hit", "."], "glob"),
    (["--iglob", "{", "-e", "hit", "."], "glob"), (["--iglob", "[z-a]", "--files", "."], "glob"),
    (["-g", "a{b", "--files", "."], "glob"), (["-g", "**{", "-e", "hit", "."], "glob"),
    (["--type-add", "nocolon", "-e", "hit", "."], "type"), (["--type-add", "x:include:nosuchtype", "-e", "hit", "."], "type"),
    (["--type-add", "bad name:*.x", "--files", "."], "type"), (["-T", "nosuchtype", "-e", "hit", "."], "type"),
    (["--type-clear", "rust", "-t", "rust", "-e", "hit", "."], "type"),
    (["-E", "utf-99", "-e", "hit", "."], "encoding"), (["-E", "", "-e", "hit", "."], "encoding"),
    (["--max-filesize", "5X", "-e", "hit", "."], "flag"), (["--max-depth", "-1", "-e", "hit", "."], "flag"),
    (["--dfa-size-limit", "big", "-e", "hit", "."], "flag"), (["--regex-size-limit", "1Q", "-e", "hit", "."], "flag"),
    (["--engine", "nosuch", "-e", "hit", "."], "flag"), (["--color", "sometimes", "-e", "hit", "."], "flag"),
    (["--colors", "match:fg:nocolor", "-e", "hit", "."], "flag"), (["--hyperlink-format", "{nosuchvar}", "-e", "hit", "."], "flag"),
    (["--sortr", "weight", "-e", "hit", "."], "flag"),
    (["--ignore-file", "x", "--max-columns", "wide", "-e", "hit", "."], "flag"),
    (["-r", "$1", "-e", "hit(", "."], "regex"), (["-F", "-e", "hit", "-g", "{", "."], "glob"),
    (["--pre-glob", "*.txt", "--pre-glob", "{", "-z", "-e", "hit", "."], "glob"),
]


def check_invalid_args(ctx, rng):
    root = K.mktree("c15")
    with open(os.path.join(root, "a.txt"), "w") as f:
        f.write("hit one\nhit two\n")
    os.chmod(os.path.join(root, "a.txt"), 0o644)
    cases = []
    for base, what in INVALID:
        for extra in ([], ["-j1"], ["-j4"], ["--files"] if what in ("glob", "type", "flag") and base else ["-c"]):
            cases.append((extra + base, what))
    res = K.pmap(lambda c: K.run_rg(c[0], root), cases)
    # the model: a parse error, and a set-up failure in each driver
    lines = []
    for parse, setup, mode, thr in [(0, 1, 0, 1), (2, 0, 0, 1), (2, 0, 0, 4), (2, 0, 1, 1), (2, 0, 1, 4)]:
        lines.append(vlist([str(parse), str(mode), "0", "0", "0", "0", "0", "()", vopt(str(thr)), "0", "4", "0", "1", "()",
                            "()", vbytes(b"\n"), str(setup), vlist([vlist(["2", "1", "0", vbytes(b"a.txt:hit one\n"), "0"])])]))
    mo = vlib.model(1501, lines)
    for m in mo:
        mv = parse_val(m) if m.startswith("(") else None
        if not mv or mv[0] != 2 or mv[1] != [] or [d[0] for d in mv[2]] != [4] or mv[3] != []:
            ctx.violation("model: invalid arguments do not give (2, no output, one fatal diagnostic): " + m,
                          dict(kind="invalid-model", model=m), nfi=True)
    n_err = 0
    for (args, what), r in zip(cases, res):
        ctx.note_case("inv" + repr(args), True)
        if what is None:
            continue
        n_err += 1
        if r["status"] != 2 or r["out"] != b"" or not r["err"].startswith(b"rg: "):
            ctx.violation("invalid %s argument: expected status 2, empty stdout and a diagnostic" % what,
                          dict(kind="invalid", args=args, status=r["status"], out=repr(r["out"]), err=repr(r["err"])))
    ctx.cov["invalid_argument_runs"] = n_err
    K.rmtree(root)


# ----------------------------------------------------------------------------------------------- closed pipe

def check_pipe(ctx, rng, n):
    root = K.mktree("c15")
    sizes = {}
    specs = [("big1", 30000, True), ("big2", 12000, True), ("mid", 900, True), ("small", 3, True), ("none", 20000, False)]
    for name, nl, match in specs:
        with open(os.path.join(root, name), "w") as f:
            for i in range(nl):
                f.write(("line %d hit payload payload\n" if match else "line %d other payload payload\n") % i)
        os.chmod(os.path.join(root, name), 0o644)
        sizes[name] = nl
    with open(os.path.join(root, "locked"), "w") as f:
        f.write("hit\n")
    os.chmod(os.path.join(root, "locked"), 0)
    cases = []
    for _ in range(n):
        k_files = rng.randint(1, 4)
        files = [rng.choice(["big1", "big2", "mid", "small", "none"]) for _ in range(k_files)]
        fault = rng.random() < 0.2
        if fault:
            files.insert(rng.randint(0, len(files)), "locked")
        threads = rng.choice([1, 1, 2, 4, 8])
        mode = rng.choice(["std", "std", "pre", "passthru", "files", "count", "json", "json", "list", "fwm", "vimgrep", "only",
                           "stats"])
        total = sum(sizes.get(f, 1) * 30 for f in files)
        k = rng.choice([0, 1, rng.randint(0, 4096), rng.randint(0, max(1, total)), rng.randint(0, 70000), 65536, 65537])
        cases.append(dict(files=files, threads=threads, mode=mode, k=k, fault=fault, lb=rng.random() < 0.35))
    # fixed corner cases: the two repaired defects and the known finding
    cases += [dict(files=["big1"], threads=1, mode="std", k=10, fault=False),
              dict(files=["big1", "small"], threads=1, mode="std", k=0, fault=False),
              dict(files=["small", "big1"], threads=1, mode="pre", k=10, fault=False),
              dict(files=["big1"], threads=1, mode="pre", k=0, fault=False),
              dict(files=["none", "none"], threads=2, mode="passthru", k=0, fault=False),
              dict(files=["none"], threads=1, mode="passthru", k=5, fault=False),
              # line-buffered output, the consumer is gone before the first byte: the very first write fails
              dict(files=["small", "mid"], threads=1, mode="files", k=0, fault=False, lb=True),
              dict(files=["small", "mid", "big1"], threads=4, mode="files", k=0, fault=False, lb=True),
              dict(files=["small"], threads=1, mode="files", k=0, fault=False, lb=True),
              dict(files=["small", "mid"], threads=1, mode="std", k=0, fault=False, lb=True),
              dict(files=["small", "mid"], threads=3, mode="std", k=0, fault=False, lb=True),
              dict(files=["small", "mid"], threads=1, mode="files", k=0, fault=False, lb=False),
              # every output mode with the pipe closed in the middle of the first big file, one thread and several
              dict(files=["big1", "mid", "big2"], threads=1, mode="json", k=10, fault=False),
              dict(files=["big1", "mid", "big2"], threads=1, mode="json", k=70000, fault=False),
              dict(files=["mid", "big1"], threads=4, mode="json", k=10, fault=False),
              dict(files=["big1", "big2"], threads=1, mode="vimgrep", k=100, fault=False),
              dict(files=["big1", "big2"], threads=3, mode="vimgrep", k=100, fault=False),
              dict(files=["big1", "big2"], threads=1, mode="only", k=100, fault=False),
              dict(files=["big1", "big2"], threads=1, mode="stats", k=100, fault=False),
              dict(files=["big1", "big2"], threads=2, mode="stats", k=100, fault=False),
              dict(files=["big1", "none"], threads=1, mode="list", k=0, fault=False, lb=True),
              dict(files=["big1", "none"], threads=2, mode="list", k=0, fault=False),
              dict(files=["none", "big1", "none"], threads=1, mode="fwm", k=0, fault=False, lb=True),
              dict(files=["none", "big1", "none"], threads=2, mode="fwm", k=0, fault=False),
              dict(files=["big1", "mid"], threads=1, mode="count", k=0, fault=False, lb=True),
              dict(files=["big1", "mid"], threads=2, mode="count", k=0, fault=False)]

    def args(c):
        a = ["--color", "never", "-j", str(c["threads"])]
        if c.get("lb"):
            a.append("--line-buffered")
        if c["mode"] == "pre":
            a += ["--pre", "cat"]
        if c["mode"] == "passthru":
            a += ["--passthru"]
        if c["mode"] == "count":
            a += ["-c"]
        a += {"json": ["--json"], "list": ["-l"], "fwm": ["--files-without-match"], "vimgrep": ["--vimgrep"],
              "only": ["-o"], "stats": ["--stats"]}.get(c["mode"], [])
        if c["mode"] == "files":
            return a + ["--files"] + c["files"]
        return a + ["-e", PAT] + c["files"]
    # k = 0: the read end is closed before rg is even started (no race about who is first)
    res = K.pmap(lambda c: K.run_rg(args(c), root, close_after=c["k"], timeout=300, preclosed=(c["k"] == 0)), cases)
    lines, owners = [], []
    for ci, c in enumerate(cases):
        one_file = len(c["files"]) == 1
        s = dict(threads=c["threads"], sort=None, mode="files" if c["mode"] == "files" else "std", implicit=False,
                 no_messages=False, max0=False)
        items = []
        for f in c["files"]:
            if c["mode"] == "files":
                items.append(dict(kind="hay", path=f, res=0, out=b"x"))
            elif f == "locked":
                items.append(dict(kind="hay", path=f, res=2, out=b""))
            elif c["mode"] == "fwm":
                # --files-without-match: a file without a pattern match is the one that is printed and counts
                m = f == "none"
                items.append(dict(kind="hay", path=f, res=0 if m else 1, out=b"x" if m else b""))
            else:
                m = f != "none"
                has_out = m or c["mode"] == "passthru"
                items.append(dict(kind="hay", path=f, res=0 if m else 1, out=b"x" if has_out else b""))
        par = c["threads"] > 1 and not one_file
        line, _ = model_line(s, items, one_file, pipe_at=None)
        lines.append(line)
        owners.append(ci)
        for pipe_at in [i for i, it in enumerate(items) if it["out"]]:
            others = [j for j in range(len(items)) if j != pipe_at]
            if par:
                # any set of the other files may have completed before the write that failed
                orders = [[j for b, j in enumerate(others) if mask >> b & 1] for mask in range(1 << len(others))]
            else:
                orders = [list(range(pipe_at))]
            for before in orders:
                sub = [items[j] for j in before] + [items[pipe_at]]
                line, _ = model_line(s, sub, one_file, pipe_at=len(before))
                lines.append(line)
                owners.append(ci)
    mo = vlib.model(1501, lines)
    accept = {}
    for ci, m in zip(owners, mo):
        if not m.startswith("("):
            ctx.violation("model failed on a pipe scenario: " + m, dict(kind="pipe-model", model=m), nfi=True)
            continue
        mv = parse_val(m)
        accept.setdefault(ci, set()).add((mv[0], tuple(sorted(max(d[0], 1) if d[0] < 2 else d[0] for d in mv[2]))))
    slow = 0
    for ci, (c, r) in enumerate(zip(cases, res)):
        replay = dict(kind="pipe", case=c, args=args(c), status=r["status"], err=repr(r["err"]), got=len(r["out"]),
                      secs=r["secs"], accepted=sorted(accept.get(ci, [])))
        ctx.note_case("pipe" + repr(c), True)
        key = "pipe/%s/%s%s" % (c["mode"], "par" if c["threads"] > 1 and len(c["files"]) > 1 else "ser",
                                "/line-buffered" if c.get("lb") else "")
        ctx.cov.setdefault("modes", {})[key] = ctx.cov.setdefault("modes", {}).get(key, 0) + 1
        if r["timeout"] or r["secs"] > 120:       # a complete search of these files takes well under a second
            ctx.violation("rg did not end promptly after its stdout was closed", replay)
            continue
        slow = max(slow, r["secs"])
        got = (r["status"], tuple(sorted(k for k, _ in classify_stderr(r["err"]))))
        clean = not c["fault"]
        if c["mode"] == "fwm":
            some_match = any(f == "none" for f in c["files"])
        else:
            some_match = c["mode"] == "files" or any(f not in ("none", "locked") for f in c["files"])
        # the property statement directly: no other fault -> status 0 and silence
        if clean:
            par = c["threads"] > 1 and len(c["files"]) > 1
            closed_early = len(r["out"]) == c["k"]
            if r["err"]:
                ctx.violation("stdout closed after %d bytes: stderr is not empty" % c["k"], replay)
                continue
            if r["status"] == 1 and got in accept.get(ci, set()) and par and c["mode"] == "passthru" and closed_early:
                # the model (proved: broken_pipe_parallel_always_zero_refuted) and the code agree on 1
                ctx.known(KNOWN_PIPE, "rg %s | head -c %d -> status 1" % (" ".join(args(c)), c["k"]))
            elif r["status"] == 1 and got in accept.get(ci, set()) and not some_match:
                pass        # nothing matches anywhere and nothing went wrong: 1 is the table's answer
            elif r["status"] != 0:
                ctx.violation("stdout closed after %d bytes: expected status 0, got %d" % (c["k"], r["status"]), replay)
                continue
        if got not in accept.get(ci, set()):
            ctx.violation("closed pipe: (status, diagnostics) %r is none of the model's outcomes for any breaking point "
                          "(theorem broken_pipe_is_quiet_zero no longer describes the code)" % (got,), replay,
                          nfi=clean and r["status"] == 0)
    ctx.cov["pipe_runs"] = len(cases)
    ctx.cov["pipe_slowest_s"] = round(slow, 2)
    K.rmtree(root)


# ----------------------------------------------------------------------------------------------- removed files

def check_disappearing(ctx, rng, n):
    """a file listed by the walker is removed before it is opened: the removal is done by a preprocessor that runs
    on a *different*, earlier file (-j1 --sort path, --pre-glob selects only the trigger)"""
    jobs = []
    roots = []
    for _ in range(n):
        root = K.mktree("c15")
        roots.append(root)
        os.mkdir(os.path.join(root, "d"))
        os.chmod(os.path.join(root, "d"), 0o777)
        victim_match = rng.random() < 0.6
        later_match = rng.random() < 0.6
        truncate = rng.random() < 0.3
        for name, m in [("a_trigger", False), ("m_victim", victim_match), ("z_later", later_match)]:
            with open(os.path.join(root, "d", name), "w") as f:
                f.write("hit here\n" if m else "nothing\n")
            os.chmod(os.path.join(root, "d", name), 0o666)
        script = os.path.join(root, "pre.sh")
        with open(script, "w") as f:
            f.write("#!/bin/sh\n%s\ncat \"$1\"\n" % (": > d/m_victim" if truncate else "rm -f d/m_victim"))
        os.chmod(script, 0o755)
        jobs.append(dict(root=root, victim_match=victim_match, later_match=later_match, truncate=truncate))
    res = K.pmap(lambda j: K.run_rg(["--color", "never", "-j1", "--sort", "path", "--pre", "./pre.sh", "--pre-glob",
                                     "*trigger*", "-e", PAT, "d"], j["root"]), jobs)
    for j, r in zip(jobs, res):
        ctx.note_case("gone" + repr(j), True)
        gone = not j["truncate"]
        want = property_status(j["later_match"], False, gone)
        diags = classify_stderr(r["err"])
        ok = r["status"] == want and (diags == ([(1, "d/m_victim")] if gone else [])) and \
            r["out"] == (b"d/z_later:hit here\n" if j["later_match"] else b"")
        if not ok:
            ctx.violation("file removed/truncated between listing and opening: expected status %d, %s, and the later "
                          "file's results" % (want, "one diagnostic naming it" if gone else "no diagnostic"),
                          dict(kind="gone", case={k: v for k, v in j.items() if k != "root"}, status=r["status"],
                               out=repr(r["out"]), err=repr(r["err"])))
    ctx.cov["disappearing_file_runs"] = len(jobs)
    for root in roots:
        K.rmtree(root)


# ----------------------------------------------------------------------------------------------- decisions

def check_decisions(ctx, rng):
    """generated `threads` / driver choice vs what rg itself logs with --debug; exit-status table vs the property"""
    root = K.mktree("c15")
    os.mkdir(os.path.join(root, "d"))
    os.chmod(os.path.join(root, "d"), 0o755)
    for n in ("a", "b"):
        with open(os.path.join(root, "d", n), "w") as f:
            f.write("hit\n")
        os.chmod(os.path.join(root, "d", n), 0o644)
    r0 = K.run_rg(["--debug", "-e", PAT, "d"], root)
    m = re.search(rb"using (\d+) thread\(s\)", r0["err"])
    if not m:
        ctx.violation("rg --debug does not log the thread count any more (hiargs.rs)", dict(kind="decisions"), nfi=True)
        K.rmtree(root)
        return 4
    avail = int(m.group(1))       # = min(available_parallelism, 12)
    combos = []
    for j in [None, 1, 2, 3, 7, 16]:
        for sort in [None, "sort", "sortr"]:
            for one in [False, True]:
                combos.append((j, sort, one))
    def run(cb):
        j, sort, one = cb
        a = ["--debug"]
        if j is not None:
            a += ["-j", str(j)]
        if sort:
            a += ["--" + sort, "path"]
        a += ["-e", PAT, "d/a" if one else "d"]
        return K.run_rg(a, root)
    res = K.pmap(run, combos)
    lines = []
    for j, sort, one in combos:
        s = vopt(None) if not sort else vopt(vlist([vbool(sort == "sortr"), "0"]))
        lines.append(vlist(["2", "0", "0", "0", "0", "0", "0", s, vopt(None if j is None else str(j)), vbool(one),
                            str(avail), "0", "1", "()", "()", vbytes(b"\n"), "1", "()"]))
    mo = vlib.model(1502, lines)
    for cb, r, m_ in zip(combos, res, mo):
        ctx.note_case("dec" + repr(cb), True)
        g = re.search(rb"using (\d+) thread\(s\)", r["err"])
        mv = parse_val(m_) if m_[:1] in "(x" else None
        if not g or mv is None or int(g.group(1)) != mv[0]:
            ctx.violation("thread count: rg logs %s, the generated `threads` gives %s for -j %r sort %r one_file %r" % (
                g.group(1) if g else None, mv[0] if mv else m_, cb[0], cb[1], cb[2]),
                dict(kind="decisions", combo=cb, model=m_), nfi=True)
        if cb[1] and g and int(g.group(1)) != 1:
            ctx.violation("sorting did not force one thread", dict(kind="decisions", combo=cb, err=repr(r["err"][-300:])))
    # exit table: generated expression vs the property's sentence
    tl = [vlist([vbool(a), vbool(b), vbool(c)]) for a in (0, 1) for b in (0, 1) for c in (0, 1)]
    if vlib.model(1503, tl) != vlib.code(1503, tl):
        ctx.violation("the generated exit-status expression differs from the property's table",
                      dict(kind="exit-table", model=vlib.model(1503, tl), oracle=vlib.code(1503, tl)), nfi=True)
    K.rmtree(root)
    return avail


# ----------------------------------------------------------------------------------------------- status across modes

def check_status_across_modes(ctx, rng):
    """the status is a function of 'something matched', not of the output mode — including -U -v with the summary
    modes (defect D13, repaired by the printers' owner)"""
    root = K.mktree("c15")
    with open(os.path.join(root, "f"), "w") as f:
        f.write("a\nb\nc\n")
    os.chmod(os.path.join(root, "f"), 0o644)
    pats = [(["-e", "a"], 0), (["-e", "zzz"], 1), (["-U", "-v", "-e", "a\\n"], 0), (["-v", "-e", "[abc]"], 1),
            (["-U", "-e", "b\\nc"], 0), (["-U", "-v", "-e", "a\\nb\\nc\\n"], 1)]
    modes = [[], ["-c"], ["-l"], ["-q"], ["--json"], ["--count-matches"], ["-o"]]
    jobs = [(p, want, m, j) for p, want in pats for m in modes for j in ("-j1", "-j3")]
    res = K.pmap(lambda x: K.run_rg(["--color", "never", x[3]] + x[2] + x[0] + ["f"], root), jobs)
    for (p, want, m, j), r in zip(jobs, res):
        ctx.note_case("xmode" + repr((p, m, j)), True)
        if r["status"] != want or r["err"]:
            ctx.violation("status across output modes: rg %s %s %s f exits %d, expected %d" % (
                j, " ".join(m), " ".join(p), r["status"], want),
                dict(kind="xmode", pattern=p, mode=m, threads=j, status=r["status"], out=repr(r["out"]), err=repr(r["err"])))
    K.rmtree(root)


def check_child_failure(ctx, rng, n):
    """a file read through a command (--pre / -z) that fails on its own x every mode that stops reading early x -j x
    alone / next to a healthy file: status 2 (unless a match under -q), diagnostic, other results kept — the family
    and its timing argument are in props/child_failure.py (shared with C18)"""
    from props import child_failure as CF
    live = CF.run_family(ctx, rng, n, "C15")
    for c in live:
        # the status contract once more through this property's own table
        any_error = c["failed"]
        ref_match = c["ref"]["status"] == 0
        any_match = (ref_match and not c["failed"]) or c["layout"] == "pair"
        want = property_status(any_match, c["mode"] == "-q", any_error)
        if not c["r"]["timeout"] and c["r"]["status"] != want:
            ctx.violation("status contract with a failing reader command: rg %s exits %d, the table says %d (a file whose "
                          "command failed%s)" % (" ".join(c["args"]), c["r"]["status"], want,
                                                 " while rg stopped reading early" if c["stops"] else ""),
                          dict(kind="child-failure-status", args=" ".join(c["args"]), script=c.get("script"),
                               status=c["r"]["status"], want=want, err=repr(c["r"]["err"][:200])))


# ----------------------------------------------------------------------------------------------- entry points

def corpus():
    f = lambda n, l: dict(name=n, kind="file", lines=l)
    return [
        dict(entries=[f("a", ["hit"]), dict(name="u", kind="unreadable", lines=["hit"])], mode="std", threads=1, sort=None,
             implicit=False, no_messages=False, follow=False, max0=False),
        dict(entries=[dict(name="u", kind="unreadable", lines=["hit"]), f("a", ["hit"])], mode="quiet", threads=1,
             sort=None, implicit=False, no_messages=False, follow=False, max0=False),
        dict(entries=[dict(name="u", kind="unreadable", lines=["hit"]), f("a", ["zzz"])], mode="quiet", threads=4,
             sort=None, implicit=False, no_messages=True, follow=False, max0=False),
        dict(entries=[dict(name="dg", kind="dangling")], mode="std", threads=1, sort=None, implicit=False,
             no_messages=False, follow=False, max0=False),
        dict(entries=[dict(name="d", kind="dir", children=[dict(name="dg", kind="dangling"), f("x", ["hit"])])],
             mode="std", threads=1, sort="sort", implicit=False, no_messages=False, follow=True, max0=False),
        dict(entries=[dict(name="d", kind="dir", children=[])], mode="std", threads=1, sort="sort", implicit=True,
             no_messages=False, follow=False, max0=False),
        dict(entries=[], mode="std", threads=3, sort=None, implicit=True, no_messages=False, follow=False, max0=False),
        dict(entries=[dict(name="l", kind="lockeddir"), f("b", ["no"]), f("a", ["hit", "hit 2"])], mode="count",
             threads=1, sort="sortr", implicit=False, no_messages=False, follow=False, max0=False),
        dict(entries=[f("a", ["hit"]), dict(name="m", kind="missing")], mode="files", threads=1, sort=None,
             implicit=False, no_messages=False, follow=False, max0=False),
        dict(entries=[f("a", ["hit"]), f("b", ["hit"])], mode="std", threads=1, sort=None, implicit=False,
             no_messages=False, follow=False, max0=True),
        # a preprocessor that exits non-zero silently after its output was consumed: status 2, diagnostic names the file
        dict(entries=[dict(name="apf", kind="prefail", lines=["hit"]), f("b", ["hit"])], mode="std", threads=1, sort=None,
             implicit=False, no_messages=False, follow=False, max0=False, pre=True),
        dict(entries=[dict(name="apf", kind="prefail", lines=["zzz"]), f("b", ["zzz"])], mode="std", threads=1, sort=None,
             implicit=False, no_messages=False, follow=False, max0=False, pre=True),
        dict(entries=[dict(name="apf", kind="prefail", lines=["hit"]), f("b", ["hit"]), f("c", ["no"])], mode="count",
             threads=4, sort=None, implicit=False, no_messages=False, follow=False, max0=False, pre=True),
        dict(entries=[dict(name="apf", kind="prefail", lines=["zzz"]), f("b", ["zzz"])], mode="quiet", threads=3,
             sort=None, implicit=False, no_messages=False, follow=False, max0=False, pre=True),
        dict(entries=[dict(name="apf", kind="prefail", lines=["zzz"])], mode="list", threads=1,
             sort=None, implicit=False, no_messages=False, follow=False, max0=False, pre=True),
        dict(entries=[dict(name="apf", kind="prefail", lines=["zzz"]), f("b", ["hit"])], mode="std", threads=1, sort=None,
             implicit=False, no_messages=True, follow=False, max0=False, pre=True),
        dict(entries=[dict(name="apf", kind="prefail", lines=["hit"]), f("b", ["zzz"])], mode="count", threads=3, sort=None,
             implicit=False, no_messages=True, follow=False, max0=False, pre=True),
        dict(entries=[dict(name="m", kind="missing"), f("b", ["zzz"])], mode="std", threads=1, sort=None,
             implicit=False, no_messages=True, follow=False, max0=False),
        # traversal errors under -L: a link cycle, a dangling link; search and --files, one thread and several
        dict(entries=[dict(name="d", kind="dir", children=[dict(name="self", kind="looplink"), f("x", ["hit"])])],
             mode="std", threads=1, sort="sort", implicit=False, no_messages=False, follow=True, max0=False),
        dict(entries=[dict(name="d", kind="dir", children=[dict(name="self", kind="looplink"), f("x", ["hit"])])],
             mode="std", threads=4, sort=None, implicit=False, no_messages=False, follow=True, max0=False),
        dict(entries=[dict(name="d", kind="dir", children=[dict(name="self", kind="looplink"), f("x", ["zzz"])])],
             mode="files", threads=1, sort="sort", implicit=False, no_messages=False, follow=True, max0=False),
        dict(entries=[dict(name="d", kind="dir", children=[dict(name="self", kind="looplink"), f("x", ["zzz"])])],
             mode="files", threads=3, sort=None, implicit=True, no_messages=False, follow=True, max0=False),
        dict(entries=[dict(name="d", kind="dir", children=[dict(name="self", kind="looplink"), f("x", ["hit"])])],
             mode="count", threads=1, sort="sort", implicit=False, no_messages=False, follow=False, max0=False),
        # quiet is not quit_after_match: -q --stats searches everything, still exits 0 on a match despite an error
        dict(entries=[f("a", ["hit"]), dict(name="u", kind="unreadable", lines=["hit"])], mode="quiet", threads=1,
             sort=None, implicit=False, no_messages=False, follow=False, max0=False, stats=True),
        dict(entries=[dict(name="u", kind="unreadable", lines=["hit"]), f("a", ["hit"]), f("b", ["zzz"])], mode="quiet",
             threads=4, sort=None, implicit=False, no_messages=False, follow=False, max0=False, stats=True),
        dict(entries=[dict(name="u", kind="unreadable", lines=["hit"]), f("b", ["zzz"])], mode="quiet",
             threads=1, sort=None, implicit=False, no_messages=True, follow=False, max0=False, stats=True),
    ]


def run(ctx):
    rng = ctx.rng
    if not K.have_setpriv():
        ctx.violation("setpriv is not available: permission faults cannot be injected", dict(kind="env"), nfi=True)
        return
    ctx.cov["rule"] = ("fault scenarios: 1-5 explicit paths (or the implicit cwd) of kinds readable file with/without a "
                       "match, mode-000 file, missing path, dangling symlink, mode-000 directory, directory (depth <= 2) "
                       "x modes standard/-c/-l/--files/-q x -j1/-jN x --sort/--sortr x --no-messages x -L, run as uid "
                       "nobody; non-trivial = at least one injected fault. pipe scenarios: 1-4 files of 3..30000 "
                       "matching/non-matching lines (+ an unreadable file) x standard/--pre cat/--passthru/--files/-c/--json/-l/--files-without-match/--vimgrep/-o/--stats x "
                       "-j1..8, stdout closed after k bytes; model evaluated for every breaking point.")
    avail = check_decisions(ctx, rng)
    check_invalid_args(ctx, rng)
    check_status_across_modes(ctx, rng)
    check_fault_scenarios(ctx, corpus(), avail)
    n = ctx.count(400)
    check_fault_scenarios(ctx, [gen_scenario(rng) for _ in range(n)], avail)
    check_pipe(ctx, rng, ctx.count(200))
    check_disappearing(ctx, rng, ctx.count(20))
    check_child_failure(ctx, rng, ctx.count(40))
    K.report_drift(ctx, GEN_TARGETS, bool(ctx.violations))
    ctx.assumptions += [
        "the abstract walk (items, per-file result, bytes printed) is derived from the generated tree by this check's "
        "own rules (walk_items); the searcher/printer that produce those bytes are the subject of C01-C03/C09",
        "PARTIAL: promptness after a closed pipe and cross-thread timing of the errored/matched flags are runtime "
        "behaviour — exercised with a 120 s limit (generous: the machine may be loaded), not proved",
        "exit status of --type-list / --generate / --help / --version (special modes) is outside the model",
    ]


def replay(ctx, data):
    r = data["replay"]
    k = r.get("kind")
    if k == "fault":
        check_fault_scenarios(ctx, [r["scenario"]], 4)
    elif k == "invalid":
        root = K.mktree("c15")
        res = K.run_rg(r["args"], root)
        print(res)
        if res["status"] != 2 or res["out"]:
            ctx.violation("replayed invalid-argument case still fails", r)
        K.rmtree(root)
    else:
        print("replay: re-running the whole check for kind", k)
        run(ctx)
