"""C16 — stopping early or failing mid-stream yields a prefix of the full results."""
import vlib
from vlib import parse_val
import searchgen as sg
import sys, os
sys.path.insert(0, os.path.dirname(os.path.abspath(__file__)))

NEED_RG = True
MANIFEST = dict(
    text="Coq theorems (Props/C16.v): for all three strategies — SliceByLine::run (stop_is_prefix_slice), MultiLine::run "
         "(stop_is_prefix_multi_line, contains the repaired final flush D7) and ReadByLine::run (stop_is_prefix_reader: every "
         "capacity, growth policy and read history) — for every configuration, matcher, input and binary mode, a sink refusing "
         "at call k receives exactly the first k+1 calls of the uninterrupted run, then exactly one finish after Stop / no "
         "finish and the error after Fail; read_failure_is_prefix: a read() failing or interrupted at any index of the history "
         "returns the error without finish and the delivered results are a prefix of those of every run agreeing before that "
         "read; stateful_sink_*: the same for every deterministic stateful sink (a reply function consistent with the sink on the delivered "
         "calls exists and yields the cut run). Proved compositionally (a prefix law closed under sequencing, branching, state-dependent continuation and "
         "fuelled loops) over the model mirroring core.rs/glue.rs/line_buffer.rs; model=code correspondence at every stop "
         "index and on failing read histories plus the prefix oracle on the real code tie it to /repo. -m N (printer level) is "
         "C10's. D7 fixed.",
    note="trusted: Coq kernel, extraction, driver, harness; scripted matcher mirrors (Rust/Gallina); the fill of the "
         "multi-line heap buffer from a reader (retry of Interrupted) is outside the model",
    technique="Coq proof (compositional prefix law, all strategies) + extracted-model/implementation correspondence at every stop index",
    design="§7 C16, notes/C16.md")


def events_of(out):
    v = parse_val(out)
    return v[0], v[1]


def ev_key(e):
    return repr(e)


def check_prefix(ctx, case, line_full, full, k, what, out, kind):
    """oracle: the interrupted run delivers exactly events[0..k] of the uninterrupted run, then
    one finish iff Stop (what=1), nothing and an error iff Fail (what=2)"""
    st_full, ev_full = events_of(full)
    st, ev = events_of(out)
    body_full = ev_full[:-1] if ev_full and ev_full[-1][0] == 5 else ev_full
    if k >= len(ev_full):
        return None
    if ev_full[k][0] == 5:
        # the reply to finish itself: only an error can be returned
        exp_events = ev_full
        exp_status = 1 if what == 2 else 0
        ok = (ev == exp_events and st == exp_status)
        return None if ok else "reply at finish mishandled"
    exp_prefix = ev_full[:k + 1]
    if what == 1:
        ok = st == 0 and len(ev) == k + 2 and ev[:k + 1] == exp_prefix and ev[-1][0] == 5
        if ok and ev_full[k][0] == 0:
            pass
        return None if ok else "after Stop at call %d: expected events[0..%d] then exactly one finish" % (k, k)
    else:
        ok = st == 1 and ev == exp_prefix
        return None if ok else "after Fail at call %d: expected events[0..%d], an error and no finish" % (k, k)


def run_kind(ctx, kind, cases, tag, known_ml_flush=False):
    rng = ctx.rng
    lines_full = [sg.case_val(c) for c in cases]
    full_code = vlib.code(kind, lines_full)
    stops = []
    for i, (c, f) in enumerate(zip(cases, full_code)):
        if not f.startswith("("):
            ctx.violation("harness failure " + f, dict(kind=kind, line=lines_full[i]))
            continue
        n = len(events_of(f)[1])
        ks = list(range(n)) if n <= 6 else sorted(set([0, n - 1, n - 2] + [rng.randrange(n) for _ in range(4)]))
        for k in ks:
            for what in (1, 2):
                if what == 2 and rng.random() < 0.5:
                    continue
                stops.append((i, k, what))
    lines = [sg.case_val(cases[i], (k, what)) for i, k, what in stops]
    co = vlib.code(kind, lines)
    mo = vlib.model(kind, lines)
    kinds_hit = {}
    for (i, k, what), line, c, m in zip(stops, lines, co, mo):
        ev_full = events_of(full_code[i])[1]
        ek = ev_full[k][0] if k < len(ev_full) else -1
        kinds_hit[(ek, what)] = kinds_hit.get((ek, what), 0) + 1
        ctx.note_case(line, True)
        bad = check_prefix(ctx, cases[i], lines_full[i], full_code[i], k, what, c, kind)
        if c != m:
            ctx.violation("%s: model and code disagree under a stopping sink" % tag,
                          dict(kind=kind, line=line, case=sg.describe(cases[i]), k=k, what=what, model=m, code=c,
                               full=full_code[i]), nfi=(bad is None))
        if bad is not None:
            ctx.violation("%s: %s" % (tag, bad), dict(kind=kind, line=line, case=sg.describe(cases[i]), k=k, what=what,
                                                       code=c, full=full_code[i]))
    ctx.sample(dict(strategy=tag, case=sg.describe(cases[0]), full=full_code[0]))
    ctx.cov.setdefault("stop_points_by_event_kind", {}).update(
        {"%s:ev%d:%s" % (tag, a, "stop" if b == 1 else "fail"): n for (a, b), n in sorted(kinds_hit.items())})


def run_read_failures(ctx, n):
    """a read() that fails (or is interrupted) at call j: the results delivered so far are a prefix of the
    uninterrupted run's, no finish is signalled, the error is returned"""
    import C02 as c02
    rng = ctx.rng
    cases, full_lines, fail_lines, meta = [], [], [], []
    for _ in range(n):
        c = sg.gen_case(rng)
        cap = rng.choice([1, 2, 3, 5, 8, 16, 64])
        k = rng.randint(1, 6)
        nreads = len(c["input"]) // k + 3
        j = rng.randrange(nreads)
        what = rng.choice([1, 2])
        hist = [(0, k)] * nreads
        fhist = list(hist)
        fhist[j] = (what,)
        cases.append(c)
        meta.append((cap, k, j, what))
        full_lines.append(c02.reader_line(c, None, cap, None, hist))
        fail_lines.append(c02.reader_line(c, None, cap, None, fhist))
    full = vlib.code(201, full_lines)
    co = vlib.code(201, fail_lines)
    mo = vlib.model(201, fail_lines)
    pub = vlib.code(202, fail_lines)
    hit = 0
    for case, (cap, k, j, what), fl, f, c, m, p in zip(cases, meta, fail_lines, full, co, mo, pub):
        if not c.startswith("(") or c.startswith("(9"):
            continue
        ctx.note_case(fl, True)
        st, ev = events_of(c)
        stf, evf = events_of(f)
        if c != m:
            ctx.violation("read failure: model and code disagree", dict(kind=201, line=fl, case=sg.describe(case),
                          cap=cap, chunk=k, fail_at=j, model=m, code=c), nfi=True)
        if st == 1:
            hit += 1
            if any(e[0] == 5 for e in ev) or ev != evf[:len(ev)]:
                ctx.violation("after a failing read the delivered results are not a prefix of the full run, or finish was signalled",
                              dict(kind=201, line=fl, case=sg.describe(case), cap=cap, chunk=k, fail_at=j, code=c, full=f))
        else:
            # the failing read was never reached (search ended earlier): must equal the full run
            if c != f:
                ctx.violation("a read failure that was never reached changed the results",
                              dict(kind=201, line=fl, case=sg.describe(case), code=c, full=f))
        # the public entry point: same law (its transcoding reader may reach the failing read earlier or later)
        if p.startswith("(") and not p.startswith("(9"):
            stp, evp = events_of(p)
            if stp == 1 and (any(e[0] == 5 for e in evp) or evp != evf[:len(evp)]):
                ctx.violation("search_reader: after a failing read the results are not a prefix / finish was signalled",
                              dict(kind=202, line=fl, case=sg.describe(case), code=p, full=f))
    ctx.cov["read_failures_reached"] = hit


def run_max_count(ctx, n):
    """rg -m N: exactly the first N matching lines plus the after-context they are entitled to"""
    import subprocess
    import tempfile
    import re
    rng = ctx.rng
    runs = 0
    with tempfile.TemporaryDirectory(dir=vlib.CACHE) as d:
        for i in range(n):
            lines = [bytes(rng.choice(b"aab x") for _ in range(rng.randint(0, 4))) for _ in range(rng.randint(1, 14))]
            data = b"\n".join(lines) + (b"\n" if rng.random() < 0.85 else b"")
            f = os.path.join(d, "f%d" % i)
            open(f, "wb").write(data)
            a, b, N = rng.choice([0, 0, 1, 2, 3]), rng.choice([0, 0, 1, 2]), rng.choice([0, 1, 1, 2, 3])
            pat = rng.choice(["a", "b", "ab", "x", "^a", "a$"])
            flags = ["-n", "-A", str(a), "-B", str(b)] + (["-v"] if rng.random() < 0.2 else []) \
                + ([rng.choice(["--mmap", "--no-mmap"])])
            base = [vlib.RG, "--no-config", "--color", "never", "--no-heading", "-I"] + flags + ["-e", pat]
            full = subprocess.run(base + [f], stdin=subprocess.DEVNULL, stdout=subprocess.PIPE, stderr=subprocess.PIPE)
            lim = subprocess.run(base + ["-m", str(N), f], stdin=subprocess.DEVNULL, stdout=subprocess.PIPE, stderr=subprocess.PIPE)
            runs += 2
            fl = [x for x in full.stdout.split(b"\n") if x != b""]
            match_lnums = [int(x.split(b":")[0]) for x in fl if re.match(rb"^\d+:", x)]
            if N == 0:
                exp = []
            elif len(match_lnums) < N:
                exp = fl
            else:
                last = match_lnums[N - 1] + a
                exp = []
                for x in fl:
                    if x == b"--":
                        exp.append(x)
                        continue
                    ln = int(re.match(rb"^(\d+)[:-]", x).group(1))
                    if ln <= last:
                        exp.append(x)
                    else:
                        break
                while exp and exp[-1] == b"--":
                    exp.pop()
            # the same limit through the summary printer, with and without --stats: -c counts the first N matching
            # lines, --count-matches the matches inside them
            nm = len(match_lnums)
            want_c = min(N, nm)
            for extra in ([], ["--stats"]) if N > 0 else ():     # -m 0 searches nothing at all
                cc = subprocess.run(base + ["-c", "--include-zero", "-m", str(N)] + extra + [f], stdin=subprocess.DEVNULL,
                                    stdout=subprocess.PIPE, stderr=subprocess.PIPE)
                runs += 1
                first = cc.stdout.split(b"\n")[0]
                if first != str(want_c).encode():
                    ctx.violation("rg -c -m N does not count exactly the first N matching lines",
                                  dict(kind="cli-m-count", data=repr(data), flags=flags + extra, N=N, pattern=pat,
                                       got=repr(cc.stdout[:200]), expected=want_c))
            if N > 0:
                # the JSON printer under the same limit: exactly min(N, nm) match messages
                pj = subprocess.run(base + ["--json", "-m", str(N), f], stdin=subprocess.DEVNULL, stdout=subprocess.PIPE, stderr=subprocess.PIPE)
                runs += 1
                nj = sum(1 for x in pj.stdout.split(b"\n") if x.startswith(b'{"type":"match"'))
                # lines inside the trailing context window of the N-th match that match themselves are shown as matches
                want_j = nm if nm < N else len([l for l in match_lnums if l <= match_lnums[N - 1] + a])
                if nj != want_j:
                    ctx.violation("rg --json -m N does not report exactly the first N matching lines",
                                  dict(kind="cli-m-json", data=repr(data), flags=flags, N=N, pattern=pat, got=nj, expected=want_j))
            if "-v" not in flags and N > 0:
                oo = subprocess.run([vlib.RG, "--no-config", "--color", "never", "--no-heading", "-I", "-n", "-o", "-e", pat, f],
                                    stdin=subprocess.DEVNULL, stdout=subprocess.PIPE, stderr=subprocess.PIPE)
                per_line = {}
                for x in oo.stdout.split(b"\n"):
                    mm = re.match(rb"^(\d+):", x)
                    if mm:
                        per_line[int(mm.group(1))] = per_line.get(int(mm.group(1)), 0) + 1
                want_cm = sum(per_line.get(l, 0) for l in match_lnums[:N])
                for extra in ([], ["--stats"]):
                    cm = subprocess.run(base + ["--count-matches", "--include-zero", "-m", str(N)] + extra + [f],
                                        stdin=subprocess.DEVNULL, stdout=subprocess.PIPE, stderr=subprocess.PIPE)
                    runs += 1
                    first = cm.stdout.split(b"\n")[0]
                    if first != str(want_cm).encode():
                        ctx.violation("rg --count-matches -m N does not count the matches of exactly the first N matching lines",
                                      dict(kind="cli-m-count-matches", data=repr(data), flags=flags + extra, N=N, pattern=pat,
                                           got=repr(cm.stdout[:200]), expected=want_cm))
            got = [x for x in lim.stdout.split(b"\n") if x != b""]
            ctx.note_case("m%d" % i + repr((data, a, b, N, pat, flags)), len(match_lnums) > N > 0)
            if got != exp:
                ctx.violation("rg -m N does not print exactly the first N matching lines and their trailing context",
                              dict(kind="cli-m", data=repr(data), flags=flags, N=N, pattern=pat, got=repr(lim.stdout),
                                   expected=repr(b"\n".join(exp)), full=repr(full.stdout)))
    ctx.cov["max_count_cli_runs"] = runs


def run_closure_sinks(ctx, n):
    """grep_searcher::sinks::{UTF8, Lossy, Bytes}: a closure answering Ok(false) at its k-th call is never called
    again, and the calls it received are the first k+1 matched lines of the uninterrupted search"""
    rng = ctx.rng
    cases, lines, meta = [], [], []
    for _ in range(n):
        c = sg.gen_case(rng)
        c["cfg"]["line_number"] = True
        c["cfg"]["passthru"] = False
        which = rng.choice([0, 1, 1, 2])
        if which != 0 and rng.random() < 0.7:
            c["input"] = c["input"].replace(b"x", b"\xff")       # invalid UTF-8 inside lines (Lossy's other branch)
        k = rng.randint(0, 3)
        cases.append(c)
        meta.append((which, k))
        lines.append(vlib.vlist([sg.cfg_val(c["cfg"]), sg.matcher_val(c["needles"], c["confirm"], c["lt_mode"]),
                                 vlib.vbytes(c["input"]), str(which), str(k)]))
    co = vlib.code(1601, lines)
    full = vlib.code(301, [sg.case_val(c) for c in cases])
    for c, (which, k), line, o, f in zip(cases, meta, lines, co, full):
        if not o.startswith("(") or not f.startswith("("):
            ctx.violation("harness failure in the closure-sink case: %s / %s" % (o[:80], f[:80]), dict(kind=1601, line=line), nfi=True)
            continue
        st, seen = parse_val(o)
        evs = parse_val(f)[1]
        matched = [(e[2][0] if e[2] else None, e[3]) for e in evs if e[0] == 1]
        if which == 0 and any(b"\xff" in b for _, b in matched):
            continue
        exp = matched[:k + 1]
        if which == 1:
            exp = [(ln, b.decode("utf-8", "replace").encode("utf-8")) for ln, b in exp]
        got = [(x[0], x[1]) for x in seen]
        ctx.note_case(line, len(matched) > k + 1)
        if got != exp:
            ctx.violation("a closure sink (sinks::%s) that asked to stop at its call %d received other calls than the first %d "
                          "matching lines" % (["UTF8", "Lossy", "Bytes"][which], k, k + 1),
                          dict(kind=1601, line=line, case=sg.describe(c), which=which, k=k, got=repr(got), expected=repr(exp)))


def run_failing_readers(ctx, n):
    """the source's error is returned to the caller — the very error (kind and payload), whatever the strategy (roll buffer,
    multi-line heap read with and without a heap limit), and finish is never called after it"""
    rng = ctx.rng
    lines, cases = [], []
    for _ in range(n):
        c = sg.gen_case(rng, multi_line=(rng.random() < 0.5))
        if c["cfg"]["multi_line"]:
            c["lt_mode"] = 0
        hl = "()" if rng.random() < 0.4 else vlib.vlist([str(rng.choice([len(c["input"]) + 1, len(c["input"]) + 7, 65536, 200000]))])
        j = rng.randint(0, max(1, len(c["input"]) // 3 + 1))
        cases.append((c, hl, j))
        lines.append(vlib.vlist([sg.cfg_val(c["cfg"]), sg.matcher_val(c["needles"], c["confirm"], c["lt_mode"]),
                                 vlib.vbytes(c["input"]), hl, str(j)]))
    for (c, hl, j), line, o in zip(cases, lines, vlib.code(1602, lines)):
        try:
            st, kind_ok, payload_ok, finished = list(parse_val(o))     # four small numbers: printed as a byte string
        except Exception:
            ctx.violation("harness failure in the failing-reader case: " + o[:100], dict(kind=1602, line=line), nfi=True)
            continue
        ctx.note_case(line, st == 1)
        if st == 1 and not (kind_ok and payload_ok):
            ctx.violation("a failing read is not returned to the caller as the source's own error (kind or payload lost)",
                          dict(kind=1602, line=line, case=sg.describe(c), heap_limit=hl, fail_at_read=j, kind_preserved=bool(kind_ok),
                               payload_preserved=bool(payload_ok)))
        if st == 1 and finished:
            ctx.violation("finish was signalled although the source failed", dict(kind=1602, line=line, case=sg.describe(c), heap_limit=hl, fail_at_read=j))


def run_failing_source_cli(ctx):
    """a source that delivers its bytes and then fails (a --pre command printing the file and exiting non-zero, silently or
    with a message): the failure is reported (status 2, a diagnostic naming the file) and completion is not signalled —
    no count line under -c, no `end` message under --json"""
    import subprocess
    import tempfile
    runs = 0
    with tempfile.TemporaryDirectory(dir=vlib.CACHE) as d:
        f = os.path.join(d, "in.txt")
        open(f, "wb").write(b"alpha hit\nbeta\nhit again\n")
        for name, body in (("silent", 'cat "$1"; exit 3'), ("noisy", 'cat "$1"; echo late failure >&2; exit 3')):
            pre = os.path.join(d, "pre_%s.sh" % name)
            open(pre, "w").write("#!/bin/sh\n" + body + "\n")
            os.chmod(pre, 0o755)
            for mode in ([], ["-c"], ["--json"], ["-j", "2"]):
                p = subprocess.run([vlib.RG, "--no-config", "--color", "never", "--pre", pre] + mode + ["-e", "hit", f],
                                   stdin=subprocess.DEVNULL, stdout=subprocess.PIPE, stderr=subprocess.PIPE, timeout=120)
                runs += 1
                problems = []
                if p.returncode != 2:
                    problems.append("exit status %d, expected 2" % p.returncode)
                if b"in.txt" not in p.stderr:
                    problems.append("no diagnostic naming the file")
                if mode == ["-c"] and p.stdout.strip() != b"":
                    problems.append("a count was printed although the source failed")
                if mode == ["--json"] and b'"type":"end"' in p.stdout:
                    problems.append("completion (an end message) was signalled although the source failed")
                ctx.note_case("presrc-%s-%s" % (name, " ".join(mode)), True)
                if problems:
                    ctx.violation("a source failing after its output (--pre, %s): %s" % (name, "; ".join(problems)),
                                  dict(kind="cli-failing-source", script=body, mode=mode, status=p.returncode, stdout=repr(p.stdout[:300]),
                                       stderr=repr(p.stderr[:300])))
    ctx.cov["cli_failing_source_runs"] = runs


def run(ctx):
    rng = ctx.rng
    n = ctx.count(700)
    run_failing_source_cli(ctx)
    run_closure_sinks(ctx, ctx.count(400))
    run_failing_readers(ctx, ctx.count(300))
    run_read_failures(ctx, n)
    run_max_count(ctx, ctx.count(60))
    cases = sg.regress_cases() + [sg.gen_case(rng) for _ in range(n)]
    run_kind(ctx, 301, cases, "slice")
    ml = sg.regress_cases(True) + [sg.gen_case(rng, multi_line=True) for _ in range(n // 2)]
    run_kind(ctx, 301, ml, "multiline")
    ctx.cov["rule"] = ("every case = (searcher case, sink call index k, Stop|Fail); k ranges over all calls of short "
                       "runs and begin/last/random calls of long runs; all are non-trivial")


def replay(ctx, data):
    r = data["replay"]
    line = r["line"]
    c = vlib.code(r["kind"], [line])[0]
    m = vlib.model(r["kind"], [line])[0]
    print("code :", c, "\nmodel:", m, "\nfull :", r.get("full"))
    if c != m:
        ctx.violation("replayed case: model and code still disagree", r)
