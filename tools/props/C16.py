"""C16 — stopping early or failing mid-stream yields a prefix of the full results."""
import vlib
from vlib import parse_val
import searchgen as sg

NEED_RG = False


def events_of(out):
    v = parse_val(out)
    return v[0], v[1]


def ev_key(e):
    return repr(e)


def check_prefix(ctx, case, line_full, full, k, what, out, kind):
    """oracle: the interrupted run delivers exactly events[0..k] of the uninterrupted run, then
    one finish iff Stop (what=1), nothing and an error iff Fail (what=2)"""
    st_full, ev_full = events_of(full)
    st, ev = events_of(out)
    body_full = ev_full[:-1] if ev_full and ev_full[-1][0] == 5 else ev_full
    if k >= len(ev_full):
        return None
    if ev_full[k][0] == 5:
        # the reply to finish itself: only an error can be returned
        exp_events = ev_full
        exp_status = 1 if what == 2 else 0
        ok = (ev == exp_events and st == exp_status)
        return None if ok else "reply at finish mishandled"
    exp_prefix = ev_full[:k + 1]
    if what == 1:
        ok = st == 0 and len(ev) == k + 2 and ev[:k + 1] == exp_prefix and ev[-1][0] == 5
        if ok and ev_full[k][0] == 0:
            pass
        return None if ok else "after Stop at call %d: expected events[0..%d] then exactly one finish" % (k, k)
    else:
        ok = st == 1 and ev == exp_prefix
        return None if ok else "after Fail at call %d: expected events[0..%d], an error and no finish" % (k, k)


def run_kind(ctx, kind, cases, tag, known_ml_flush=False):
    rng = ctx.rng
    lines_full = [sg.case_val(c) for c in cases]
    full_code = vlib.code(kind, lines_full)
    stops = []
    for i, (c, f) in enumerate(zip(cases, full_code)):
        if not f.startswith("("):
            ctx.violation("harness failure " + f, dict(kind=kind, line=lines_full[i]))
            continue
        n = len(events_of(f)[1])
        ks = list(range(n)) if n <= 6 else sorted(set([0, n - 1, n - 2] + [rng.randrange(n) for _ in range(4)]))
        for k in ks:
            for what in (1, 2):
                if what == 2 and rng.random() < 0.5:
                    continue
                stops.append((i, k, what))
    lines = [sg.case_val(cases[i], (k, what)) for i, k, what in stops]
    co = vlib.code(kind, lines)
    mo = vlib.model(kind, lines)
    kinds_hit = {}
    for (i, k, what), line, c, m in zip(stops, lines, co, mo):
        ev_full = events_of(full_code[i])[1]
        ek = ev_full[k][0] if k < len(ev_full) else -1
        kinds_hit[(ek, what)] = kinds_hit.get((ek, what), 0) + 1
        ctx.note_case(line, True)
        bad = check_prefix(ctx, cases[i], lines_full[i], full_code[i], k, what, c, kind)
        if c != m:
            ctx.violation("%s: model and code disagree under a stopping sink" % tag,
                          dict(kind=kind, line=line, case=sg.describe(cases[i]), k=k, what=what, model=m, code=c,
                               full=full_code[i]), nfi=(bad is None))
        if bad is not None:
            ctx.violation("%s: %s" % (tag, bad), dict(kind=kind, line=line, case=sg.describe(cases[i]), k=k, what=what,
                                                       code=c, full=full_code[i]))
    ctx.sample(dict(strategy=tag, case=sg.describe(cases[0]), full=full_code[0]))
    ctx.cov.setdefault("stop_points_by_event_kind", {}).update(
        {"%s:ev%d:%s" % (tag, a, "stop" if b == 1 else "fail"): n for (a, b), n in sorted(kinds_hit.items())})


def run(ctx):
    rng = ctx.rng
    n = ctx.count(700)
    cases = [sg.gen_case(rng) for _ in range(n)]
    run_kind(ctx, 301, cases, "slice")
    ml = [sg.gen_case(rng, multi_line=True) for _ in range(n // 2)]
    run_kind(ctx, 301, ml, "multiline")
    ctx.cov["rule"] = ("every case = (searcher case, sink call index k, Stop|Fail); k ranges over all calls of short "
                       "runs and begin/last/random calls of long runs; all are non-trivial")


def replay(ctx, data):
    r = data["replay"]
    line = r["line"]
    c = vlib.code(r["kind"], [line])[0]
    m = vlib.model(r["kind"], [line])[0]
    print("code :", c, "\nmodel:", m, "\nfull :", r.get("full"))
    if c != m:
        ctx.violation("replayed case: model and code still disagree", r)
