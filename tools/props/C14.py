"""C14 — binary data never reaches the terminal unless text mode is requested."""
import os
import re
import shutil
import subprocess
import tempfile

import vlib
from vlib import vbytes, vlist, vopt, vbool, parse_val

NEED_RG = True
MANIFEST = dict(
    text="Coq theorems (every read history, pushed-back prefix, capacity, growth policy, reused buffer, abstract "
         "Core plan and sink): replace_bytes = map; under Quit(b)/Convert(b) the roll buffer never shows b; the "
         "reported offset (binary_data and finish) is the first b of the stream; every line handed to a sink by the reader strategy is "
         "b-free, by the slice strategies b-free in quit mode and b-free before the binary_data notification in "
         "convert mode; StandardSink output = rendering of b-free lines + at most one notice; notice/warning "
         "conditions exact (match_count > 0 and detection notified); SummarySink prints nothing for a quit-mode "
         "binary file; detection None = no detection; flag table. Tie to the code: extracted model vs the real "
         "searcher+printers (fragmenting reader, capacities 1.., slice sniff) and vs rg on generated trees; direct "
         "oracles: no 0x00 on stdout unless --text, notice/warning/drop conditions, --text = reference grep.",
    note="binary_byte_offset = first occurrence is now proved (LineBuffer bookkeeping across rolls, reader events and "
         "finish; slices: first occurrence if inside the sniffed prefix, else an occurrence in a reported line). "
         "Core's line selection is abstract in the theorems (a plan of sink calls); the correspondence instantiates "
         "it with the context-free line search (kind 1401) and, for -A/-B/-C, --passthru, --stop-on-nonmatch, -v, with "
         "the plan computed by the C03 Core model (kind 1404: slice and reader strategies, the sniffed prefix of a "
         "slice bounded to a few bytes by the hook verif_sniff_capacity, so that matched AND context lines meet the "
         "per-line examination); multi-line with context, JSON, -o/-r are covered by the CLI "
         "oracle (NUL-freeness, notice conditions) only. The literal reading 'warning if lines were already "
         "printed' is refuted for --passthru context-only output (known finding). Rendering of a line is a "
         "Section variable assumed not to invent the byte.",
    technique="Coq invariant proof over executable model + extracted-model/implementation correspondence + CLI oracle",
    design="§7 C14")

KNOWN_PASSTHRU = "QuitAfterContextOnlyOutputNoWarning"


def source_const(name, path):
    """regenerate a `const NAME: usize = <expr>;` from the source text"""
    src = open(os.path.join(vlib.REPO, path)).read()
    m = re.search(r"const\s+%s\s*:\s*usize\s*=\s*([^;]+);" % name, src)
    if not m or not re.fullmatch(r"[0-9\s()*+<]+", m.group(1).strip()):
        return None
    return int(eval(m.group(1)))


# ----------------------------------------------------------------------------- library-level cases

def peek_sim(hist, n):
    """encoding_rs_io BomPeeker::peek_bom = read_full into a 3-byte buffer: which ops it consumes and how many
    bytes it pulls.  returns (npre, remaining_hist)"""
    pre = 0
    i = 0
    while pre < 3:
        if i < len(hist):
            op = hist[i]
            i += 1
            if op == "E":
                return 0, ["E"] + hist[i:]
            k = min(op, 3 - pre, n - pre)
        else:
            k = min(3 - pre, n - pre)
        if k == 0:
            break
        pre += k
    return pre, hist[i:]


def gen_stream(rng, big=False):
    alph = [b"a", b"b", b"ab", b"\n", b"\n", b"x", b"\x00"]
    n = rng.randint(0, 14)
    s = b"".join(rng.choice(alph[:-1]) for _ in range(n))
    k = rng.choice([0, 0, 1, 1, 1, 2, 3])
    for _ in range(k):
        p = rng.choice([0, len(s), rng.randint(0, len(s)), max(0, len(s) - 1)])
        s = s[:p] + b"\x00" + s[p:]
    if rng.random() < 0.15:
        s += b"\n" + bytes(rng.choice(b"ab\n") for _ in range(rng.randint(1, 30)))
    return s


def gen_case(rng, default_cap):
    mode = rng.choice([0, 1, 1, 2, 2])
    b = 0 if rng.random() < 0.85 else rng.choice([120, 10, 98])
    strategy = rng.choice([0, 0, 0, 0, 1, 1, 2, 3])
    capacity = rng.choice([1, 2, 3, 4, 5, 6, 8, 11, 16, 64])
    alloc = None if rng.random() < 0.7 else rng.choice([0, 0, 1, 3, 8, 40])
    stream = gen_stream(rng)
    if b != 0:
        stream = stream.replace(b"\x00", bytes([b])) if rng.random() < 0.7 else stream
    hist = []
    for _ in range(rng.randint(0, 8)):
        r = rng.random()
        hist.append("E" if r < 0.02 else (0 if r < 0.06 else rng.choice([1, 1, 2, 3, 4, 5, 7, 100])))
    if strategy >= 2:          # multi-line (pattern \n): the whole input is in memory first; no scripted read faults
        hist = [k for k in hist if k not in ("E", 0)]
        alloc = None
    needles = rng.sample([b"a", b"ab", b"b", b"ba", b"x", b""], rng.randint(1, 2))
    if b in (98, 120):
        needles = [n for n in needles if bytes([b]) not in n] or [b"a"]
    invert = rng.random() < 0.2
    passthru = rng.random() < 0.25
    stop = None if rng.random() < 0.75 else rng.randint(0, 3)
    bin_reply = rng.random() < 0.9
    max_matches = None if rng.random() < 0.7 else rng.choice([0, 1, 2])
    path = None if rng.random() < 0.5 else b"p/f"
    null = path is not None and rng.random() < 0.15
    return dict(null=null, mode=mode, b=b, strategy=strategy, capacity=capacity, alloc=alloc, stream=stream, hist=hist,
                needles=needles, invert=invert, passthru=passthru, stop=stop, bin_reply=bin_reply,
                max_matches=max_matches, path=path, cap=default_cap)


def gen_ctx_case(rng, default_cap):
    """kind 1404: a line-oriented search with -A/-B, --passthru, --stop-on-nonmatch, the plan computed by the Core
    model; the prefix a slice strategy examines up front is bounded by `sniff` (hook), so that the first binary byte
    lies beyond it in most cases and the per-line examination of matched AND context lines is what protects the sink"""
    c = gen_case(rng, default_cap)
    c["strategy"] = rng.choice([0, 1, 1])
    b = c["b"]
    bb = bytes([b])
    pool = [l for l in (b"a", b"b", b"x", b"ab", b"", b"bx", b"xa", b"bb") if b == 0 or bb not in l] or [b"a"]
    lines = [rng.choice(pool) for _ in range(rng.randint(1, 9))]
    for _ in range(rng.choice([0, 1, 1, 1, 2])):
        i = rng.randrange(len(lines))
        p = rng.randint(0, len(lines[i]))
        lines[i] = lines[i][:p] + bb + lines[i][p:]
    s = b"\n".join(lines) + (b"" if rng.random() < 0.2 else b"\n")
    c["stream"] = s
    if c["strategy"] == 0 and rng.random() < 0.5:
        c["capacity"] = rng.choice([4, 8, 16, 64])
    c["passthru"] = rng.random() < 0.3
    c["before"] = rng.choice([0, 0, 1, 2])
    c["after"] = rng.choice([0, 0, 1, 2])
    c["son"] = rng.random() < 0.3
    c["sniff"] = rng.choice([0, 0, 1, 2, 3, 5, 8, default_cap])
    if (c["before"] or c["after"]) and not c["passthru"]:
        # a reader that answers 0 (end of input) and later delivers more bytes leaves Core::pos() inside a line once
        # context lines are kept across the roll: with -v the real code then panics in Range::new (notes/C14.md,
        # "Reader resuming after a zero-length read"); such histories are generated for context-free searches only
        c["hist"] = [op for op in c["hist"] if op != 0]
    c["null"] = False
    return c


def par_model(kind, lines, threads=8):
    """vlib.model on few but heavy cases: one driver process per case group"""
    if len(lines) <= 1:
        return vlib.model(kind, lines)
    from concurrent.futures import ThreadPoolExecutor
    k = min(threads, len(lines))
    groups = [lines[i::k] for i in range(k)]
    with ThreadPoolExecutor(max_workers=k) as ex:
        outs = list(ex.map(lambda g: vlib.model(kind, g), groups))
    res = [None] * len(lines)
    for i, o in enumerate(outs):
        for j, x in enumerate(o):
            res[i + j * k] = x
    return res


def hist_val(h):
    return vlist(["()" if op == "E" else str(op) for op in h])


def case_lines(c):
    """(line for the code, line for the model): the model's reader starts after the BOM peek"""
    def mk(hist, npre):
        return vlist([str(c["mode"]), str(c["b"]), str(c["strategy"]), str(c["capacity"]),
                      vopt(None if c["alloc"] is None else str(c["alloc"])), hist_val(hist), vbytes(c["stream"]),
                      vlist([vbytes(n) for n in c["needles"]]), vbool(c["invert"]), vbool(c["passthru"]),
                      vopt(None if c["stop"] is None else str(c["stop"])), vbool(c["bin_reply"]), str(c["cap"]),
                      vopt(None if c["max_matches"] is None else str(c["max_matches"])),
                      vopt(None if c["path"] is None else vbytes(c["path"])), str(npre), vbool(c.get("null", False))]
                     + ([str(c["before"]), str(c["after"]), vbool(c["son"]), str(c["sniff"])] if "sniff" in c else []))
    npre, rest = peek_sim(c["hist"], len(c["stream"]))
    return mk(c["hist"], 0), mk(rest, npre)


def bz(x):
    return x if isinstance(x, bytes) else b""


def ref_grep(c):
    """independent reference: the lines of the raw stream containing a needle (xor invert)"""
    out = []
    s = c["stream"]
    pos = 0
    while pos < len(s):
        e = s.find(b"\n", pos)
        e = len(s) if e < 0 else e + 1
        line = s[pos:e]
        body = line[:-1] if line.endswith(b"\n") else line
        hit = any(n in body for n in c["needles"])
        if hit != c["invert"]:
            out.append((1, pos, line))
        elif c["passthru"]:
            out.append((2, pos, line))
        pos = e
    return out


def check_lib_cases(ctx, cases, stats, heavy=False, kind=1401):
    lc = [case_lines(c) for c in cases]
    co = vlib.code(kind, [a for a, _ in lc])
    mo = (par_model if heavy else vlib.model)(kind, [b for _, b in lc])
    for c, (cl, ml), cout, mout in zip(cases, lc, co, mo):
        if cout in ("PANIC", "MISSING") or cout.startswith("PARSEFAIL"):
            ctx.violation("harness %s on a search case (debug assertion / overflow in the searcher?)" % cout,
                          dict(kind=kind, case=c, line=cl))
            continue
        cv = parse_val(cout)
        if cv == [99]:
            continue
        events = cv[0]
        b = c["b"]
        bb = bytes([b])
        binev = [e for e in events if e[0] == 4]
        lines_ev = [e for e in events if e[0] in (1, 2)]
        matched_ev = [e for e in events if e[0] == 1]
        nontrivial = c["mode"] != 0 and bb in c["stream"]
        ctx.note_case(cl, nontrivial)
        if nontrivial:
            stats["binary_in_stream"] += 1
            if binev:
                stats["detected"] += 1
                if binev[0][1] == 0:
                    stats["detected_at_0"] += 1
                if lines_ev and events.index(binev[0]) > events.index(lines_ev[0]):
                    stats["detected_after_lines"] += 1
            stats["mode%d_strategy%d" % (c["mode"], c["strategy"])] += 1
        if cv[1] == 1:
            stats["search_error"] += 1
        if c["stop"] is not None and len(lines_ev) > c["stop"]:
            stats["sink_stop_hit"] += 1
        if any(len(l) > c["capacity"] for l in c["stream"].split(b"\n")):
            stats["line_longer_than_capacity"] += 1
        # ---- link 2: model vs code, all observables
        ml = c["strategy"] >= 2
        if ml:
            stats["multi_line_cases"] += 1
            # the summary printer counts pattern matches, not lines, in multi-line mode: not modelled
            mvx = parse_val(mout) if mout.startswith("(") else None
            same = mvx is not None and len(mvx) == len(cv) and all(x == y for i, (x, y) in enumerate(zip(mvx, cv)) if i not in (3, 6))
        else:
            same = mout == cout
        # order of the protocol: begin first; a notified offset is also handed to finish
        if events and (events[0][0] != 0 or (binev and cv[1] == 0 and (events[-1][0] != 5 or events[-1][2] == []))):
            ctx.violation("sink protocol: begin is not the first call, or finish lacks the binary offset that was notified",
                          dict(kind=kind, case=c, line=cl, events=repr(events)[:400]))
        if not same:
            mv = parse_val(mout) if mout.startswith("(") else None
            which = "?"
            if mv is not None and len(mv) == len(cv):
                names = ["events", "outcome", "standard output", "count output", "files-with-matches output",
                         "files-without-match output", "count --include-zero output"]
                which = ", ".join(n for n, x, y in zip(names, mv, cv) if x != y)
            ctx.violation("binary detection: model and code disagree on " + which,
                          dict(kind=kind, case=c, code_line=cl, model_line=ml, model=mout, code=cout), nfi=True)
        # ---- property oracles on the code's answers
        std_out = bz(cv[2])
        outs = [std_out] + [bz(x) for x in cv[3:7]]
        convert_noop = c["mode"] == 2 and b == 10
        if c["mode"] != 0 and not convert_noop:
            # (a) no detected byte in a delivered line (slice+convert: before the notification)
            if c["strategy"] in (0,) or c["mode"] == 1:
                bad = [e for e in lines_ev if bb in bz(e[-1])]
            else:
                cut = events.index(binev[0]) if binev else len(events)
                bad = [e for e in events[:cut] if e[0] in (1, 2) and bb in bz(e[-1])]
            if bad:
                ctx.violation("a line containing the binary byte was handed to the sink", dict(kind=kind, case=c, line=cl, events=repr(events)))
            # (b) nothing printed contains the byte (b = NUL: the property's own wording)
            if c.get("null") and c["path"] is not None:
                outs = [o.replace(c["path"] + b"\x00", c["path"] + b":") for o in outs]   # the NULs --null itself writes
                std_out = outs[0]
            if b == 0 and any(b"\x00" in o for o in outs):
                ctx.violation("NUL byte in printer output without text mode", dict(kind=kind, case=c, line=cl, outs=repr(outs)))
            # (b2) a file searched in quit mode in which binary data was notified is dropped by every summary mode
            #      (count, count --include-zero, files-without-match; files-with-matches may have quit at the
            #      first match before the byte was seen: it never receives the notification then)
            if (c["mode"] == 1 and binev and c["stop"] is None and c["bin_reply"] and c["max_matches"] is None
                    and cv[1] == 0 and any(outs[i] for i in (1, 3, 4))):
                ctx.violation("quit mode: a binary file is reported by a summary mode instead of being dropped",
                              dict(kind=kind, case=c, line=cl, count=repr(outs[1]), files_without_match=repr(outs[3]),
                                   count_include_zero=repr(outs[4])))
            # (c) notice / warning exactly when the property says (plain sink behaviour only)
            if c["stop"] is None and c["bin_reply"] and c["max_matches"] is None and cv[1] == 0 and b == 0:
                warn = b"WARNING: stopped searching binary file after match" in std_out
                note = b"binary file matches (found" in std_out
                if c["mode"] == 1:
                    expect = bool(binev) and bool(matched_ev)
                    if warn != expect or note:
                        ctx.violation("quit mode: warning present=%s expected=%s" % (warn, expect),
                                      dict(kind=kind, case=c, line=cl, std_out=repr(std_out), events=repr(events)))
                    if warn:
                        stats["warning_printed"] += 1
                    if binev and lines_ev and not matched_ev and std_out:
                        stats["passthru_cut_without_warning"] += 1
                        ctx.known(KNOWN_PASSTHRU, "library: %r" % (c,))
                    if binev and not matched_ev and std_out and not lines_ev:
                        ctx.violation("quit mode: output for a binary file without a matched line", dict(kind=kind, case=c, line=cl))
                else:
                    expect = bool(binev) and bool(matched_ev)
                    if note != expect or warn:
                        ctx.violation("convert mode: notice present=%s expected=%s" % (note, expect),
                                      dict(kind=kind, case=c, line=cl, std_out=repr(std_out), events=repr(events)))
                    if note:
                        stats["notice_printed"] += 1
                    if matched_ev and not std_out:
                        ctx.violation("convert mode: a line matches but neither match nor notice is printed",
                                      dict(kind=kind, case=c, line=cl, events=repr(events)))
                    if not matched_ev and not c["passthru"] and std_out:
                        ctx.violation("convert mode: output although no line matches", dict(kind=kind, case=c, line=cl))
        # (d) text mode = detection off = plain grep of the raw bytes
        ctx_free = not (c.get("before") or c.get("after") or c.get("son"))
        if "sniff" in c:
            stats["ctx_cases"] += 1
            if nontrivial and c["strategy"] == 1 and c["stream"].find(bb) >= min(c["sniff"], c["cap"]):
                stats["ctx_slice_byte_beyond_sniff"] += 1
                if any(e[0] == 2 for e in events):
                    stats["ctx_slice_byte_beyond_sniff_with_context_lines"] += 1
            if c["son"] and c["after"] and not c["passthru"]:
                stats["ctx_stop_on_nonmatch_after"] += 1
        if c["mode"] == 0 and c["stop"] is None and cv[1] == 0 and not ml and ctx_free and (c["strategy"] == 1 or 0 not in c["hist"]):
            exp = ref_grep(c)
            got = [(e[0], e[1] if e[0] == 1 else e[2], bz(e[-1])) for e in lines_ev]
            if exp != got or binev:
                ctx.violation("detection disabled: events differ from a plain grep of the raw bytes",
                              dict(kind=kind, case=c, line=cl, expected=repr(exp), got=repr(got)))
        ctx.sample(dict(case=repr(c), result=cout)) if nontrivial and binev else None


# ----------------------------------------------------------------------------- CLI level

NEEDLES = [b"a", b"ab"]


def gen_text(rng, n):
    words = [b"a", b"ab", b"b", b"x", b"bb x", b"xa b", b"", b"x x x"]
    out = bytearray()
    while len(out) < n:
        out += rng.choice(words) + b"\n"
    return bytes(out)


def gen_long_text(rng, n):
    """long lines, few matches: keeps the unary-arithmetic model fast on 64 KiB+ inputs"""
    out = bytearray()
    while len(out) < n:
        out += bytes(rng.choice(b"xb ") for _ in range(rng.randint(80, 500)))
        out += (rng.choice([b"a", b"ab", b"xa b"]) if rng.random() < 0.25 else b"") + b"\n"
    return bytes(out)


def put_nul(s, p):
    p = max(0, min(p, len(s)))
    return s[:p] + b"\x00" + s[p:]


UTF8_MARK = b"\xef\xbb\xbf"


def gen_file(rng, cap, big_ok):
    k = rng.randint(0, 13)
    if k >= 12:
        # a UTF-8 mark sends the file through the transcoding reader (roll buffer) even when memory maps are on
        body = gen_file(rng, cap, False)
        return UTF8_MARK + (body if b"\x00" in body or k == 13 else put_nul(body, rng.randint(0, len(body))))
    if k == 0:
        return b""
    if k == 1:
        return gen_text(rng, rng.randint(1, 60))
    if k == 2:
        return put_nul(gen_text(rng, rng.randint(1, 60)), 0)
    if k == 3:
        s = gen_text(rng, rng.randint(1, 60))
        return put_nul(s, len(s))                      # last byte
    if k == 4:
        s = gen_text(rng, rng.randint(1, 60))
        return put_nul(s, len(s) - 1)                  # inside the last line
    if k in (5, 6):
        s = gen_text(rng, rng.randint(5, 80))
        i = s.find(b"a")
        return put_nul(s, (i + 1) if i >= 0 and k == 5 else rng.randint(0, len(s)))   # inside a matching line / anywhere
    if k == 7:
        s = gen_text(rng, rng.randint(5, 80))
        i = s.find(b"a")
        j = s.find(b"\n", i) if i >= 0 else -1
        return put_nul(s, j + 1 if j >= 0 else len(s))  # right after a matching line
    if k == 8 and big_ok:
        s = gen_long_text(rng, cap + rng.randint(200, 3000))
        return put_nul(s, cap + rng.choice([-3, -2, -1, 0, 1, 2, 3]))
    if k == 9 and big_ok:
        s = gen_long_text(rng, cap + rng.randint(200, 3000))
        return put_nul(s, rng.randint(cap + 4, len(s)))
    if k == 10 and big_ok:
        s = gen_long_text(rng, 2 * cap + rng.randint(10, 500))
        s = put_nul(s, rng.randint(cap, len(s)))
        return put_nul(s, rng.randint(0, len(s))) if rng.random() < 0.3 else s
    s = gen_text(rng, rng.randint(1, 40))
    return s[:-1] if rng.random() < 0.5 else s         # unterminated last line


def gen_file_big(rng, cap):
    while True:
        f = gen_file(rng, cap, True)
        if len(f) > cap:
            return f


_MODE_CACHE = {}


def model_mode(flag, explicit, stdin):
    """detection_for through the extracted model (kind 1403)"""
    key = (flag, explicit, stdin)
    if key not in _MODE_CACHE:
        _MODE_CACHE[key] = _model_mode(flag, explicit, stdin)
    return _MODE_CACHE[key]


def _model_mode(flag, explicit, stdin):
    out = vlib.model(1403, [vlist([str(flag), "0", vbool(stdin), "0" if explicit else "1", "0"])])[0]
    v = parse_val(out)
    return v[0], (v[1] if len(v) > 1 else 0)


def predict_file(c_common, content, path, mm, cap, stdin=False):
    """model case for one file as the CLI searches it"""
    c = dict(c_common)
    c.update(stream=content, path=path, cap=cap, capacity=cap, alloc=None, stop=None, bin_reply=True, max_matches=None)
    if content.startswith(UTF8_MARK):
        # BomPeeker strips the mark (its three peeked bytes yield nothing), every read then goes to the file; what the
        # line buffer and the offsets see is the content after the mark; memory maps are bypassed (slice_needs_transcoding)
        c.update(stream=content[3:], strategy=0, npre=0, hist=([8189] if stdin else []))
    elif mm and len(content) > 0:
        c.update(strategy=1, hist=[], npre=0)
    else:
        c.update(strategy=0, npre=min(3, len(content)), hist=([8189] if stdin else []))
    return c


def model_line(c):
    return vlist([str(c["mode"]), str(c["b"]), str(c["strategy"]), str(c["capacity"]), "()", hist_val(c["hist"]),
                  vbytes(c["stream"]), vlist([vbytes(n) for n in c["needles"]]), vbool(c["invert"]), vbool(c["passthru"]),
                  "()", "1", str(c["cap"]), "()", vopt(vbytes(c["path"])), str(c["npre"]), vbool(c.get("null", False))])


def run_rg(args, cwd, stdin_path=None):
    fin = open(stdin_path, "rb") if stdin_path else subprocess.DEVNULL
    try:
        p = subprocess.run([vlib.RG, "--no-config", "--color", "never"] + args, cwd=cwd, stdin=fin,
                           stdout=subprocess.PIPE, stderr=subprocess.PIPE, timeout=120)
    finally:
        if stdin_path:
            fin.close()
    return p.returncode, p.stdout, p.stderr


ML_PATTERNS = {"ml_nl": "\\n", "ml_anb": "a\\nb", "ml_dot": "(?s)a.b"}
OUTMODES = ["std", "std", "count", "lwm", "lwo", "lwo", "count_iz", "cm_iz", "passthru", "A1", "B1", "C2", "json", "only", "replace", "multiline",
            "ml_nl", "ml_anb", "ml_dot",
            "vimgrep", "stats", "sonA1"]
MODELLED = {"std": 2, "count": 3, "lwm": 4, "lwo": 5, "passthru": 2, "count_iz": 6}


def straddle_files(cap):
    """shapes around the end of the sniffed prefix (offset cap) and around read boundaries:
    s*: short NUL-free lines, then ONE long matching line that starts before cap, has its needle before cap and
        the file's first NUL after cap (with / without further lines, NUL right at cap+1 or well after);
    al*: 64-byte lines so that a line boundary, the end of the first full buffer and the NUL coincide at cap"""
    res = {}
    pad = lambda n: b"x" * n
    # long lines, one in eight matching: keeps the unary-arithmetic model fast
    short = (b"".join((b"x a" if i % 8 == 0 else b"bb ") + pad(250) + b"\n" for i in range(cap // 254 + 2)))
    head = short[:cap - 40]
    head = head[:head.rfind(b"\n") + 1]
    for name, nul_at, tail in (("s0", cap + 4, b""), ("s1", cap + 1, b"b\na\n"), ("s2", cap + 300, b"a tail\n"),
                               ("s3", cap, b"a\n")):
        line = b"ab " + pad(cap - len(head) - 3 + (nul_at - cap)) + b"\x00" + pad(5) + b"\n"
        assert len(head) + 3 < cap and len(head) + len(line) > cap and (head + line).find(b"\x00") == nul_at
        res["t/" + name] = head + line + tail
    # small files with the NUL inside the sniffed prefix: before / inside / after the lines a multi-line pattern matches
    res["e/x0"] = b"a\nab\x00\nb\n"          # named files (outside the traversed directory) for the mixed invocations
    res["e/x1"] = b"ab\nb\n"
    res["t/b0"] = UTF8_MARK + b"a\nab\x00\nb\n"      # UTF-8 mark: searched through the reader even under --mmap
    res["t/b1"] = UTF8_MARK + b"ab\nb\n"
    res["e/x2"] = UTF8_MARK + b"xa\x00\na\n"
    res["t/m0"] = b"x\nab\x00\nb\na\n"
    res["t/m1"] = b"\x00a\nb\n"
    res["t/m2"] = b"a\nb\nxa\nb\n\x00"
    row = b"a" + pad(62) + b"\n"
    for name, extra in (("al0", b"\x00"), ("al1", b"\x00a\n"), ("al2", b"a\x00\n"), ("al3", row + b"\x00")):
        res["t/" + name] = row * (cap // 64) + extra
    return res


def ctx_straddle_files(cap):
    """the file's first NUL beyond the sniffed prefix (offset cap) in a NON-matching line that the context options
    report: c0 matches before and after it (--passthru); c1 no match in the first cap bytes, then a match directly
    followed by the NUL line (-A, --stop-on-nonmatch -A: the slow line-by-line path delivers it); c2 the NUL line
    directly before the first match (-B); c3 = c1 without a final terminator"""
    pad = lambda n: b"x" * n
    some = b"".join((b"x a" if i % 8 == 0 else b"bb ") + pad(250) + b"\n" for i in range(cap // 254 + 3))
    none = b"".join(b"bb " + pad(250) + b"\n" for i in range(cap // 254 + 3))
    assert len(some) > cap + 500 and len(none) > cap + 500
    nul_line = b"bb \x00 xx\n"                      # holds no needle: reported only as context
    res = {"t/c0": some + b"x a one\n" + nul_line + b"bb end\nx a two\n",
           "t/c1": none + b"x a one\n" + nul_line + b"bb end\nx a two\n",
           "t/c2": none + nul_line + b"x a one\nbb end\n",
           "t/c3": none + b"x a one\n" + nul_line[:-1],
           "e/x1": b"ab\nb\n"}
    assert not any(n in nul_line for n in NEEDLES)
    for content in res.values():
        assert not (0 <= content.find(b"\x00") < cap)
    return res


def cli_round(ctx, rng, cap, stats, big_ok, fixed=None, invocations=None):
    d = tempfile.mkdtemp(dir=vlib.CACHE, prefix="c14-")
    try:
        os.mkdir(os.path.join(d, "t"))
        files = {}
        if fixed is not None:
            files = dict(fixed)
        else:
            for i in range(rng.randint(2, 5)):
                name = "t/f%d" % i
                files[name] = gen_file(rng, cap, big_ok and i < 1) if not (big_ok and i == 0) else gen_file_big(rng, cap)
        if fixed is None:
            files["e/x0"] = gen_file(rng, cap, False)       # lives outside the traversed directory: only ever named
        os.mkdir(os.path.join(d, "e"))
        for name in files:
            open(os.path.join(d, name), "wb").write(files[name])
        names = sorted(files)
        for it in range(len(invocations) if invocations else 6):
            flag = rng.choice([0, 0, 1, 2])
            explicit = rng.random() < 0.5
            mm = rng.random() < 0.5
            om = rng.choice(OUTMODES)
            invert = rng.random() < 0.15 and om in MODELLED
            stdin_name = rng.choice(names) if rng.random() < 0.12 else None
            if big_ok and it < 3:
                # a traversed / named big file in plain standard mode, both strategies
                flag, explicit, mm, om, invert, stdin_name = 0, it == 2, it == 1, "std", False, None
            null = rng.random() < 0.25 and om != "json"
            mix = rng.choice(["first", "last"]) if (rng.random() < 0.2 and not stdin_name) else None
            if invocations:
                flag, explicit, mm, om = invocations[it][:4]
                null = len(invocations[it]) > 4 and invocations[it][4] is True
                mix = invocations[it][5] if len(invocations[it]) > 5 else None
                invert, stdin_name = False, None
            if om in ML_PATTERNS:       # MultiLine strategy: -U with a pattern that can match the terminator
                args = ["-U", "-e", ML_PATTERNS[om]]
            else:
                args = ["-F", "-e", "a", "-e", "ab"]
            args += ["-N", "--no-heading", "-H", "--sort", "path", "--mmap" if mm else "--no-mmap"]
            if flag == 1:
                args.append("--binary")
            if flag == 2:
                args.append("--text")
            if invert:
                args.append("-v")
            if null:
                args.append("--null")
            args += {"std": [], "count": ["-c"], "lwm": ["-l"], "lwo": ["--files-without-match"],
                     "count_iz": ["-c", "--include-zero"], "cm_iz": ["--count-matches", "--include-zero"],
                     "passthru": ["--passthru"], "A1": ["-A1"], "B1": ["-B1"], "C2": ["-C2"], "json": ["--json"],
                     "only": ["-o"], "replace": ["-r", "Z"], "multiline": ["-U"], "ml_nl": [], "ml_anb": [], "ml_dot": [], "vimgrep": ["--vimgrep"],
                     "stats": ["--stats"], "sonA1": ["--stop-on-nonmatch", "-A1"], "sonC1": ["--stop-on-nonmatch", "-C1"],
                     "pt": ["--passthru"]}[om]
            if om == "json":
                args = [a for a in args if a not in ("-N", "--no-heading", "-H")]
            tnames = [n for n in names if n.startswith("t/")]
            enames = [n for n in names if not n.startswith("t/")]
            if stdin_name:
                targets, texp = [(stdin_name, b"<stdin>")], {stdin_name: True}
                rc, out, err = run_rg(args, d, stdin_path=os.path.join(d, stdin_name))
            elif mix and enames:
                # a named file together with a traversed directory, in either order: every file must get the behaviour
                # its own status entitles it to (one worker searches them all: --sort path)
                order = (enames, tnames) if mix == "first" else (tnames, enames)
                targets = [(n, n.encode()) for n in order[0] + order[1]]
                texp = {n: (n in enames) for n in names}
                rc, out, err = run_rg(args + (enames + ["t"] if mix == "first" else ["t"] + enames), d)
                stats["cli_mixed_%s" % mix] += 1
            elif explicit:
                targets, texp = [(n, n.encode()) for n in names], {n: True for n in names}
                rc, out, err = run_rg(args + names, d)
            else:
                targets, texp = [(n, n.encode()) for n in tnames], {n: False for n in tnames}
                rc, out, err = run_rg(args + ["t"], d)
            explicit_eff = sorted(set(texp.values()))
            stats["cli_runs"] += 1
            stats["cli_%s" % om] += 1
            what = dict(kind="cli", args=args, explicit=explicit_eff, stdin=stdin_name,
                        files={n: repr(files[n][:200]) + ("...(%d bytes)" % len(files[n])) for n in names},
                        stdout=repr(out[:2000]), stderr=repr(err[:500]))
            if rc == 2:
                ctx.violation("rg failed on a generated tree: %r" % err[:200], what)
                continue
            # ---- the property's own wording.  -0/--null writes one NUL after every path: exactly those are set aside
            raw_out = out
            if null:
                stats["cli_null"] += 1
                for _, pth in targets:
                    out = out.replace(pth + b"\x00", pth + (b"\n" if om in ("lwm", "lwo") else b":"))
            if flag != 2 and b"\x00" in out:
                ctx.violation("NUL byte on stdout without --text", what)
                continue
            tmode = {}
            b = 0
            for n, ex in texp.items():
                tmode[n], b = model_mode(flag, ex, bool(stdin_name))
                expect_mode = 0 if flag == 2 else (2 if (ex or flag == 1) else 1)
                if tmode[n] != expect_mode:
                    ctx.violation("detection_for (model of from_low_args / is_explicit) disagrees with the property's table",
                                  what, nfi=True)
            if om in ("count", "count_iz", "cm_iz", "lwo"):
                # a traversed file with a NUL in the examined portion is dropped: these modes search to the end, so the
                # roll buffer always meets the NUL; a memory map only surely when it lies in the sniffed prefix
                for n, pth in targets:
                    content = files[n]
                    nul = content.find(b"\x00")
                    if tmode[n] != 1 or nul < 0 or (mm and len(content) > 0 and nul >= cap):
                        continue
                    if pth + b":" in out or pth + b"\n" in out:
                        w2 = dict(what)
                        w2["file"] = n
                        ctx.violation("a traversed binary file is reported (%s) instead of being dropped" % " ".join(args[-3:]), w2)
                    stats["cli_summary_binary_dropped"] += 1
            if om in ML_PATTERNS and flag != 2:
                # multi-line strategy: a NUL inside the sniffed prefix is seen before any match, so a traversed file
                # is dropped and a named / --binary file yields at most the notice (exactly it when `\n` matches)
                for n, pth in targets:
                    content = files[n]
                    nul = content.find(b"\x00")
                    if nul < 0 or nul >= cap:
                        continue
                    mine = [l for l in out.split(b"\n") if l.startswith(pth + b":")]
                    note = [l for l in mine if l.startswith(pth + b": binary file matches")]
                    w2 = dict(what)
                    w2["file"] = n
                    if tmode[n] == 1 and mine:
                        ctx.violation("multi-line, quit mode: a file with a NUL in the sniffed prefix is not dropped", w2)
                    if tmode[n] == 2 and (mine != note or len(note) > 1 or (om == "ml_nl" and b"\n" in content and not note and not null)):
                        ctx.violation("multi-line, convert mode: more than the notice (or no notice although `\\n` matches)", w2)
                    stats["cli_ml_binary_files"] += 1
            if om not in MODELLED:
                continue
            # ---- model prediction, file by file
            common = dict(b=b, needles=NEEDLES, invert=invert, passthru=(om == "passthru"), null=null)
            cases = [predict_file(dict(common, mode=tmode[n]), files[n], p, mm and not stdin_name, cap, stdin=bool(stdin_name))
                     for n, p in targets]
            mouts = par_model(1401, [model_line(c) for c in cases])
            pred = b""
            ok = True
            for c, mo in zip(cases, mouts):
                if not mo.startswith("("):
                    ok = False
                    break
                pred += bz(parse_val(mo)[MODELLED[om]])
            if not ok:
                ctx.violation("model failed on a CLI case: %s" % mo[:80], what, nfi=True)
                continue
            if pred != raw_out:
                what["model"] = repr(pred[:2000])
                ctx.violation("rg stdout differs from the model's prediction (mode %s)" % om, what, nfi=True)
            # ---- direct statement of the property for plain standard output
            if om == "std" and not invert:
                for c in cases:
                    pre = c["path"] + b":"
                    mine = [l for l in out.split(b"\n") if l.startswith(pre)]
                    ref = [l for l in c["stream"].split(b"\n") if any(n in l for n in NEEDLES)]
                    ref_clean = [pre + l for l in ref]
                    has_nul = b"\x00" in c["stream"]
                    warn = [l for l in mine if l.startswith(pre + b" WARNING: stopped searching binary file")]
                    note = [l for l in mine if l.startswith(pre + b" binary file matches")]
                    printed = [l for l in mine if l not in warn and l not in note]
                    w2 = dict(what)
                    w2["file"] = c["path"].decode()
                    if flag == 2:
                        if printed != ref_clean or warn or note:
                            ctx.violation("--text: output is not the plain grep of the raw bytes", w2)
                        continue
                    if printed != ref_clean[:len(printed)]:
                        ctx.violation("printed lines are not a prefix of the file's matching lines", w2)
                    if not has_nul and (printed != ref_clean or warn or note):
                        ctx.violation("text file: output is not its matching lines", w2)
                    if c["mode"] == 1:
                        if note or (warn and not printed) or (has_nul and printed and len(printed) < len(ref_clean) and not warn):
                            ctx.violation("quit mode: neither dropped nor cut off with a warning", w2)
                        # the roll buffer examines every byte up to the NUL: lines printed => warning
                        if has_nul and printed and not warn and c["strategy"] == 0:
                            ctx.violation("quit mode (reader): lines were printed before the NUL but there is no warning", w2)
                        if warn:
                            stats["cli_warning"] += 1
                        if has_nul and not mine:
                            stats["cli_dropped"] += 1
                    else:
                        if warn or (note and not has_nul) or (ref and not mine) or (not ref and mine):
                            ctx.violation("convert mode: notice/no-output condition violated", w2)
                        if note:
                            stats["cli_notice"] += 1
    finally:
        shutil.rmtree(d, ignore_errors=True)


def corpus_cases(default_cap):
    base = dict(mode=1, b=0, strategy=0, capacity=4, alloc=None, stream=b"", hist=[], needles=[b"a"], invert=False,
                passthru=False, stop=None, bin_reply=True, max_matches=None, path=b"p/f", cap=default_cap)
    res = []
    for stream in [b"\x00", b"a\n\x00", b"a\nb\x00a\n", b"a\x00", b"ab\nab\nab\x00\nab\n", b"\x00a\n", b"aaaaaaaa\x00a\na\n",
                   b"a\n" * 6 + b"\x00" + b"a\n", b"a\n\x00\x00\x00a\n\x00", b"", b"a"]:
        for mode in (0, 1, 2):
            for strategy in (0, 1):
                for capacity in (1, 3, 5, 64):
                    for passthru in (False, True):
                        c = dict(base)
                        c.update(stream=stream, mode=mode, strategy=strategy, capacity=capacity, passthru=passthru)
                        res.append(c)
    return res


def ctx_corpus_cases(default_cap):
    """fixed context cases: the first NUL beyond the sniffed prefix in a NON-matching line that is delivered as
    passthru / after / before context, by the slow path (--passthru, --stop-on-nonmatch after a match) and the fast one"""
    base = dict(b=0, capacity=64, alloc=None, hist=[], needles=[b"a"], invert=False, stop=None, bin_reply=True,
                max_matches=None, path=b"p/f", cap=default_cap, null=False)
    res = []
    for stream in (b"a\na\nx\x00\nb\na\n", b"b\nx\x00\na\nx\x00\n", b"a\nb\nb\x00\nb\na\n", b"x\na\n\x00"):
        for mode in (1, 2):
            for strategy in (0, 1):
                for passthru, before, after, son in ((True, 0, 0, False), (False, 0, 1, True), (False, 0, 2, False),
                                                     (False, 1, 0, False), (False, 2, 2, False), (True, 0, 0, True),
                                                     (False, 1, 1, True)):
                    for sniff in (1, default_cap):
                        c = dict(base)
                        c.update(stream=stream, mode=mode, strategy=strategy, passthru=passthru, before=before,
                                 after=after, son=son, sniff=sniff)
                        res.append(c)
    return res


def straddle_lib_cases(default_cap):
    base = dict(b=0, capacity=default_cap, alloc=None, hist=[], needles=[b"ab"], invert=False, passthru=False, stop=None,
                bin_reply=True, max_matches=None, path=b"p/f", cap=default_cap)
    res = []
    for name, content in sorted(straddle_files(default_cap).items()):
        for mode, strategy in ((1, 1), (2, 1), (1, 0)):
            if True:
                c = dict(base)
                c.update(stream=content, mode=mode, strategy=strategy)
                res.append(c)
    return res


def run(ctx):
    from collections import Counter
    rng = ctx.rng
    default_cap = source_const("DEFAULT_BUFFER_CAPACITY", "crates/searcher/src/line_buffer.rs")
    if default_cap is None:
        ctx.violation("cannot regenerate DEFAULT_BUFFER_CAPACITY from line_buffer.rs",
                      dict(theorem_or_correspondence="Gen constant"), nfi=True)
        default_cap = 65536
    ctx.cov["DEFAULT_BUFFER_CAPACITY"] = default_cap
    stats = Counter()
    check_lib_cases(ctx, corpus_cases(default_cap), stats)
    check_lib_cases(ctx, straddle_lib_cases(default_cap), stats, heavy=True)
    cases = [gen_case(rng, default_cap) for _ in range(ctx.count(2500))]
    check_lib_cases(ctx, cases, stats)
    # context options / --passthru / --stop-on-nonmatch, plan from the Core model, small sniffed prefix (kind 1404)
    check_lib_cases(ctx, ctx_corpus_cases(default_cap), stats, kind=1404)
    check_lib_cases(ctx, [gen_ctx_case(rng, default_cap) for _ in range(ctx.count(1500))], stats, kind=1404)
    # fixed shapes around offset DEFAULT_BUFFER_CAPACITY: every mode x strategy, plain / count / -U / context
    # (flag, explicit, mmap, output mode[, --null]); the modes with a model prediction (std, count_iz, lwo, lwm) cost a
    # model run per big file, so each of them appears only where it adds a strategy / detection-mode combination
    inv = [(0, False, True, "std"), (0, True, True, "std"), (1, False, True, "std"),
           (0, False, True, "multiline"), (0, True, True, "multiline"), (1, False, True, "multiline"), (0, True, False, "multiline"),
           (0, False, True, "C2"), (0, True, True, "A1"), (0, True, True, "json"), (0, False, True, "only"),
           (0, True, True, "ml_nl"), (1, False, False, "ml_nl"), (0, False, True, "ml_dot"), (0, True, False, "ml_anb"),
           (1, False, True, "ml_anb"), (0, False, False, "ml_nl"),
           (0, False, False, "lwo"), (0, False, True, "count_iz"), (0, False, False, "cm_iz"), (0, False, True, "cm_iz"),
           (0, False, False, "std", True), (1, False, True, "lwm", True), (0, True, False, "A1", True),
           # a named file before / after a traversed directory (the first one also stands for the plain traversal, --no-mmap)
           (0, False, False, "std", False, "first"), (0, False, False, "cm_iz", False, "last"),
           (0, False, True, "ml_nl", False, "first")]
    cli_round(ctx, rng, default_cap, stats, big_ok=False, fixed=straddle_files(default_cap), invocations=inv)
    # slice strategy x context options x first NUL beyond the sniffed prefix in a context line (direct oracle: no NUL on
    # stdout; no model runs, so the cost is that of the rg invocations)
    inv_ctx = [(flag, explicit, mm, om)
               for om in ("pt", "sonA1", "sonC1", "A1", "B1", "C2")
               for flag, explicit, mm in ((0, False, True), (0, True, True), (1, False, True), (0, True, False))]
    cli_round(ctx, rng, default_cap, stats, big_ok=False, fixed=ctx_straddle_files(default_cap), invocations=inv_ctx)
    for r in range(ctx.count(8)):
        cli_round(ctx, rng, default_cap, stats, big_ok=(r % 3 == 0))
    ctx.cov["library_branches"] = dict(stats)
    ctx.cov["rule"] = ("library cases: stream of short lines over {a,b,x} with 0-3 binary bytes at chosen places, "
                       "mode none/quit/convert, reader (capacity 1-64, eager or limited growth, read history with "
                       "short/zero/failing reads) or slice strategy, needles, invert, passthru, stopping sink, "
                       "max_matches; non-trivial = detection enabled and the byte occurs in the stream; "
                       "context cases (kind 1404): 1-9 short lines, 0-2 binary bytes, before/after 0-2, passthru, "
                       "stop_on_nonmatch, invert, sniffed prefix 0-8 bytes or the default, plan from the Core model")


def replay(ctx, data):
    from collections import Counter
    r = data["replay"]
    if "case" in r and r.get("kind") in (1401, 1404):
        c = r["case"]
        for k in ("stream", "path"):
            if isinstance(c.get(k), str):
                c[k] = eval(c[k])
        c["needles"] = [eval(n) if isinstance(n, str) else n for n in c["needles"]]
        check_lib_cases(ctx, [c], Counter(), kind=r["kind"])



# ----------------------------------------------------------------------------------------------- source tie (DESIGN §4.2)
# the definitions of Gen/DecisionsLib.v this property's Props file ties to the model (`*_generated_eq_model`): when
# tools/gen/decisions_lib.py could not translate the current source text the tie is broken and reported
GEN_LIB_TARGETS = ['should_binary_quit', 'detect_binary_result']
_run_checks = run


def run(ctx):
    _run_checks(ctx)
    vlib.report_gen_drift(ctx, "decisions_lib", GEN_LIB_TARGETS, bool(ctx.violations))
